#!/usr/bin/env python3
"""Which statement lines of /repo/jsonpath did no check's workload execute?  tools/reach.py [tier]
Reads out/reach/<prop>-<tier>.json (written by every run of ./check) and prints, per file, the runs of executable lines
that the union of all checks never reached - the part of the code the monitors can say nothing about."""
import glob, json, os, sys

HERE = os.path.dirname(os.path.dirname(os.path.abspath(__file__)))
REPO = os.environ.get("VERIF_REPO", "/repo")
tier = sys.argv[1] if len(sys.argv) > 1 else "quick"
hit = {}
props = []
for f in sorted(glob.glob(os.path.join(HERE, "out", "reach", "*-%s.json" % tier))):
    props.append(os.path.basename(f)[:3])
    for k, v in json.load(open(f)).items():
        hit.setdefault(k, set()).update(v)


def exec_lines(path):
    out = set()
    src = open(path).read()

    def walk(co):
        if co.co_flags & 0x2:  # function bodies only: module and class bodies run at import, before any monitor starts
            first = co.co_firstlineno
            for _s, _e, ln in co.co_lines():
                if ln and ln != first:
                    out.add(ln)
        for c in co.co_consts:
            if hasattr(c, "co_lines"):
                walk(c)
    walk(compile(src, path, "exec"))
    return out, src.splitlines()


tot = got = 0
print("checks with a reach file:", " ".join(props))
for root, _d, files in os.walk(os.path.join(REPO, "jsonpath")):
    for fn in sorted(files):
        if not fn.endswith(".py"):
            continue
        path = os.path.join(root, fn)
        rel = os.path.relpath(path, os.path.join(REPO, "jsonpath"))
        ex, src = exec_lines(path)
        h = hit.get(rel, set())
        miss = sorted(l for l in ex if l not in h)
        # lines of docstrings / TYPE_CHECKING imports only run at import time, before the monitor starts: skip defs and imports
        miss = [l for l in miss if not src[l - 1].lstrip().startswith(("def ", "async def ", "class ", "import ", "from ", "@", '"""', "__slots__")) and not src[l - 1].rstrip().endswith(('"""',))]
        tot += len(ex)
        got += len(ex) - len(miss)
        if miss:
            print("\n== %s: %d of %d executable lines never reached" % (rel, len(miss), len(ex)))
            for l in miss:
                print("  %5d  %s" % (l, src[l - 1].rstrip()[:130]))
print("\nreached %d of %d" % (got, tot))
