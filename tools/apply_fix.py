#!/usr/bin/env python3
"""Apply one draft repair to /repo as a `fix:` commit: patch, run the unedited test-suite
(719 must pass), commit, then replay the witnesses of that repair (must stop violating)."""
import json, os, re, subprocess, sys
HERE = os.path.dirname(os.path.dirname(os.path.abspath(__file__)))
MSG = {}
for line in open(os.path.join(HERE, "drafts", "README.md")):
    m = re.match(r"\| (\d\d) \| (fix: [^|]+?) \|", line)
    if m:
        MSG[m.group(1)] = m.group(2).strip()
MSG.update({
    "36": "fix: descendant shorthand accepts any member name, including names starting with an identifier token",
    "37": "fix: compound queries read a file or JSON text document once",
    "38": "fix: patch targets never match the non-standard key and index markers",
})

def sh(cmd, **kw):
    return subprocess.run(cmd, shell=True, capture_output=True, text=True, **kw)

def main():
    nn = sys.argv[1]
    files = [f for f in os.listdir(os.path.join(HERE, "drafts", "fixes")) if f.startswith(nn + "-")]
    assert len(files) == 1, files
    patch = os.path.join(HERE, "drafts", "fixes", files[0])
    r = sh("cd /repo && git status --porcelain")
    if r.stdout.strip():
        print("repo not clean:\n" + r.stdout); return 1
    r = sh("cd /repo && patch -p1 --no-backup-if-mismatch < %s" % patch)
    print(r.stdout.strip())
    if r.returncode:
        print("PATCH FAILED", r.stderr); return 1
    sh("cd /repo && find . -name '*.orig' -delete -o -name '*.rej' -delete")
    t = sh("cd /repo && /venv/bin/python -m pytest -q -p no:cacheprovider --continue-on-collection-errors 2>&1 | tail -3")
    print(t.stdout.strip().splitlines()[-1])
    if "719 passed" not in t.stdout:
        print("TESTS CHANGED"); return 1
    msg = MSG[nn]
    body = sys.argv[2] if len(sys.argv) > 2 else ""
    c = sh("cd /repo && git add -A jsonpath && git commit -q -m %r %s && git log --oneline | head -1" % (msg, ("-m %r" % body) if body else ""))
    print(c.stdout.strip(), c.stderr.strip())
    bad = 0
    for fn in sorted(os.listdir(os.path.join(HERE, "witnesses"))):
        if fn.startswith(nn + "-"):
            prop = json.load(open(os.path.join(HERE, "witnesses", fn)))["property"]
            w = sh("cd %s && ./check %s --replay witnesses/%s" % (HERE, prop, fn))
            ok = w.returncode == 0
            print("  witness %s -> %s" % (fn, "no longer violates" if ok else "STILL VIOLATES"))
            if not ok:
                bad += 1
                print("\n".join(w.stdout.splitlines()[-4:]))
    return 1 if bad else 0

sys.exit(main())
