#!/usr/bin/env python3
"""Hand-written minimal witnesses of the defects found on the pinned tree, one or more
per repair.  Each is a replayable case of the owning check; every check replays the
witnesses of its property in a dedicated shard, so a repaired defect that returns is
reported deterministically (not only when the random workload happens to hit it)."""
import json, os
HERE = os.path.dirname(os.path.dirname(os.path.abspath(__file__)))
W = []

def N(n): return ["child", [["name", n]]]
def I(i): return ["child", [["index", i]]]
def Q(*segs, root="$"): return ["q", root, list(segs)]
def sq(*segs, root="@"): return ["sq", Q(*segs, root=root)]
def F(e, typ="child"): return [typ, [["filter", e]]]
def w(fix, prop, what, case): W.append({"fix": fix, "property": prop, "what": what, "case": case})
def jp(fix, prop, what, ast, doc, text, **kw): w(fix, prop, what, dict({"class": "witness", "ast": ast, "doc": doc, "text": text}, **kw))

jp("01", "C01", "slice selector selects characters of a string", Q(N("a"), ["child", [["slice", 0, 2, None]]]), {"a": "hello"}, "$.a[0:2]")
w("02", "C08", "async wildcard selects characters of a string", {"text": "$.a[*]", "doc": {"a": "hello"}, "flavour": "plain", "faults": {}})
jp("03", "C01", "member-name shorthand with a non-BMP character rejected", Q(N("\U0001f600")), {"\U0001f600": 1}, "$.\U0001f600")
jp("04", "C01", "blank before a descendant segment swallows the dots", Q(["desc", [["name", "a"]]]), {"a": 1, "b": {"a": 2}}, "$ ..a")
jp("04", "C01", "blank before .true is a syntax error", Q(N("true")), {"true": 1}, "$ .true")
w("05", "C03", "normalized path of a name ending in a backslash does not compile", {"text": "$..*", "doc": {"a\\": {"b": 1}}, "class": "witness"})
w("05", "C10", "string form with an escaped backslash before the closing quote", {"text": "$['a\\\\']['b']", "docs": [{"a\\": {"b": 1}}], "class": "witness", "must_compile": True})
jp("06", "C02", "booleans ordered against numbers", Q(F(["cmp", "<", sq(N("a")), ["lit", 2]])), [{"a": True}, {"a": 1}], "$[?@.a < 2]")
jp("07", "C02", "deep equality identifies a boolean with a number", Q(F(["cmp", "==", sq(N("a")), sq(N("b"))])), [{"a": [True], "b": [1]}, {"a": [1], "b": [1.0]}, {"a": {"k": False}, "b": {"k": 0}}], "$[?@.a == @.b]")
jp("08", "C13", "<> never matches", Q(F(["cmp", "!=", sq(N("a")), ["lit", 1]])), [{"a": 2}, {"a": 1}], "$[?@.a <> 1]")
w("09", "C06", "membership test on a string raises TypeError", {"kind": "query", "text": "$[?1 in @.a]", "docs": [[{"a": "abc"}]]})
w("09", "C06", "unhashable item tested against object keys raises TypeError", {"kind": "query", "text": "$[?@.a in @.b]", "docs": [[{"a": [1], "b": {"x": 1}}]]})
jp("09", "C13", "a missing operand is a member of a list that contains an empty list", Q(F(["cmp", "contains", sq(N("l")), sq(N("zz"))])), [{"l": [[], 1]}, {"l": [1]}], "$[?@.l contains @.zz]", extra={})
jp("10", "C02", "bare @ is a truthiness test instead of an existence test", Q(F(["test", Q(root="@")])), [0, "", False, None, [], {}], "$[?@]")
jp("10", "C02", "$ inside an inner filter denotes the outer candidate", Q(F(["test", Q(N("c"), F(["cmp", "==", sq(N("v")), sq(N("k"), root="$")]), root="@")])), {"k": 7, "x": {"k": 0, "c": [{"v": 7}]}, "y": {"k": 8, "c": [{"v": 8}]}}, "$[?@.c[?@.v == $.k]]")
jp("10", "C02", "count(@) on a number raises TypeError", Q(F(["cmp", "==", ["call", "count", [["nodes", Q(root="@")]]], ["lit", 1]])), [1, "a", [1]], "$[?count(@) == 1]")
jp("10", "C13", "_ inside an inner filter reads an empty mapping", Q(N("x"), F(["test", Q(N("c"), F(["cmp", "==", sq(N("v")), sq(N("k"), root="_")]), root="@")])), {"x": [{"c": [{"v": 2}]}, {"c": [{"v": 3}]}]}, "$.x[?@.c[?@.v == _.k]]", extra={"k": 2})
jp("10", "C13", "_ inside a $-rooted or _-rooted filter query loses the filter context", Q(F(["test", Q(N("x"), F(["cmp", "==", sq(N("v")), sq(N("k"), root="_")]), root="$")])), {"x": [{"v": 2}], "y": 1}, "$[?$.x[?@.v == _.k]]", extra={"k": 2})
w("11", "C06", "index with an exponent raises ValueError", {"kind": "query", "text": "$[1e2]", "docs": [[1]]})
w("11", "C06", "oversized number literal raises OverflowError", {"kind": "query", "text": "$[?@.a == 1e400]", "docs": [[{"a": 1}]]})
w("11", "C06", "malformed regex literal raises re.error", {"kind": "query", "text": "$[?@.a =~ /(/]", "docs": [[{"a": "x"}]]})
w("12", "C07", "value-typed function accepted as a test under !", {"text": "$[?!length(@.a)]", "expect_ok": False, "class": "witness", "label": "value-function-as-test", "narrow": False})
w("12", "C07", "value-typed function accepted as a test beside &&", {"text": "$[?length(@.a) && @.b]", "expect_ok": False, "class": "witness", "label": "value-function-as-test", "narrow": False})
w("12", "C07", "literal accepted under !", {"text": "$[?!true]", "expect_ok": False, "class": "witness", "label": "uncompared-literal", "narrow": False})
w("13", "C10", "negated comparison printed without parentheses", {"text": "$[?!(@.b == 1)]", "docs": [[{"b": 1}, {"b": 2}, {"c": 1}], {"a": {"b": 1}, "k": {"b": 3}}], "class": "witness"})
w("14", "C10", "fake root printed as $", {"text": "^[?@.a]", "docs": [{"a": 1}, [{"a": 1}]], "class": "witness"})
w("15", "C17", "string forms hard-code @ _ # and a one-character root", {"tokens": {"root": "$$", "self": "%", "key": ";", "ctx": "{}", "keys": "~", "fake": "^", "union": "|", "inter": "&"},
   "comp": [Q(F(["and", ["cmp", "!=", ["key"], ["lit", "zz"]], ["or", ["cmp", "==", sq(N("k")), sq(N("k"), root="_")], ["test", Q(N("a"), root="$")]]]))],
   "doc": [{"k": 2}, {"k": 3}], "t_def": "$[?# != 'zz' && (@.k == _.k || $.a)]", "t_cus": "$$[?; != 'zz' && (%.k == {}.k || $$.a)]"})
w("16", "C04", "member named +1 unreachable", {"doc": {"+1": "x", " 1": "y", "1_0": "z"}, "pointer": "/+1", "expect": "resolves"})
w("16", "C04", "non-canonical index resolves against an array", {"doc": {"a": [1, 2, 3]}, "pointer": "/a/+1", "expect": "unevaluable"})
w("16", "C04", "full-width digit index resolves against an array", {"doc": {"a": [1, 2, 3]}, "pointer": "/a/１", "expect": "unevaluable"})
w("17", "C04", "non-ASCII member name mangled by escape decoding", {"doc": {"é": 1}, "pointer": "/é", "expect": "resolves"})
w("17", "C06", "pointer ending in a backslash raises UnicodeDecodeError", {"kind": "pointer", "text": "/a\\", "docs": [{"a": 1}]})
w("18", "C04", "pointer token indexes into a string", {"doc": {"a": "xyz"}, "pointer": "/a/0", "expect": "unevaluable"})
w("19", "C06", "index marker that is not a number raises ValueError", {"kind": "pointer", "text": "/#abc", "docs": [[1, 2]]})
w("20", "C14", "pointers built from int and str parts compare unequal", {"tokens": ["1"], "unicode_escape": True})
w("20", "C14", "look-alike tokens print as integers", {"tokens": ["+1", " 1", "1_0"], "unicode_escape": False})
w("21", "C16", "two-digit offset mis-parsed", {"base": ["0"], "steps": 0, "offset": 10, "suffix": ""})
w("22", "C16", "# at the root raises IndexError", {"base": [], "steps": 0, "offset": 0, "suffix": "#"})
w("23", "C16", "suffix tokens decoded twice", {"base": ["0"], "steps": 0, "offset": 0, "suffix": ["é"]})
w("24", "C05", "add at index == length refused", {"doc": {"a": [1]}, "ops": [{"op": "add", "path": "/a/1", "value": 2}], "class": "witness"})
w("25", "C05", "move to - raises ValueError", {"doc": {"a": [1], "b": 2}, "ops": [{"op": "move", "from": "/b", "path": "/a/-"}], "class": "witness"})
w("25", "C05", "copy past the end silently appends", {"doc": {"a": [1], "b": 2}, "ops": [{"op": "copy", "from": "/b", "path": "/a/5"}], "class": "witness"})
w("26", "C05", "remove of an integer-looking member name raises KeyError", {"doc": {"1": 2, "a": 3}, "ops": [{"op": "remove", "path": "/1"}], "class": "witness"})
w("26", "C05", "add writes an int key", {"doc": {"a": 3}, "ops": [{"op": "add", "path": "/1", "value": 0}], "class": "witness"})
w("27", "C05", "test identifies true with 1", {"doc": {"a": 1, "b": [True]}, "ops": [{"op": "test", "path": "/a", "value": True}], "class": "witness"})
w("27", "C05", "test identifies [true] with [1]", {"doc": {"a": 1, "b": [True]}, "ops": [{"op": "test", "path": "/b", "value": [1]}], "class": "witness"})
w("28", "C15", "addap loaded from a document becomes addne", {"doc": {"a": [1]}, "ops": [{"op": "addap", "path": "/a/9", "value": 2}, {"op": "addap", "path": "/b", "value": 1}, {"op": "addap", "path": "/b", "value": 2}]})
w("29", "C15", "addne appends on arrays and is silent on scalar parents", {"doc": {"a": [1], "s": 1}, "ops": [{"op": "addne", "path": "/a/5", "value": 2}]})
w("30", "C15", "patch values inserted by reference", {"doc": {}, "ops": [{"op": "add", "path": "/x", "value": []}, {"op": "add", "path": "/x/-", "value": 1}]})
OPT = {"debug": False, "pretty": False, "no_unicode_escape": False, "expr_file": False, "doc_stdin": False, "out_file": False, "no_type_checks": False, "uri_decode": False}
w("31", "C18", "path -r FILE raises AttributeError", {"cmd": "path", "label": "valid", "expr": "$.a[*]", "doc_ok": True, "opts": dict(OPT, expr_file=True), "argv": []})
w("32", "C18", "unknown function prints a traceback", {"cmd": "path", "label": "name", "expr": "$[?nosuchfunction(@.a)]", "doc_ok": True, "opts": dict(OPT), "argv": []})
w("33", "C10", "float literal in exponent notation is not a fixed point", {"text": "$[?@.a == 1.0e20]", "docs": [[{"a": 1e20}, {"a": 1}]], "class": "witness"})
w("11", "C10", "1.0e400 prints inf", {"text": "$[?@.a == 1.0e400]", "docs": [[{"a": 1}]], "class": "witness"})
w("34", "C19", "overlapping selections modify the document", {"doc": {"d": [{"e": 1}, {"e": 3}]}, "mq_ast": Q(), "mq_text": "$", "rel_asts": [Q(N("d")), Q(N("d"), I(1), N("e"))], "rel_texts": ["$.d", "$.d[1].e"], "style": "RELATIVE", "class": "witness"})
w("35", "C06", "lone sign as a slice bound raises ValueError", {"kind": "query", "text": "$[-:]", "docs": [[1]]})
jp("36", "C01", "descendant shorthand for a name starting with _ rejected", Q(["desc", [["name", "_a"]]]), {"_a": 1, "b": {"_a": 2}}, "$.._a")
w("37", "C11", "compound query cannot read a file object (read once per operand)", {"text": "$.a | $.b", "doc": {"a": 1, "b": 2}, "comp": [Q(N("a")), ["|", Q(N("b"))]]})
w("39", "C11", "lazy intersections all filter by the last operand (late-bound generator variable)", {"text": "$.a & $.b & $.c", "doc": {"a": "x", "b": "y", "c": "x"}, "comp": [Q(N("a")), ["&", Q(N("b"))], ["&", Q(N("c"))]]})
w("40", "C10", "a comparison used as a comparison operand loses its parentheses", {"text": "$[?(@.a == 1) == true]", "docs": [[{"a": 1}, {"a": False}, {"a": True}, {"a": 2}]], "class": "witness"})
w("40", "C10", "a negated comparison used as a comparison operand loses its grouping", {"text": "$[?(@.a < 2) in [true]]", "docs": [[{"a": 1}, {"a": False}, {"a": True}, {"a": 2}]], "class": "witness"})
w("41", "C05", "add at index == length refused when the pointer was built from string tokens (from_parts)", {"doc": {"a": [1]}, "ops": [{"op": "add", "path": "/a/1", "value": 2}], "class": "witness", "builder_from_parts": True})
w("42", "C06", "pointer token of more than 4300 digits raises ValueError (Python's int digit limit)", {"kind": "pointer", "text": "/" + "1" * 4301, "docs": [[1]]})
w("42", "C06", "patch path with a token of more than 4300 digits raises ValueError", {"kind": "patch", "ops": [{"op": "add", "path": "/a/" + "1" * 4301, "value": 1}], "docs": [{"a": [1]}]})
w("43", "C06", "regex literal with an oversized repetition count raises OverflowError", {"kind": "query", "text": "$[?@.a =~ /a{99999999999}/]", "docs": [[{"a": "x"}]]})
w("43", "C06", "match() with an oversized repetition count raises OverflowError", {"kind": "query", "text": "$[?match(@.a, 'a{99999999999}')]", "docs": [[{"a": "x"}]]})
w("43", "C06", "search() with incompatible inline flags raises ValueError", {"kind": "query", "text": "$[?search(@.a, '(?a)(?u)a')]", "docs": [[{"a": "x"}]]})
w("44", "C06", "'#' pointer token of more than 4300 digits raises ValueError", {"kind": "pointer", "text": "/#" + "1" * 4301, "docs": [[1]]})
w("45", "C06", "a pointer with an unknown backslash sequence makes the library emit DeprecationWarning (an exception where such warnings are errors)", {"kind": "pointer", "text": "/a\\g<0>/\\400", "docs": [{"a": 1}], "warnings_as_errors": True})
w("46", "C05", "move out of a tuple reports success and leaves the source in place", {"tuples": True, "doc": [1, [2, 3], {"a": 4}], "tuple_at": [[]], "op": {"op": "move", "from": "/0", "path": "/1/-"}})
w("46", "C05", "move out of a tuple held in an object reports success and leaves the source in place", {"tuples": True, "doc": {"a": [], "b": [0, 1, 2], "c": {"d": {"e": 1}}}, "tuple_at": [["b"]], "op": {"op": "move", "from": "/b/0", "path": "/c/x"}})
w("47", "C06", "relative pointer whose new index has 4301 digits raises ValueError when applied", {"kind": "pointer", "text": "0+" + "9" * 4300, "docs": [[1]]})
w("47", "C06", "the same with the key marker", {"kind": "pointer", "text": "0+" + "9" * 4300 + "#", "docs": [[1]]})
w("48", "C18", "a document file with a stray 0xFF byte ends in a traceback", {"kind": "undecodable"})
w("38", "C06", "patch target with a key marker raises KeyError", {"kind": "patch", "ops": [{"op": "remove", "path": "/#a"}], "docs": [{"a": 1}]})
w("38", "C06", "patch target with an index marker raises ValueError", {"kind": "patch", "ops": [{"op": "add", "path": "/b/#0", "value": 1}], "docs": [{"b": [1, 2]}]})

os.makedirs(os.path.join(HERE, "witnesses"), exist_ok=True)
for fn in os.listdir(os.path.join(HERE, "witnesses")):
    os.unlink(os.path.join(HERE, "witnesses", fn))
seen = {}
for x in W:
    k = seen[(x["fix"], x["property"])] = seen.get((x["fix"], x["property"]), 0) + 1
    name = "%s-%s-%d.json" % (x["fix"], x["property"], k)
    x["mechanism"] = "witness:" + x["what"]
    with open(os.path.join(HERE, "witnesses", name), "w") as f:
        json.dump(x, f, indent=1, ensure_ascii=True)
print(len(W), "witnesses")
