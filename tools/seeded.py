#!/usr/bin/env python3
"""Confirm and evaluate a seeded breaking change written by an independent sub-agent.

  tools/seeded.py import <ID> <agent worktree>      confirm (tests green with the change, demo fails with it and passes
                                                    without it) in a fresh scratch worktree; store as seeded/<ID>/
  tools/seeded.py run [<ID> ...] [--all-checks]     apply seeded/<ID>/patch.diff to a scratch worktree of /repo HEAD and run
                                                    the owning property's quick check (witness shard off and on)
Scratch worktrees live under /var/tmp and are removed afterwards; /repo itself is never modified.
"""
import json, os, shutil, subprocess, sys, time
HERE = os.path.dirname(os.path.dirname(os.path.abspath(__file__)))
def sh(cmd, **kw): return subprocess.run(cmd, shell=True, capture_output=True, text=True, **kw)

def scratch(tag):
    wt = "/var/tmp/verif-seed-%s-%d" % (tag, os.getpid())
    sh("git -C /repo worktree remove --force %s" % wt)
    r = sh("git -C /repo worktree add -q --detach %s HEAD" % wt)
    assert r.returncode == 0, r.stderr
    return wt

def drop(wt):
    sh("git -C /repo worktree remove --force %s" % wt)
    shutil.rmtree(wt, ignore_errors=True)

def tests(wt):
    t = sh("cd %s && PYTHONPATH=%s /venv/bin/python -m pytest -q -p no:cacheprovider --continue-on-collection-errors 2>&1 | tail -1" % (wt, wt))
    return t.stdout.strip()

def demo(wt, path):
    d = sh("cd %s && PYTHONPATH=%s /venv/bin/python %s" % (wt, wt, path), timeout=600)
    return d.returncode, (d.stdout + d.stderr)[-600:]

def cmd_import(sid, src):
    seed = os.path.join(src, "SEED")
    dst = os.path.join(HERE, "seeded", sid)
    os.makedirs(dst, exist_ok=True)
    # regenerate the diff from the agent's worktree (library files only)
    diff = sh("git -C %s diff HEAD -- jsonpath" % src).stdout
    if not diff.strip():
        diff = open(os.path.join(seed, "patch.diff")).read()
    open(os.path.join(dst, "patch.diff"), "w").write(diff)
    shutil.copy(os.path.join(seed, "demo.py"), os.path.join(dst, "demo.py"))
    notes = open(os.path.join(seed, "notes.md")).read() if os.path.exists(os.path.join(seed, "notes.md")) else ""
    open(os.path.join(dst, "notes.md"), "w").write(notes)
    wt = scratch(sid)
    try:
        os.makedirs(os.path.join(wt, "SEED"), exist_ok=True)
        demo_src = open(os.path.join(dst, "demo.py")).read().replace(src, wt)
        open(os.path.join(wt, "SEED", "demo.py"), "w").write(demo_src)
        rc0, out0 = demo(wt, "SEED/demo.py")
        a = sh("cd %s && git apply %s" % (wt, os.path.join(dst, "patch.diff")))
        if a.returncode:
            print("patch does not apply:", a.stderr); return 1
        t = tests(wt)
        rc1, out1 = demo(wt, "SEED/demo.py")
        ok = rc0 == 0 and rc1 != 0 and "719 passed" in t
        meta = {"id": sid, "property": sid.split("-")[0], "confirmed": ok, "tests_with_change": t, "demo_without_change_exit": rc0, "demo_with_change_exit": rc1,
                "demo_output_with_change": out1[-400:], "needs_to_manifest": notes[:1500],
                "what_i_ran": ["git worktree add --detach <scratch> HEAD (of /repo)", "python SEED/demo.py (unchanged tree) -> exit %d" % rc0, "git apply patch.diff", "pytest -> %s" % t, "python SEED/demo.py (changed tree) -> exit %d" % rc1]}
        json.dump(meta, open(os.path.join(dst, "meta.json"), "w"), indent=1)
        print(sid, "confirmed" if ok else "NOT CONFIRMED", t, "demo: without=%d with=%d" % (rc0, rc1))
        return 0 if ok else 1
    finally:
        drop(wt)

def cmd_run(ids, all_checks):
    ids = ids or sorted(os.listdir(os.path.join(HERE, "seeded")))
    for sid in ids:
        dst = os.path.join(HERE, "seeded", sid)
        if not os.path.exists(os.path.join(dst, "patch.diff")): continue
        meta = json.load(open(os.path.join(dst, "meta.json")))
        wt = scratch(sid)
        try:
            a = sh("cd %s && git apply %s" % (wt, os.path.join(dst, "patch.diff")))
            if a.returncode:   # the repaired tree moved on since the change was written: retry with less context
                a = sh("cd %s && git apply -C1 --recount %s" % (wt, os.path.join(dst, "patch.diff")))
            if a.returncode:
                print(sid, "patch no longer applies"); continue
            props = ["C%02d" % i for i in range(1, 21)] if all_checks else [meta["property"]]
            det = {}
            for p in props:
                c = sh("cd %s && VERIF_NO_WITNESSES=1 VERIF_REPO=%s ./check %s" % (HERE, wt, p))
                mech = [l.strip()[11:] for l in c.stdout.splitlines() if l.strip().startswith("mechanism:")]
                det[p] = {"status": "caught" if (c.returncode == 1 and "VIOLATION property=%s" % p in c.stdout) else ("inconclusive" if c.returncode == 2 else ("check-crashed" if c.returncode else "missed")), "mechanisms": mech[:3]}
            meta["detection"] = det
            meta["detected_by_owning_check"] = det[meta["property"]]["status"] == "caught"
            json.dump(meta, open(os.path.join(dst, "meta.json"), "w"), indent=1)
            print(sid, {p: d["status"] for p, d in det.items() if d["status"] != "missed" or p == meta["property"]}, det[meta["property"]]["mechanisms"][:2])
            sys.stdout.flush()
        finally:
            drop(wt)

if sys.argv[1] == "import":
    sys.exit(cmd_import(sys.argv[2], sys.argv[3]))
else:
    args = [a for a in sys.argv[2:] if not a.startswith("--")]
    cmd_run(args, "--all-checks" in sys.argv)
