#!/usr/bin/env python3
"""Write the task files for one wave of independent sub-agents: tools/seed_prompts.py <dir> <wave tag>.
Each file holds only the property's text, how to run things in the agent's own scratch worktree and one-line
generic angle (rotated per property and wave so that independent attempts differ) - nothing from /verif: no checks, no models,
no DESIGN.md, no list of what is tested, no earlier attempts."""
import json, os, sys
HERE = os.path.dirname(os.path.dirname(os.path.abspath(__file__)))
root, tag = sys.argv[1], sys.argv[2]
ANGLES = [
    "an error path, and the state it leaves behind",
    "behaviour that depends on sizes, counts or boundary numbers",
    "rarely used but documented API surface and argument forms (keyword arguments, defaults, file-like objects, bytes vs text, subclasses of the library's own classes)",
    "an interaction between two features that are each tested alone",
    "Python-level semantics of the values involved (hash/eq quirks, -0.0, huge ints, subclasses of str/int/dict/list, objects with unusual __eq__/__bool__/__len__)",
    "concurrency or re-entrancy (threads, asyncio tasks, a callback that calls back into the library)",
    "process-level state: environment variables, locale, interpreter flags such as -O, warnings filters, the recursion limit, garbage collection and weak references",
    "resource handling: files, iterators and generators being closed, exhausted or consumed twice",
    "ordering and duplicates",
    "text encodings, Unicode and escaping",
]
wave = int("".join(c for c in tag if c.isdigit()) or 0)
base = open(os.path.join(HERE, "seeded", "prompt_template.txt")).read()
for l in open(os.path.join(HERE, "properties.jsonl")):
    p = json.loads(l)
    pid = p["id"]
    d = "%s/%s" % (root, pid)
    prop = "%s - %s\n\nStatement: %s\n\nQuantified over: %s\n" % (p["id"], p["title"], p["statement"], p["quantifier"]["text"])
    angle = ANGLES[(int(pid[1:]) * 3 + wave) % len(ANGLES)]
    open("%s/%s.prompt.txt" % (root, pid), "w").write(base.format(d=d, prop=prop, angle=angle, pid=pid, tag=tag))
print("ok")
