#!/bin/bash
# tools/sweep.sh <tier> <seed>...   : run every check (or those named in $ONLY, e.g. ONLY="03 05") for each seed; one line per run plus any alarm lines
cd "$(dirname "$0")/.." || exit 2
tier=$1; shift
for seed in "$@"; do
  for i in ${ONLY:-01 02 03 04 05 06 07 08 09 10 11 12 13 14 15 16 17 18 19 20}; do
    out=$(VERIF_SEED=$seed ./check C$i --tier $tier 2>&1); rc=$?
    echo "rc=$rc $(echo "$out" | grep "tier=$tier")"
    if [ $rc != 0 ]; then echo "$out" | grep -E "VIOLATION|INCONCLUSIVE|mechanism|detail" | cut -c1-700 | head -12; fi
  done
done
