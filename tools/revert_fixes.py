#!/usr/bin/env python3
"""Self-validation against our own repairs: revert each `fix:` commit alone in a scratch
worktree (skipped when the revert conflicts with later repairs), confirm the repository's
tests stay green, and confirm the owning properties' quick checks - with the witness shard
switched OFF, so only the generated workloads decide - report a VIOLATION."""
import json, os, re, shutil, subprocess, sys
HERE = os.path.dirname(os.path.dirname(os.path.abspath(__file__)))
def sh(cmd): return subprocess.run(cmd, shell=True, capture_output=True, text=True)
kf = json.load(open(os.path.join(HERE, "known_findings.json")))
props = {}
for e in kf["fixed"]:
    m = re.match(r"fixed: property=(C\d+) (\w+) ", e)
    props.setdefault(m.group(2), []).append(m.group(1))
only = set(sys.argv[1:])
res = {}
out = os.path.join(HERE, "mutants", "revert_results.json")
if os.path.exists(out): res = json.load(open(out))
for h, ps in props.items():
    if only and h not in only: continue
    wt = "/var/tmp/verif-revert-%s" % h
    sh("git -C /repo worktree remove --force %s" % wt)
    sh("git -C /repo worktree add -q --detach %s HEAD" % wt)
    try:
        r = sh("cd %s && git revert --no-commit %s" % (wt, h))
        subj = sh("git -C /repo log -1 --format=%%s %s" % h).stdout.strip()
        if r.returncode:
            res[h] = {"subject": subj, "status": "revert-conflicts-with-later-repairs"}
            print(h, "conflict", subj); continue
        t = sh("cd %s && /venv/bin/python -m pytest -q -p no:cacheprovider --continue-on-collection-errors 2>&1 | tail -1" % wt)
        det = {}
        for p in sorted(set(ps)):
            c = sh("cd %s && VERIF_NO_WITNESSES=1 VERIF_REPO=%s ./check %s" % (HERE, wt, p))
            det[p] = "caught" if c.returncode == 1 else ("inconclusive" if c.returncode == 2 else "MISSED")
        res[h] = {"subject": subj, "tests_green": "719 passed" in t.stdout, "detected_by_generated_workload": det}
        print(h, det, "tests_green=%s" % ("719 passed" in t.stdout), subj)
        sys.stdout.flush()
    finally:
        sh("git -C /repo worktree remove --force %s" % wt)
        shutil.rmtree(wt, ignore_errors=True)
    json.dump(res, open(out, "w"), indent=1)
