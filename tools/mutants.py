#!/usr/bin/env python3
"""Self-validation: apply each realistic breaking edit (search/replace spec) to a scratch
worktree of /repo, confirm the repository's own tests stay green, and confirm the owning
property's quick check reports a VIOLATION whose replay reproduces.  Scratch trees live
outside /repo and /verif and are removed after each mutant.

  tools/mutants.py [--only ID,ID] [--tier quick] [--all-checks]
"""
import argparse, json, os, shutil, subprocess, sys, time
HERE = os.path.dirname(os.path.dirname(os.path.abspath(__file__)))
SCRATCH = os.environ.get("VERIF_SCRATCH", "/var/tmp")

def sh(cmd, **kw):
    return subprocess.run(cmd, shell=True, capture_output=True, text=True, **kw)

def main():
    ap = argparse.ArgumentParser()
    ap.add_argument("--only")
    ap.add_argument("--tier", default="quick")
    ap.add_argument("--file", default=os.path.join(HERE, "mutants", "mutants.json"))
    ap.add_argument("--out", default=os.path.join(HERE, "mutants", "results.json"))
    a = ap.parse_args()
    spec = json.load(open(a.file))
    muts = spec["survive_baseline_tests"] if isinstance(spec, dict) else spec
    if a.only:
        want = set(a.only.split(","))
        muts = [m for m in muts if m["id"] in want]
    results = {}
    if os.path.exists(a.out):
        results = json.load(open(a.out))
    for m in muts:
        wt = os.path.join(SCRATCH, "verif-mut-%s-%d" % (m["id"], os.getpid()))
        sh("git -C /repo worktree remove --force %s" % wt)
        r = sh("git -C /repo worktree add -q --detach %s HEAD" % wt)
        if r.returncode:
            print(m["id"], "worktree failed", r.stderr); continue
        try:
            path = os.path.join(wt, m["file"])
            src = open(path).read()
            if m["old"] not in src:
                results[m["id"]] = {"status": "not-applicable", "desc": m["desc"], "property": m["property"]}
                print("%s %-4s not applicable to this tree (%s)" % (m["id"], m["property"], m["desc"]))
                continue
            open(path, "w").write(src.replace(m["old"], m["new"], 1))
            t = sh("cd %s && /venv/bin/python -m pytest -q -p no:cacheprovider --continue-on-collection-errors 2>&1 | tail -1" % wt)
            tests_ok = "719 passed" in t.stdout
            t0 = time.time()
            c = sh("cd %s && VERIF_REPO=%s ./check %s --tier %s" % (HERE, wt, m["property"], a.tier))
            caught = c.returncode == 1 and "VIOLATION property=%s" % m["property"] in c.stdout
            mech = [l.strip()[11:] for l in c.stdout.splitlines() if l.strip().startswith("mechanism:")]
            replay_ok = None
            if caught:
                rp = [l.split("replay=")[1] for l in c.stdout.splitlines() if l.startswith("VIOLATION")][0]
                rr = sh("cd %s && VERIF_REPO=%s ./check %s --replay %s" % (HERE, wt, m["property"], rp))
                replay_ok = rr.returncode == 1
            results[m["id"]] = {"status": "caught" if caught else ("inconclusive" if c.returncode == 2 else "MISSED"), "tests_green": tests_ok, "property": m["property"], "desc": m["desc"],
                                "mechanisms": mech[:4], "replay_reproduces": replay_ok, "wall_s": round(time.time() - t0, 1)}
            print("%s %-4s %-8s tests_green=%s replay=%s %s | %s" % (m["id"], m["property"], results[m["id"]]["status"], tests_ok, replay_ok, m["desc"], "; ".join(mech[:2])[:120]))
            sys.stdout.flush()
        finally:
            sh("git -C /repo worktree remove --force %s" % wt)
            shutil.rmtree(wt, ignore_errors=True)
        json.dump(results, open(a.out, "w"), indent=1)
    n = sum(1 for v in results.values() if v["status"] == "caught")
    print("caught %d / %d applicable" % (n, sum(1 for v in results.values() if v["status"] != "not-applicable")))

main()
