#!/usr/bin/env python3
"""Regenerate the generated tables of DESIGN.md (between <!-- BEGIN x --> / <!-- END x --> markers):
the list of fix: commits with what the checks observed, and the seeded-change results."""
import json, os, re, subprocess
HERE = os.path.dirname(os.path.dirname(os.path.abspath(__file__)))

def fixes_table():
    log = subprocess.run("git -C /repo log --reverse --format='%h|%s' 7bbff9b..HEAD", shell=True, capture_output=True, text=True).stdout.strip().splitlines()
    kf = json.load(open(os.path.join(HERE, "known_findings.json")))
    byh = {}
    for e in kf["fixed"]:
        m = re.match(r"fixed: property=(C\d+) (\w+) (.*)", e)
        byh.setdefault(m.group(2), []).append((m.group(1), m.group(3)))
    rows = ["| # | commit | properties | repair (`fix:` ...) | what the check observed (witness) |", "|---|---|---|---|---|"]
    for i, l in enumerate(log, 1):
        h, subj = l.split("|", 1)
        props = sorted({p for p, _ in byh.get(h, [])})
        what = "; ".join(dict.fromkeys(w for _, w in byh.get(h, [])))
        rows.append("| %d | `%s` | %s | %s | %s |" % (i, h, " ".join(props), subj[5:], what[:260].replace("|", "\\|")))
    return "\n".join(rows)

def seeded_table():
    rows = ["| id | confirmed (tests green, demo fails with / passes without) | owning check, witness shard off | detecting mechanisms |", "|---|---|---|---|"]
    d = os.path.join(HERE, "seeded")
    for sid in sorted(os.listdir(d)):
        mp = os.path.join(d, sid, "meta.json")
        if not os.path.exists(mp):
            continue
        m = json.load(open(mp))
        det = m.get("detection", {}).get(m["property"], {})
        others = [p for p, v in m.get("detection", {}).items() if v["status"] == "caught" and p != m["property"]]
        rows.append("| %s | %s | %s%s | %s |" % (sid, "yes" if m.get("confirmed") else "NO", det.get("status", "not run"), (" (also: %s)" % " ".join(others)) if others else "", "; ".join(det.get("mechanisms", [])[:2]).replace("|", "\\|")))
    return "\n".join(rows)

s = open(os.path.join(HERE, "DESIGN.md")).read()
for name, fn in (("FIXES", fixes_table), ("SEEDED", seeded_table)):
    b, e = "<!-- BEGIN %s -->" % name, "<!-- END %s -->" % name
    if b in s:
        s = s[: s.index(b) + len(b)] + "\n" + fn() + "\n" + s[s.index(e):]
open(os.path.join(HERE, "DESIGN.md"), "w").write(s)
print("tables regenerated")
