"""C17 - renaming the environment's identifier tokens never changes what a query means.

Oracle: the default environment on the default spelling (the same AST rendered twice:
once with the default tokens, once with the environment's).  The string form produced
by the custom environment must recompile in it to an equivalent, fixed-point query.
"""
from __future__ import annotations

import itertools

from rt import gen, impl
from rt.jsonval import canon, h
from rt.render import DEFAULT_TOKENS, Renderer

ID = "C17"
LEVEL = "exploration"
RULE = (
    "token assignments: 8 distinct spellings of 1-3 characters drawn from characters the fixed grammar does not use, incl. "
    "prefix-related pairs and all single-identifier renamings; for each, generated queries that together use every "
    "configurable identifier (root, current node, current key, filter context, keys selector, fake root, union, intersection) "
    "are rendered with the environment's spellings and with the defaults and evaluated on generated documents. A case is "
    "(assignment, query AST, document); non-trivial when the default-environment result is non-empty; distinct by hash."
)
ASSUMPTIONS = [
    "non-overlapping means: spellings do not collide with the fixed rules of the grammar (operators, letters, digits, brackets, quotes, blanks)",
    "compound operators are written with surrounding blanks, as the library's own string form prints them",
]

ALPHABET = "$@#^~%;{}`"
IDENTS = ["root", "self", "key", "ctx", "keys", "fake", "union", "inter"]
ATTRS = {"root": "root_token", "self": "self_token", "key": "key_token", "ctx": "filter_context_token", "keys": "keys_selector_token", "fake": "fake_root_token", "union": "union_token", "inter": "intersection_token"}
EXTRA = gen.CTX_DEFAULT


def spellings_pool():
    pool = list(ALPHABET)
    pool += [a + b for a, b in itertools.product(ALPHABET, repeat=2)]
    return pool


def assignments(r, n):
    singles, prefix, perms, rand = [], [], [], []
    for ident in IDENTS:
        for sp in ("%", ";;", "{}", "`", "%%%", "$$" if ident != "root" else "@@", "\U0001f511", "\U0001d482\U0001d483", "\u00a7", "\u222a\U0001f600", "\\", "\\d", "+^"):
            t = dict(DEFAULT_TOKENS)
            if sp in t.values():
                continue
            t[ident] = sp
            singles.append(t)
    r.shuffle(singles)
    for a, b, s1, s2 in (("root", "fake", "$", "$$"), ("self", "key", "@", "@#"), ("root", "self", "%", "%%"), ("ctx", "keys", ";", ";~"), ("union", "inter", "|", "|%"), ("key", "ctx", "#", "##"),
                         ("fake", "root", "^", "^^"), ("keys", "self", "~", "~@"), ("self", "root", "@", "@$"), ("root", "fake", "%", "%%"), ("self", "key", "+", "++"), ("key", "union", ";", ";;"), ("union", "inter", "`", "``"),
                         ("inter", "ctx", "{", "{{"), ("ctx", "keys", "}", "}}"), ("fake", "self", "%", "%%%"),
                         # spellings that differ only by the case of a letter (ASCII, and pairs related only through Unicode case folding)
                         ("root", "self", "%R", "%r"), ("union", "inter", ";U", ";u"), ("key", "keys", "`K", "`k"), ("fake", "ctx", "{F", "{f"), ("root", "fake", "%Rx", "%rX"),
                         ("self", "key", "%\u212a", "%k"), ("union", "inter", ";\u00b5", ";\u03bc"), ("ctx", "keys", "}\u03a9", "}\u03c9"), ("root", "self", "%\u017f", "%S")):
        t = dict(DEFAULT_TOKENS)
        t[a], t[b] = s1, s2
        if len(set(t.values())) == 8:
            prefix.append(t)
    perm_ids = ["root", "self", "key", "ctx", "keys", "fake"]
    for _ in range(max(6, n // 8)):
        vals = [DEFAULT_TOKENS[i] for i in perm_ids]
        r.shuffle(vals)
        t = dict(DEFAULT_TOKENS)
        for i, v in zip(perm_ids, vals):
            t[i] = v
        perms.append(t)
    pool = spellings_pool() + ["".join(r.choice(ALPHABET) for _ in range(3)) for _ in range(40)] + ["\U0001f511", "\U0001f511\U0001f511", "\U0001d482", "\u00a7", "\u222a", "\U0001f600x"]
    while len(rand) < n:
        sp = r.sample(pool, 8)
        if len(set(sp)) == 8:
            rand.append(dict(zip(IDENTS, sp)))
    # (any non-ASCII first character is a member-name start too since names may be non-ASCII)
    # a keys-selector spelling that starts like a member name ("_") collides with the
    # fixed dot-shorthand rule for names (`._` is the member "_"): overlapping, excluded
    for lst in (singles, prefix, perms, rand):
        lst[:] = [t for t in lst if not (t["keys"][0] == "_" or t["keys"][0].isalnum() or ord(t["keys"][0]) >= 0x80)]
    out = []
    lists = [singles, prefix, perms, rand]
    i = 0
    while len(out) < n and any(lists):
        lst = lists[i % 4]
        if lst:
            out.append(lst.pop(0))
        i += 1
    return out


def role_swapped(r, tokens):
    """Assignments with the same spellings but two roles exchanged (preferring spellings of
    different lengths), kept valid (keys token must not look like a name)."""
    out = []
    ids = list(IDENTS)
    pairs = [(a, b) for i, a in enumerate(ids) for b in ids[i + 1:] if len(tokens[a]) != len(tokens[b])] or [(a, b) for i, a in enumerate(ids) for b in ids[i + 1:]]
    r.shuffle(pairs)
    # always: exchanges of two spellings whose concatenation reads the same either way round ("%" and "%%", "+" and "++"):
    # only the split points between the identifiers' spellings move
    commuting = [(a, b) for i, a in enumerate(ids) for b in ids[i + 1:] if tokens[a] != tokens[b] and tokens[a] + tokens[b] == tokens[b] + tokens[a]]
    for a, b in commuting + pairs[:2]:
        t = dict(tokens)
        t[a], t[b] = tokens[b], tokens[a]
        if t["keys"][0] == "_" or t["keys"][0].isalnum() or ord(t["keys"][0]) >= 0x80:
            continue
        if any(("|" in t[k] or "&" in t[k]) for k in IDENTS if k not in ("union", "inter")):
            continue  # `|` / `&` outside the compound operators would overlap the fixed `||` / `&&` rules
        out.append(t)
    return out


def plan(tier, seed):
    n_assign = 72 if tier == "quick" else 400
    shards = 12 if tier == "quick" else 40
    return [{"kind": "assign", "n_assign": n_assign, "part": i, "parts": shards, "per": 40 if tier == "quick" else 80} for i in range(shards)] + [{"kind": "threads", "rounds": 12 if tier == "quick" else 120}]


_SHARED = {}


def make_env(tokens, style="subclass"):
    """style "subclass": one subclass per assignment (the documented route).  style "instance": ONE shared class whose
    constructor takes the spellings and sets them on the instance before the base class builds its lexer - so that
    several environments of the same class carry different spellings in one process.  Further styles below."""
    import jsonpath

    ns = {ATTRS[k]: v for k, v in tokens.items()}
    if style == "subclass":
        return type("TokEnv", (jsonpath.JSONPathEnvironment,), ns)()
    if style == "rules-recompiled":
        # the lexer's rule table rebuilt after construction (what a Lexer subclass that changes a pattern, or a caller
        # who renames a token on the instance, does): once and twice
        env = type("TokEnv", (jsonpath.JSONPathEnvironment,), ns)()
        env.lexer.rules = env.lexer.compile_rules()
        env.lexer.rules = env.lexer.compile_rules()
        return env
    if style == "class-attributes-reassigned":
        # ONE shared class whose token attributes are assigned anew before each instantiation (earlier instances of
        # it are not used again)
        if "configurable" not in _SHARED:
            _SHARED["configurable"] = type("Configurable", (jsonpath.JSONPathEnvironment,), {})
            _SHARED["configurable"]()   # instantiated once with the default spellings
        for k, v in ns.items():
            setattr(_SHARED["configurable"], k, v)
        return _SHARED["configurable"]()
    if style == "renamed-on-the-instance":
        env = jsonpath.JSONPathEnvironment()
        for k, v in ns.items():
            setattr(env, k, v)
        env.lexer = env.lexer_class(env=env)
        env.parser = env.parser_class(env=env)
        return env
    if "inst" not in _SHARED:
        class InstEnv(jsonpath.JSONPathEnvironment):
            def __init__(self, **spellings):
                for name, sp in spellings.items():
                    setattr(self, name, sp)
                super().__init__()
        _SHARED["inst"] = InstEnv
        _SHARED["first"] = InstEnv(**{ATTRS[k]: v for k, v in DEFAULT_TOKENS.items()})   # the first of its class: default spellings
    return _SHARED["inst"](**ns)


def gen_compound(r):
    """ASTs that use every identifier at least once across a small batch."""
    names = ["a", "b", "c", "k", "v"]
    fg = gen.ExtFilterGen(r, names, max_depth=2)

    def sq(root, *ns):
        return ["sq", ["q", root, [["child", [["name", n]]] for n in ns]]]
    fake_in_filter = r.choice([["test", ["q", "^", [["child", [["index", 0]]], ["child", [["name", "a"]]]]]], ["cmp", "==", ["sq", ["q", "^", [["child", [["index", 0]]], ["child", [["name", "k"]]]]]], sq("@", "k")], ["test", ["q", "^", [["child", [["filter", ["test", ["q", "@", [["child", [["name", "zz"]]]]]]]]]]]]])
    key_arg = r.choice([["call", "match", [["key"], ["lit", "[a-z0-9]*"]]], ["cmp", ">=", ["call", "length", [["key"]]], ["lit", 0]], ["call", "search", [["sq", ["q", "@", [["child", [["name", "k"]]]]]], ["key"]]], ["not", ["call", "match", [["key"], ["lit", "zz"]]]]])
    must = ["and", ["or", ["cmp", "!=", ["key"], ["lit", "zz"]], key_arg], ["or", ["cmp", "==", sq("@", "k"), sq("_", "k")], ["or", ["or", ["test", ["q", "$", [["child", [["name", "a"]]]]]], fake_in_filter], fg.logical()]]]
    q1 = ["q", "$", [[r.choice(["child", "desc"]), [["filter", must]]]]]
    q2 = ["q", "^", [["child", [["filter", ["or", ["test", ["q", "@", [["child", [["keys"]]]]]], fg.logical()]]]]]]
    q3 = ["q", "$", [["desc", [["keys"]]]]] if r.random() < 0.5 else ["q", "$", [["child", [["wild"]]], ["child", [["keys"], ["name", "a"]]]]]
    q4 = ["q", "$", gen.gen_segments(r, names, max_segs=3, keys=True, filters=lambda: fg.logical())]
    comp = [q1, [r.choice("|&"), q2], [r.choice("|&"), q3], ["|", q4]]
    return comp, fg


def flat(comp):
    return [comp[0]] + [q for _, q in comp[1:]]


def results(env, text, doc):
    out = impl.call(lambda: [(tuple(m.parts), canon(m.obj)) for m in env.finditer(text, doc, filter_context=EXTRA)])
    if out.ok:
        return ("ok", out.value)
    return ("raise", type(out.exc).__name__ + ": " + str(out.exc)[:80])


def norm_parts(res, keys_tok):
    """Match parts of keys-selector matches embed the keys token; normalise to '~'."""
    if res[0] != "ok":
        return (res[0], res[1].split(":")[0])
    out = []
    for parts, v in res[1]:
        out.append((tuple(("~" + p[len(keys_tok):]) if isinstance(p, str) and keys_tok != "~" and p.startswith(keys_tok) else p for p in parts), v))
    return ("ok", out)


def check_case(ctx, tokens, comp, doc, texts=None, style=None):
    import jsonpath

    r = ctx.rng
    ctx.evaluation()
    style = style or r.choice(["instance", "instance", "rules-recompiled", "renamed-on-the-instance", "class-attributes-reassigned", "class-attributes-reassigned"] + ["subclass"] * 6)
    env = make_env(tokens, style)
    ctx.cell("environment_construction", style)
    if r.random() < 0.5:
        # a few refused compiles first (stray default identifiers, control characters, unbalanced brackets): what an
        # error path leaves behind in the environment must not change how valid queries read afterwards
        for bad in (tokens["root"] + ".c[?\x01 == 1]", tokens["root"] + ".c[?@ == 1]" if tokens["self"] != "@" else tokens["root"] + ".c[?\x02]", "\x03", tokens["root"] + "[", tokens["root"] + "[?" + tokens["self"] + ".a ==]", "$" if tokens["root"] != "$" else "\x04", tokens["fake"] + "[?\x01 == 1]"):
            impl.call(env.compile, bad)
        ctx.count("refused_compiles_before_use")
    seed = r.random()
    import random

    t_def = Renderer(random.Random(seed), blanks=0.15, tight=0.5).compound(comp)
    t_cus = Renderer(random.Random(seed), blanks=0.15, tokens=tokens, tight=0.5).compound(comp)
    if texts:
        t_def, t_cus = texts
    case = {"tokens": tokens, "comp": comp, "doc": doc, "t_def": t_def, "t_cus": t_cus, "style": style}
    base = results(jsonpath.DEFAULT_ENV, t_def, doc)
    # (the text with its leading root identifier left out goes first: it is then the first thing the environment reads
    # after the refused compiles)
    rl_def, rl_cus = t_def[1:], t_cus[len(tokens["root"]):]
    got2 = None
    if t_def.startswith("$") and t_cus.startswith(tokens["root"]) and rl_def[:1] in (".", "[") and rl_cus[:1] == rl_def[:1] and not any(rl_cus.startswith(v) for v in tokens.values()):
        got2 = results(env, rl_cus, doc)
    got = results(env, t_cus, doc)
    renamed = ",".join(sorted(k for k in IDENTS if tokens[k] != DEFAULT_TOKENS[k]))
    ctx.case(h(canon(tokens), t_def, canon(doc)), base[0] == "ok" and bool(base[1]))
    if base[0] != "ok":
        ctx.count("default_env_raised")
        return
    if norm_parts(got, tokens["keys"]) != base:
        ctx.violation("renamed-tokens-evaluate-differently", case, {"tokens": tokens, "default_text": t_def, "custom_text": t_cus, "default": repr(base)[:300], "custom": repr(got)[:300]})
        return
    ctx.cell("identifiers_renamed", renamed or "none")
    # the same query with its leading root identifier left out (which both environments allow): it reads the same
    if got2 is not None:
        if results(jsonpath.DEFAULT_ENV, rl_def, doc) == base:
            ctx.count("queries_with_the_root_identifier_left_out")
            if norm_parts(got2, tokens["keys"]) != base:
                ctx.violation("renamed-tokens-evaluate-differently:root-identifier-left-out", dict(case, t_def=rl_def, t_cus=rl_cus), {"tokens": tokens, "default_text": rl_def, "custom_text": rl_cus, "default": repr(base)[:300], "custom": repr(got2)[:300]})
                return
        else:
            ctx.count("default_env_reads_the_rootless_text_differently_skipped")
    # the other entry points, and projection expressions (queries in their own right) written with the same spellings
    for route, fd, fc in (("findall", lambda: [canon(v) for v in jsonpath.DEFAULT_ENV.findall(t_def, doc, filter_context=EXTRA)], lambda: [canon(v) for v in env.findall(t_cus, doc, filter_context=EXTRA)]),
                          ("query.values", lambda: [canon(v) for v in jsonpath.DEFAULT_ENV.query(t_def, doc, filter_context=EXTRA).values()], lambda: [canon(v) for v in env.query(t_cus, doc, filter_context=EXTRA).values()])):
        a, b = impl.call(fd), impl.call(fc)
        if a.ok and (not b.ok or a.value != b.value):
            ctx.violation("renamed-tokens-evaluate-differently:%s" % route, case, {"tokens": tokens, "default_text": t_def, "custom_text": t_cus, "default": repr(a.value)[:300], "custom": b.desc() if not b.ok else repr(b.value)[:300]})
            return
    for ast in ([["q", "$", [["child", [["name", n]]]]] for n in r.sample(["a", "b", "c", "k", "v"], 2)] + [["q", "$", [["child", [["wild"]]]]], ["q", "$", [["desc", [["name", "a"]]]]], ["q", "$", [["child", [["name", "a"], ["name", "k"]]]]],
                 # (a root query and a fake-root query of the same shape: under environments that exchange the two spellings the
                 # very same text is the one here and the other there)
                 ["q", "$", [["child", [["index", 0]]], ["child", [["name", "a"]]]]], ["q", "^", [["child", [["index", 0]]], ["child", [["name", "a"]]]]],
                 ["q", "$", [["child", [["filter", ["cmp", ">=", ["sq", ["q", "@", [["child", [["name", "k"]]]]]], ["lit", 1]]]]]]], ["q", "^", [["child", [["filter", ["test", ["q", "@", [["child", [["name", "a"]]]]]]]]]]]]):
        e_def = Renderer(random.Random(seed), plain=True).top(ast)
        e_cus = Renderer(random.Random(seed), plain=True, tokens=tokens).top(ast)
        for proj in (jsonpath.Projection.RELATIVE, jsonpath.Projection.FLAT):
            a = impl.call(lambda: [canon(v) for v in jsonpath.DEFAULT_ENV.query(t_def, doc, filter_context=EXTRA).select(e_def, projection=proj)])
            b = impl.call(lambda: [canon(v) for v in env.query(t_cus, doc, filter_context=EXTRA).select(e_cus, projection=proj)])
            ctx.count("projection_expressions_compared")
            if a.ok and (not b.ok or a.value != b.value):
                ctx.violation("renamed-tokens-evaluate-differently:projection-expression", case, {"tokens": tokens, "query": [t_def, t_cus], "projection_expression": [e_def, e_cus], "default": repr(a.value)[:300], "custom": b.desc() if not b.ok else repr(b.value)[:300]})
                return
    c = impl.call(env.compile, t_cus)
    s = impl.call(str, c.value)
    if not s.ok:
        ctx.violation("str-raised", case, {"error": s.desc()})
        return
    c2 = impl.call(env.compile, s.value)
    if not c2.ok:
        ctx.violation("string-form-does-not-recompile-under-renamed-tokens", case, {"tokens": tokens, "text": t_cus, "str": s.value, "error": c2.desc()})
        return
    again = results(env, s.value, doc)
    if again != got:
        ctx.violation("string-form-evaluates-differently-under-renamed-tokens", case, {"tokens": tokens, "text": t_cus, "str": s.value, "first": repr(got)[:300], "again": repr(again)[:300]})
        return
    if str(c2.value) != s.value:
        ctx.violation("string-form-not-fixed-point-under-renamed-tokens", case, {"tokens": tokens, "str": s.value, "str2": str(c2.value)})
        return
    ctx.count("printed_and_recompiled")
    ctx.remember("renamed-tokens", lambda: (repr(results(make_env(tokens, style), t_cus, doc)), str(make_env(tokens, style).compile(t_cus))))
    if len(ctx.samples) < 3 or r.random() < 0.005:
        ctx.sample({"tokens": tokens, "custom_text": t_cus, "default_text": t_def, "str": s.value, "matches": len(base[1])})


def run(spec, ctx):
    import random

    if spec.get("kind") == "threads":
        run_threads(ctx, spec["rounds"])
        return
    r = ctx.rng
    allr = random.Random(ctx.seed * 7919 + 17)
    assigns = assignments(allr, spec["n_assign"])
    mine = [a for i, a in enumerate(assigns) if i % spec["parts"] == spec["part"]]
    ctx.count("assignments", len(mine))
    for tokens in mine:
        twins = role_swapped(r, tokens)
        for n in range(spec["per"]):
            comp, fg = gen_compound(r)
            doc = gen.ext_doc(r, ["a", "b", "c", "k", "v"], extra=fg.witnesses)
            if n < 6:
                # the same spellings with two roles exchanged, in the same process before and
                # after: environments must not influence one another
                for tw in twins:
                    check_case(ctx, tw, comp, doc)
                    check_case(ctx, tokens, comp, doc)
                    ctx.count("role_swapped_twin_sequences")
            check_case(ctx, tokens, comp, doc)
            # operands that END in a member-name shorthand, so that (written without a blank) the operator stands directly
            # after a name
            nm = lambda *ns: ["q", "$", [[r.choice(["child", "child", "desc"]), [["name", n]]] for n in ns]]  # noqa: E731
            check_case(ctx, tokens, [nm("a"), [r.choice("|&"), nm(r.choice("abk"), r.choice("akv"))], [r.choice("|&"), nm("k")], ["|", nm("c", "a")]], doc)
            # each simple operand alone as well
            for q in flat(comp)[:2]:
                check_case(ctx, tokens, [q], doc)


def run_threads(ctx, rounds):
    """Environments with one and the same brand-new assignment of spellings built by several threads at the same moment
    (a renaming nobody in this process has used before: a fresh filter-context spelling every round, union and
    intersection trading places from round to round), each thread then evaluating queries written in those spellings:
    every one of them must read its queries like the default environment reads the default spelling."""
    import random
    import threading

    import jsonpath

    from rt import threads

    r = ctx.rng
    nm = lambda *ns: ["q", "$", [["child", [["name", n]]] for n in ns]]  # noqa: E731
    for rnd in range(rounds):
        uniq = "".join(r.choice(ALPHABET) for _ in range(3)) + "%" * (rnd % 3)
        tokens = dict(DEFAULT_TOKENS)
        tokens.update({"root": "$$", "fake": "$", "self": "@@", "key": "@", "keys": "%~", "ctx": uniq})
        tokens["union"], tokens["inter"] = ("&", "|") if rnd % 2 else ("|", "&")
        if len(set(tokens.values())) != 8 or any(a != b and (a.startswith(b) and a[len(b):] and False) for a in tokens.values() for b in tokens.values()):
            continue
        comps = []
        docs = []
        for _ in range(3):
            comp, fg = gen_compound(r)
            comps.append(comp)
            docs.append(gen.ext_doc(r, ["a", "b", "c", "k", "v"], extra=fg.witnesses))
        comps.append([nm("a"), ["&", nm("a")], ["|", nm("b")]])
        docs.append({"a": [1, 2], "b": {"a": 3}})
        seed = r.random()
        texts_def = [Renderer(random.Random(seed), blanks=0.1).compound(c) for c in comps]
        texts_cus = [Renderer(random.Random(seed), blanks=0.1, tokens=tokens).compound(c) for c in comps]
        base = [results(jsonpath.DEFAULT_ENV, t, d) for t, d in zip(texts_def, docs)]
        if any(b[0] != "ok" for b in base):
            continue
        errors = []
        barrier = threading.Barrier(4)

        def worker(wid, rng):
            try:
                try:
                    barrier.wait(10)
                except threading.BrokenBarrierError:
                    pass
                env = make_env(tokens, rng.choice(["subclass", "instance", "renamed-on-the-instance"]))
                for t, d, b in zip(texts_cus, docs, base):
                    got = results(env, t, d)
                    if norm_parts(got, tokens["keys"]) != b:
                        errors.append({"tokens": tokens, "custom_text": t, "default": repr(b)[:200], "custom": repr(got)[:200]})
                        return
                    c = impl.call(env.compile, t)
                    s_ = impl.call(str, c.value) if c.ok else c
                    c2 = impl.call(env.compile, s_.value) if s_.ok else s_
                    if not c2.ok or results(env, s_.value, d) != got:
                        errors.append({"tokens": tokens, "custom_text": t, "string_form": s_.value if s_.ok else s_.desc(), "recompiled": c2.desc() if not c2.ok else "evaluates differently"})
                        return
            except Exception as e:  # noqa: BLE001
                errors.append({"thread": wid, "raised": "%s: %s" % (type(e).__name__, e)})
        st = threads.stress(worker, nthreads=4, files=("lex.py", "env.py", "parse.py"), seed=ctx.seed * 31 + rnd, prob=0.02)
        ctx.evaluation(4 * len(comps))
        ctx.case(h("threads", canon(tokens), st["signature"]), True)
        ctx.count("environments_built_by_threads_at_the_same_moment", 4)
        if st["timed_out"]:
            ctx.notes.append("a thread round timed out (inconclusive)")
        if errors:
            ctx.violation("environments-built-at-the-same-moment-read-their-own-spellings-differently", {"kind": "threads"}, errors[0])
            return


def finalize(m, tier):
    inc = []
    if m["counters"].get("assignments", 0) < 20:
        inc.append("too few token assignments")
    if m["counters"].get("printed_and_recompiled", 0) < 300:
        inc.append("too few string forms printed and recompiled under renamed tokens")
    return {"inconclusive": inc}


def replay(case, ctx):
    if case.get("kind") == "threads":
        run_threads(ctx, 60)
        return
    check_case(ctx, case["tokens"], case["comp"], case["doc"], texts=(case["t_def"], case["t_cus"]), style=case.get("style"))
