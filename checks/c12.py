"""C12 - Query iterator operations behave as list slicing on the match sequence.

Oracle: a Query is a list of remaining matches (model below).  Exhaustive for short
chains over the 9 chainable operations x counts {-1,0,1,2,len-1,len,len+1} x sequences
of length 0..5 x 8 terminals; sampled for long chains with interleaved consumption of
take/tee children.  H8: a counting probe on the source iterator (evidence only).
"""
from __future__ import annotations

import itertools
import time

from rt import impl
from rt.jsonval import h

ID = "C12"
LEVEL = "exploration"
RULE = (
    "operation chains over {limit, head, first, skip, drop, tail, last, take, tee} with counts {-1,0,1,2,len-1,len,len+1}, ended by "
    "each terminal {iteration, values, locations, items, pointers, first_one, one, last_one}, on match sequences of length 0..5: "
    "all chains of length <= 2 (quick) / <= 3 (thorough); plus sampled chains of length 4-12 on sequences up to 40 with random "
    "consumption order of take/tee children. A case is (sequence length, chain, terminal); every case is non-trivial (it decides "
    "a list equality) and distinct by construction in the enumerated part, by hash in the sampled part."
)
ASSUMPTIONS = ["post-operation states are asserted only where the statement fixes them: take leaves the rest to the original, failed negative counts change nothing"]
SHARD_TIMEOUT = {"quick": 900, "thorough": 3600}

CHAINABLE = ["limit", "head", "first", "skip", "drop", "tail", "last", "take", "tee"]
TERMINALS = ["iter", "values", "locations", "items", "pointers", "first_one", "one", "last_one"]


class Probe:
    """H8: counts every next() pulled from the source."""

    def __init__(self, items):
        self.it = iter(items)
        self.pulls = 0

    def __iter__(self):
        return self

    def __next__(self):
        self.pulls += 1
        return next(self.it)

    def gen(self):
        """The same source as a generator (what finditer hands to Query), so close() exists."""
        for m in self.it:
            self.pulls += 1
            yield m


class HintProbe(Probe):
    """A source that also answers operator.length_hint() - with an estimate that is off by `off` (PEP 424 allows
    hints to be wrong), relative to what is left."""

    def __init__(self, items, off):
        super().__init__(items)
        self.left = len(items)
        self.off = off

    def __next__(self):
        m = super().__next__()
        self.left -= 1
        return m

    def __length_hint__(self):
        return max(self.left + self.off, 0)


def counts_for(n):
    return sorted({-1, 0, 1, 2, n - 1, n, n + 1} - {-2})


def model_step(L, op, n):
    """Returns (new main list or None when the chain cannot continue, [(label, expected list)] side expectations, error?)."""
    if n < 0:
        return L, [], True
    if op in ("limit", "head", "first"):
        return L[:n], [], False
    if op in ("skip", "drop"):
        return L[n:], [], False
    if op in ("tail", "last"):
        return (L[-n:] if n else []), [], False
    raise ValueError(op)


def run_chain(matches, chain, terminal, env, order_rng=None, source="iterator", query=None, between=None):
    """Execute chain on the real Query and on the model; return None or a diff string."""
    import jsonpath

    probe = Probe(matches)
    if source.startswith("hint"):
        probe = HintProbe(matches, int(source[4:]))
    q = jsonpath.Query(probe.gen() if source == "generator" else probe, env) if query is None else query
    L = list(matches)
    pending = []  # (Query, expected list, label)
    for op, n in chain:
        if between is not None:
            between()
        if op == "pull":
            # consume n matches by iterating the query itself, then abandon that iterator
            k = max(n, 0)
            it = iter(q)
            got = []
            for _ in range(k):
                m = next(it, None)
                if m is None:
                    break
                got.append(m)
            del it
            if len(got) != len(L[:k]) or any(not _same(a, b) for a, b in zip(got, L[:k])):
                return "iterating the query pulled %r, expected %r" % ([m.obj for m in got], [m.obj for m in L[:k]]), probe.pulls
            L = L[k:]
            continue
        if op == "take":
            if n < 0:
                try:
                    q.take(n)
                    return "take(%d) did not raise ValueError" % n, probe.pulls
                except ValueError:
                    continue
            child = q.take(n)
            pending.append((q, L[n:], "rest after take(%d)" % n))
            q, L = child, L[:n]
        elif op == "tee":
            if n < 0:
                try:
                    q.tee(n)
                    return "tee(%d) did not raise ValueError" % n, probe.pulls
                except ValueError:
                    continue
            kids = q.tee(n)
            if len(kids) != n:
                return "tee(%d) returned %d queries" % (n, len(kids)), probe.pulls
            if n == 0:
                return None, probe.pulls
            for i, k in enumerate(kids[1:], 1):
                pending.append((k, list(L), "tee child %d" % i))
            q = kids[0]
        else:
            newL, _, err = model_step(L, op, n)
            if err:
                try:
                    getattr(q, op)(n)
                    return "%s(%d) did not raise ValueError" % (op, n), probe.pulls
                except ValueError:
                    continue
            r = getattr(q, op)(n)
            if r is not q:
                return "%s(%d) did not return the query itself" % (op, n), probe.pulls
            L = newL
    # terminal on the main query
    if order_rng is not None and pending and order_rng.random() < 0.5:
        order_rng.shuffle(pending)
        # consume some children before the main terminal
        k = order_rng.randrange(len(pending) + 1)
        early, pending = pending[:k], pending[k:]
        for pq, exp, label in early:
            got = list(pq)
            if len(got) != len(exp) or any(not _same(a, b) for a, b in zip(got, exp)):
                return "%s yields %d matches, expected %d (consumed before the main query)" % (label, len(got), len(exp)), probe.pulls
    if terminal == "iter":
        got = list(q)
        ok = len(got) == len(L) and all(_same(a, b) for a, b in zip(got, L))
    elif terminal == "values":
        got = list(q.values())
        ok = got == [m.obj for m in L]
    elif terminal == "locations":
        got = list(q.locations())
        ok = got == [m.path for m in L]
    elif terminal == "items":
        got = list(q.items())
        ok = got == [(m.path, m.obj) for m in L]
    elif terminal == "pointers":
        got = [str(p) for p in q.pointers()]
        ok = got == [str(m.pointer()) for m in L]
    elif terminal in ("first_one", "one"):
        got = getattr(q, terminal)()
        ok = _same(got, L[0]) if L and got is not None else (got is None and not L)
    else:
        got = q.last_one()
        ok = _same(got, L[-1]) if L and got is not None else (got is None and not L)
    if not ok:
        return "terminal %s produced %r, list model expects %d matches %r" % (terminal, _short(got), len(L), [m.obj for m in L][:8]), probe.pulls
    for pq, exp, label in pending:
        got = list(pq)
        if len(got) != len(exp) or any(not _same(a, b) for a, b in zip(got, exp)):
            return "%s yields %r, expected %r" % (label, [m.obj for m in got][:8], [m.obj for m in exp][:8]), probe.pulls
    return None, probe.pulls


def _same(a, b):
    return a is b or (a is not None and b is not None and a.path == b.path and a.obj is b.obj)


def _short(got):
    try:
        if isinstance(got, list):
            return [getattr(x, "obj", x) for x in got][:8]
        return getattr(got, "obj", got)
    except Exception:  # noqa: BLE001
        return repr(got)[:80]


def canon_small(d):
    import json

    return json.dumps(d, sort_keys=True)


def run_held(ctx, r, rounds):
    """One iterator (the query's own, or that of a values / items / locations view) is taken BEFORE the operations and
    read in between them: skip / drop n called while it is being read remove the next n matches from what it yields."""
    import jsonpath

    for _ in range(rounds):
        n = r.choice([0, 1, 2, 5, 10, 33])
        ms = matches_for(n)
        source = r.choice(["iterator", "generator", "query"])
        q = jsonpath.query("$[*]", [{"id": i} for i in range(n)]) if source == "query" else jsonpath.Query((m for m in ms) if source == "generator" else iter(ms), jsonpath.DEFAULT_ENV)
        view = r.choice(["iter", "values", "items", "locations"])
        held = iter(q) if view == "iter" else iter(getattr(q, view)())
        proj = {"iter": lambda m: (m.path, canon_small(m.obj)), "values": lambda m: canon_small(m.obj), "items": lambda m: (m.path, canon_small(m.obj)), "locations": lambda m: m.path}[view]
        seen = {"iter": lambda x: (x.path, canon_small(x.obj)), "values": canon_small, "items": lambda x: (x[0], canon_small(x[1])), "locations": lambda x: x}[view]
        L, got, want, steps = list(ms), [], [], []
        for _s in range(r.randint(1, 5)):
            k = r.randint(0, 3)
            for _k in range(k):
                x = next(held, _END)
                if x is not _END:
                    got.append(seen(x))
            want += [proj(m) for m in L[:k]]
            L = L[k:]
            op, c = r.choice(["skip", "drop"]), r.choice([0, 1, 1, 2, 3, n])
            getattr(q, op)(c)
            L = L[c:]
            steps.append(["read %d" % k, "%s(%d)" % (op, c)])
        got += [seen(x) for x in held]
        want += [proj(m) for m in L]
        ctx.evaluation()
        ctx.case(h("held", n, view, steps), bool(want))
        ctx.count("iterators_read_in_between_the_operations")
        if got != want:
            ctx.violation("operation-does-not-reach-an-iterator-taken-earlier", {"kind": "held"}, {"matches": n, "source": source, "reading": view, "steps": steps, "read": repr(got)[:300], "list_model": repr(want)[:300]})
            return


_END = object()


def plan(tier, seed):
    specs = []
    maxlen = 2 if tier == "quick" else 3
    # split the enumerated space by (sequence length, first op)
    for n in range(6):
        for first in CHAINABLE:
            specs.append({"kind": "exhaustive", "n": n, "first": first, "maxlen": maxlen})
    specs.append({"kind": "shared-compiled", "count": 1500 if tier == "quick" else 40000})
    specs.append({"kind": "threads", "rounds": 60 if tier == "quick" else 600})
    for _ in range(6 if tier == "quick" else 16):
        specs.append({"kind": "sampled", "count": 4000 if tier == "quick" else 150000})
    return specs


_ENVS = {}


def matches_for(n, falsy=None):
    """n matches; with falsy="bool"/"len", instances of a match_class (the documented hook) whose truth value /
    length follows the matched value, over values most of which are falsy."""
    import jsonpath

    if not falsy:
        return list(jsonpath.finditer("$[*]", [{"id": i} for i in range(n)]))
    if falsy not in _ENVS:
        if falsy == "bool":
            class M(jsonpath.JSONPathMatch):
                def __bool__(self):
                    return bool(self.obj)
        else:
            class M(jsonpath.JSONPathMatch):
                def __len__(self):
                    return len(self.obj) if hasattr(self.obj, "__len__") else int(bool(self.obj))

        class E(jsonpath.JSONPathEnvironment):
            match_class = M
        _ENVS[falsy] = E()
    vals = [0, "", [], {}, None, False, 1, "x", 0.0, [0]]
    return list(_ENVS[falsy].finditer("$[*]", [vals[(i * 7 + 3) % len(vals)] if i % 4 else vals[i % 6] for i in range(n)]))


def run(spec, ctx):
    import jsonpath

    env = jsonpath.DEFAULT_ENV
    r = ctx.rng
    if spec["kind"] == "threads":
        run_held(ctx, r, spec["rounds"] * 5)
        # batches split off with take() (and tee() children) are handed to worker threads that read them while the main
        # thread goes on splitting and reading the original query (yields injected in fluent_api.py / selectors.py): every
        # batch must be exactly its slice of the match list
        import threading

        from rt.threads import stress

        for _round in range(spec["rounds"]):
            n = r.randint(4, 30)
            doc = {"items": [{"id": i, "ok": True} for i in range(n)]}
            want = list(range(n))
            sizes = [r.randint(0, 4) for _ in range(8)]
            q = jsonpath.query(r.choice(["$.items[?@.ok].id", "$.items[*].id", "$..id"]), doc)
            batches, errors = [], []

            def worker(wid, rr):
                # thread 0 plays the producer: it splits batches off; the others read whatever batch they are given
                try:
                    if wid == 0:
                        pos = 0
                        for k in sizes:
                            b = q.take(k)
                            batches.append((b, want[pos:pos + k], "take(%d) at %d" % (k, pos)))
                            pos += k
                        batches.append((q, want[pos:], "the rest"))
                        batches.append(None)
                    else:
                        seen = 0
                        while True:
                            while seen >= len(batches):
                                time.sleep(0)
                            item = batches[seen]
                            if item is None:
                                return
                            seen += 1
                            if seen % 3 == wid % 3:
                                b, exp, label = item
                                got = list(b.values())
                                if got != exp:
                                    errors.append({"batch": label, "got": got, "expected": exp})
                except Exception as e:  # noqa: BLE001
                    errors.append({"thread": wid, "raised": "%s: %s" % (type(e).__name__, e)})

            st = stress(worker, nthreads=4, files=("fluent_api.py", "selectors.py", "path.py"), seed=r.random(), prob=0.2, join_timeout=30)
            ctx.evaluation(len(sizes) + 1)
            ctx.count("batches_read_by_other_threads", len(sizes) + 1)
            ctx.count("yields_injected", st["yields"])
            ctx.cell("thread_interleaving_signatures", st["signature"])
            if st["timed_out"]:
                ctx.count("thread_round_timed_out")
                continue
            for e in errors[:2]:
                ctx.violation("batch-read-in-another-thread-is-not-its-slice", {"kind": "threads"}, e)
            if errors:
                return
        return
    if spec["kind"] == "shared-compiled":
        # queries obtained from ONE compiled filter path (whose filters read `$` and `_`), read a few matches at a time
        # while the same compiled path is evaluated over another document and context in between
        # the views of queries over documents whose member keys are equal-but-different Python objects (1 / 1.0 / True,
        # 0 / 0.0 / False, "1"), one after the other in several orders: each view must describe ITS query's matches
        kdocs = [["x", "y", "z"], {1.0: "f1", 0.0: "f0"}, {True: "bt", False: "bf"}, {1: "i1", 0: "i0"}, {"1": "s1", "0": "s0"}, {"a": ["p", "q"]}, {"a": {1.0: "n"}}, {"a": {True: "m"}}]
        for order in (list(range(len(kdocs))), list(reversed(range(len(kdocs)))), [1, 0, 3, 2, 4, 6, 5, 7]):
            for i in order:
                for text in ("$.*", "$..*"):
                    ctx.evaluation()
                    o = impl.call(lambda: (list(jsonpath.finditer(text, kdocs[i])), list(jsonpath.query(text, kdocs[i]).skip(0).pointers()), list(jsonpath.query(text, kdocs[i]).locations()), list(jsonpath.query(text, kdocs[i]).items())))
                    if not o.ok:
                        continue   # keys that are not strings are outside JSON; only what is answered is judged
                    ms, ptrs, locs, items = o.value
                    bad = len(ptrs) != len(ms) or any(str(a) != str(m.pointer()) or a != m.pointer() for a, m in zip(ptrs, ms)) or locs != [m.path for m in ms] or [p_ for p_, _v in items] != [m.path for m in ms]
                    ctx.count("views_over_equal_but_different_keys")
                    if bad:
                        ctx.violation("view-lists-another-query's-matches", {"kind": "key-twins"}, {"document": repr(kdocs[i]), "query": text, "pointers": [str(x) for x in ptrs], "expected": [str(m.pointer()) for m in ms]})
                        return
        # long sequences (lengths around powers of two, where a buffer, a block or a batch may end): every operation with counts
        # on either side of the length and of the power of two, alone and after a skip, read through values / pointers
        for L_ in (255, 256, 257, 1023, 1024, 1025, 1030, 2049, 4097, 65537):
            doc_ = list(range(L_))
            ms_ = list(jsonpath.finditer("$[*]", doc_))
            p2 = 1 << (L_.bit_length() - 1)
            for op_ in ("tee", "take", "limit", "skip", "tail", "head", "drop", "last"):
                for c_ in ((1, 2, 3) if op_ == "tee" else (p2 - 1, p2, p2 + 1, L_ - 1, L_, L_ + 1)):
                    for chain_ in ([(op_, c_)], [("skip", 1), (op_, c_)], [(op_, c_), ("skip", p2 - 1)]):
                        if L_ > 5000 and (op_ not in ("tee", "take", "tail") or len(chain_) > 1 and chain_[0][0] == "skip"):
                            continue
                        ctx.evaluation()
                        diff = run_chain(ms_, chain_, "values" if L_ > 5000 else r.choice(["values", "locations", "iter"]), env)
                        ctx.count("chains_over_long_sequences")
                        if diff and diff[0]:
                            ctx.violation("chain-differs-from-list-model:long-sequence:%s" % op_, {"kind": "key-twins"}, {"sequence_length": L_, "chain": [list(x) for x in chain_], "diff": diff[0][:300]})
                            return
            ctx.cell("long_sequences", "length=%d" % L_)
        # counts far beyond any sequence (2^31, 2^53, the platform's largest index) and counts beyond an environment's own
        # narrowed index range: "more than there is" means everything, as with list slicing
        import sys as _sys

        narrow = type("NarrowEnv", (jsonpath.JSONPathEnvironment,), {"max_int_index": 100, "min_int_index": -100})()
        for e_, counts_ in ((env, (2 ** 31 - 1, 2 ** 31, 2 ** 53 - 1, 2 ** 53, 2 ** 53 + 1, _sys.maxsize)), (narrow, (99, 100, 101, 1000, 2 ** 53, _sys.maxsize))):
            for n_ in (0, 1, 5):
                for op_ in ("limit", "head", "first", "skip", "drop", "tail", "last", "take"):
                    for c_ in counts_:
                        for chain_ in ([(op_, c_)], [(op_, c_), ("limit", 3)], [("skip", 1), (op_, c_)]):
                            ctx.evaluation()
                            diff = run_chain(matches_for(n_), chain_, "values", e_)
                            ctx.count("chains_with_counts_far_beyond_the_sequence")
                            if diff and diff[0]:
                                ctx.violation("chain-differs-from-list-model:count-far-beyond-the-sequence:%s" % op_, {"kind": "key-twins"}, {"environment": "default" if e_ is env else "max_int_index=100", "sequence_length": n_, "chain": [list(x) for x in chain_], "diff": diff[0]})
                                return
        # the views over documents whose member names come from the hostile pool (backslashes, text that looks like an escape,
        # leading blanks, digits beyond the index limit, '~' and '/'): each view entry must be the location of ITS match -
        # the pointer by its tokens, compared with the match's own parts, not only by how it prints
        from rt import gen as _gen
        from rt import ref_pointer as _rp

        pool = list(_gen.ALL_NAMES) + ["C:\\temp\\new.txt", "C:\\users", "tab\\t", "a\\/b", " lead", "\tlead", "\u00a0lead", "9" * 20, "-1", "+1", "01"]
        for start in range(0, len(pool), 6):
            names = pool[start:start + 6]
            hdoc = {"files": {nm: {"v": i, nm: [i]} for i, nm in enumerate(names)}, "list": [{nm: 1} for nm in names]}
            for text in ("$.files.*", "$..*", "$.list[*].*", "$.files.*.*"):
                for chain in ((), (("skip", 1),), (("limit", 3),), (("tail", 2),)):
                    ctx.evaluation()

                    def build():
                        q = jsonpath.query(text, hdoc)
                        for op_, n_ in chain:
                            q = getattr(q, op_)(n_)
                        return q
                    ms = list(jsonpath.finditer(text, hdoc))
                    for op_, n_ in chain:
                        ms = ms[n_:] if op_ == "skip" else (ms[:n_] if op_ == "limit" else ms[-n_:])
                    o = impl.call(lambda: list(build().pointers()))
                    ctx.count("pointer_views_over_hostile_names")
                    want = [[str(p_) for p_ in m.parts] for m in ms]
                    got = [[str(p_) for p_ in x.parts] for x in o.value] if o.ok else None
                    if got != want or any(str(x) != _rp.encode(w) for x, w in zip(o.value, want)):
                        i_ = next((k for k, (a, b) in enumerate(zip(got or [], want)) if a != b), 0)
                        ctx.violation("pointers-view-does-not-list-the-matches'-own-locations", {"kind": "key-twins"}, {"query": text, "chain": [list(c) for c in chain], "outcome": o.desc() if not o.ok else None, "first_difference": {"got": got[i_] if got and i_ < len(got) else None, "want": want[i_] if i_ < len(want) else None}})
                        return
        paths = [jsonpath.compile(t) for t in ("$.items[?@.price <= $.budget]", "$.items[?@.price <= _.budget].price", "$..[?@.price > $.floor && @.price <= _.budget]", "$.items[?@.price <= $.budget] | $.items[?@.price > $.budget]")]
        for _ in range(spec["count"]):
            cp = r.choice(paths)
            n = r.randint(0, 12)
            doc_a = {"budget": r.choice([3, 10, 50]), "floor": r.choice([0, 2]), "items": [{"price": r.randint(1, 60), "id": i} for i in range(n)]}
            doc_b = {"budget": r.choice([0, 100]), "floor": 1, "items": [{"price": r.randint(1, 60), "id": 100 + i} for i in range(r.randint(1, 8))]}
            ctx_a, ctx_b = {"budget": r.choice([5, 30])}, {"budget": r.choice([0, 1000])}
            wo = impl.call(lambda: list(jsonpath.compile(str(cp)).finditer(doc_a, filter_context=ctx_a)))
            if not wo.ok:
                ctx.violation("evaluation-raised:%s" % type(wo.exc).__name__, {"kind": "shared-compiled", "path": str(cp), "doc_a": doc_a, "doc_b": doc_b, "ctx_a": ctx_a, "ctx_b": ctx_b, "chain": [], "terminal": "iter"}, {"error": wo.desc()})
                return
            want = wo.value
            chain = [(r.choice(CHAINABLE), r.choice([-1, 0, 1, 2, 3, len(want) - 1, len(want), len(want) + 1])) for _i in range(r.randint(1, 6))]
            chain = [(op, (r.choice([0, 1, 2]) if op == "tee" else max(c, -1))) for op, c in chain]
            term = r.choice(TERMINALS)
            diff, _p = run_chain(want, chain, term, env, order_rng=r, query=cp.query(doc_a, filter_context=ctx_a), between=lambda: list(cp.finditer(doc_b, filter_context=ctx_b)))
            ctx.evaluation()
            ctx.case(h("shared", str(cp), canon_small(doc_a), chain, term))
            if diff:
                ctx.violation("chain-differs-from-list-model:query-from-a-compiled-path-evaluated-elsewhere-in-between", {"kind": "shared-compiled", "path": str(cp), "doc_a": doc_a, "doc_b": doc_b, "ctx_a": ctx_a, "ctx_b": ctx_b, "chain": [list(x) for x in chain], "terminal": term}, {"path": str(cp), "chain": [list(x) for x in chain], "terminal": term, "diff": diff})
                return
        ctx.count("chains_on_queries_from_a_shared_compiled_path", spec["count"])
        return
    if spec["kind"] == "exhaustive":
        n = spec["n"]
        ms = matches_for(n)
        cs = counts_for(n)
        steps = [(op, c) for op in CHAINABLE for c in cs]
        total = 0
        pulls = 0
        for length in range(1, spec["maxlen"] + 1):
            firsts = [(spec["first"], c) for c in cs]
            for chain in itertools.product(firsts, *([steps] * (length - 1))):
                for term in TERMINALS:
                    diff, p = run_chain(ms, chain, term, env)
                    pulls += p
                    total += 1
                    if not diff and length <= 2:
                        for fk in ("bool", "len"):
                            fms = matches_for(n, fk)
                            diff, p = run_chain(fms, chain, term, _ENVS[fk])
                            total += 1
                            if diff:
                                diff = "with a match class whose instances can be falsy (%s): %s" % (fk, diff)
                                break
                    if not diff and length <= 2:
                        for src in ("hint+0", "hint+3", "hint-2", "hint+1000"):
                            diff, p = run_chain(ms, chain, term, env, source=src)
                            total += 1
                            if diff:
                                diff = "with a source whose length hint is %s: %s" % (src[4:], diff)
                                break
                    if not diff and length == 1:
                        # the same chain after pulling 1 match by plain iteration from a generator source
                        diff, p = run_chain(ms, (("pull", 1),) + tuple(chain), term, env, source="generator")
                        total += 1
                    if diff:
                        ctx.violation("chain-differs-from-list-model:%s" % "+".join(sorted({op for op, _ in chain})), {"n": n, "chain": [list(x) for x in chain], "terminal": term}, {"n": n, "chain": [list(x) for x in chain], "terminal": term, "diff": diff})
        if spec["first"] == CHAINABLE[0]:
            for term in TERMINALS:  # the empty chain
                diff, p = run_chain(ms, (), term, env)
                total += 1
                if diff:
                    ctx.violation("terminal-differs-from-list-model", {"n": n, "chain": [], "terminal": term}, {"diff": diff})
        ctx.evaluation(total)
        ctx.bulk(total)
        ctx.count("exhaustive_chains", total)
        ctx.count("H8_source_pulls", pulls)
        ctx.cell("exhaustive_blocks", "len=%d first=%s maxchain=%d" % (n, spec["first"], spec["maxlen"]), total)
        if n == 3 and spec["first"] == "take":
            ctx.sample({"sequence_length": n, "chain": [["take", 2], ["limit", 1]], "terminal": "values", "kind": "enumerated"})
    else:
        for _ in range(spec["count"]):
            n = r.randint(0, 40)
            ms = matches_for(n) if n > 5 else matches_for(n)
            chain = []
            for _i in range(r.randint(4, 12)):
                op = r.choice(CHAINABLE)
                c = r.choice([-1, 0, 1, 2, 3, n // 2, n - 1, n, n + 1, n + 3])
                if op == "tee":
                    c = r.choice([-1, 0, 1, 2, 3])
                if r.random() < 0.12:
                    op, c = "pull", r.choice([0, 1, 2, n // 2])
                chain.append((op, max(c, -1)))
            term = r.choice(TERMINALS)
            if r.random() < 0.1:
                # the same chain on a Query obtained from the public entry points
                data = [{"id": i} for i in range(n)]
                q0 = r.choice([lambda: jsonpath.query("$[*]", data), lambda: env.query("$[*]", data), lambda: jsonpath.compile("$[*]").query(data)])()
                ms = list(q0)
                ctx.count("chains_on_entry_point_queries")
            if r.random() < 0.15:
                fk = r.choice(["bool", "len"])
                ms = matches_for(n, fk)
                ctx.count("chains_on_falsy_match_objects")
            diff, p = run_chain(ms, chain, term, env, order_rng=r, source=r.choice(["iterator", "generator", "generator", "hint+0", "hint+2", "hint-1", "hint+50"]))
            ctx.evaluation()
            ctx.case(h(n, chain, term))
            ctx.count("H8_source_pulls", p)
            if diff:
                ctx.violation("chain-differs-from-list-model:%s" % "+".join(sorted({op for op, _ in chain})), {"n": n, "chain": [list(x) for x in chain], "terminal": term}, {"n": n, "chain": [list(x) for x in chain], "terminal": term, "diff": diff})
            elif len(ctx.samples) < 3:
                ctx.sample({"sequence_length": n, "chain": [list(x) for x in chain], "terminal": term, "kind": "sampled"})


def finalize(m, tier):
    inc = []
    blocks = m["matrices"].get("exhaustive_blocks", {})
    if len(blocks) != 6 * len(CHAINABLE):
        inc.append("enumeration incomplete: %d of %d blocks" % (len(blocks), 6 * len(CHAINABLE)))
    return {"inconclusive": inc, "coverage": {"exhaustive_subspaces": ["all chains up to length %d over 9 ops x 7 counts x lengths 0..5 x 8 terminals: %d chains" % (2 if tier == "quick" else 3, m["counters"].get("exhaustive_chains", 0))]}}


def replay(case, ctx):
    import random

    import jsonpath

    if case.get("kind") == "threads":
        run({"kind": "threads", "rounds": 200}, ctx)
        return
    if case.get("kind") == "held":
        run_held(ctx, ctx.rng, 2000)
        return
    if case.get("kind") == "key-twins":
        run({"kind": "shared-compiled", "count": 0}, ctx)
        return
    if case.get("kind") == "shared-compiled":
        cp = jsonpath.compile(case["path"])
        want = list(jsonpath.compile(case["path"]).finditer(case["doc_a"], filter_context=case["ctx_a"]))
        ctx.evaluation()
        diff, _ = run_chain(want, [tuple(x) for x in case["chain"]], case["terminal"], jsonpath.DEFAULT_ENV, query=cp.query(case["doc_a"], filter_context=case["ctx_a"]),
                            between=lambda: list(cp.finditer(case["doc_b"], filter_context=case["ctx_b"])))
        if diff:
            ctx.violation("chain-differs-from-list-model:replay", case, {"diff": diff})
        return

    ctx.evaluation()
    for seed in range(18):
        ms = matches_for(case["n"], [None, "bool", "len"][seed // 6])
        seed %= 6
        diff, _ = run_chain(ms, [tuple(x) for x in case["chain"]], case["terminal"], jsonpath.DEFAULT_ENV, order_rng=random.Random(seed) if seed else None, source=["iterator", "generator", "hint+3", "hint-2", "hint+0", "hint+1000"][seed])
        if diff:
            ctx.violation("chain-differs-from-list-model:replay", case, {"diff": diff})
            return
