"""C15 - a patch is a faithful, reusable value: document, builder and dict forms agree.

Oracle: rt.ref_pointer.apply_patch extended with addne/addap; contracts (icontract
snapshot/ensure when available, otherwise the same conditions by hand) on
JSONPatch.apply: asdicts() deep snapshot before == after, caller's operation list deep
snapshot before == after; an alias detector over {result1, result2, result3, patch
values, caller's values}.
"""
from __future__ import annotations

import collections
import copy
import io
import json
import pickle
import types

from rt import impl, ref_pointer as rp
from rt.foundry import ForeignFailed, foreign
from rt.jsonval import aliased_containers, canon, containers, h, nodes, strict_eq

from .c05 import DOCS, VALUES, paths_for, test_values

ID = "C15"
LEVEL = "exploration"
RULE = (
    "operation lists of length 1-6 over all eight operation names (add, remove, replace, move, copy, test, addne, addap), built from the "
    "list-of-dicts form, from JSON text / a file of the same, by the equivalent builder chain, and from the patch's own asdicts(); values that "
    "are containers later modified by a subsequent operation of the same patch (directed class); each patch applied three times to deep-equal "
    "fresh documents. A case is (document, operation list); non-trivial when the patch applies successfully; distinct by hash."
)
ASSUMPTIONS = ["addne = add unless the target is an existing object member; addap = add, but append when the array index cannot be resolved (documented meanings)"]

CONTRACT = {"evaluations": 0, "violations": []}


class PatchMutated(Exception):
    pass


def install_contracts():
    """H6: JSONPatch.apply must not change the patch (asdicts snapshot)."""
    import jsonpath

    if getattr(jsonpath.JSONPatch.apply, "_verif", False):
        return
    orig = jsonpath.JSONPatch.apply
    CONTRACT["orig"] = orig

    def snap(self):
        return canon(self.asdicts())

    def unchanged(self, OLD):
        CONTRACT["evaluations"] += 1
        if canon(self.asdicts()) != OLD.before:
            CONTRACT["violations"].append("asdicts() changed across apply: %s -> %s" % (OLD.before[:200], canon(self.asdicts())[:200]))
        return True

    try:
        import icontract

        wrapped = icontract.snapshot(snap, name="before", enabled=True)(icontract.ensure(unchanged, error=PatchMutated, enabled=True)(orig))
        CONTRACT["engine"] = "icontract"
    except Exception:  # noqa: BLE001
        def wrapped(self, data):
            before = canon(self.asdicts())
            try:
                return orig(self, data)
            finally:
                CONTRACT["evaluations"] += 1
                if canon(self.asdicts()) != before:
                    CONTRACT["violations"].append("asdicts() changed across apply")
        CONTRACT["engine"] = "hand-written"
    wrapped._verif = True
    jsonpath.JSONPatch.apply = wrapped


def run_big_texts(ctx):
    """The same patch (document, builder and dict form) applied again and again to ONE JSON text document - the same str
    object, and an equal one built separately - of 100 characters to over a megabyte (sizes on either side of 4 KiB,
    64 KiB, 1 MiB): a text is immutable, so every application starts from the document the text spells, and results
    are equal, independent of each other and of the patch."""
    import jsonpath

    ops = [{"op": "add", "path": "/log/-", "value": {"seen": []}}, {"op": "addap", "path": "/log/99", "value": "appended"}, {"op": "addne", "path": "/meta", "value": {"n": 1}}, {"op": "copy", "from": "/rows/0", "path": "/first"}, {"op": "remove", "path": "/rows/0"},
           {"op": "add", "path": "/log/0/seen/-", "value": "x"}, {"op": "test", "path": "/rows/0/id", "value": 1}]
    for n_rows in (2, 55, 56, 880, 886, 887, 895, 14180, 14200):
        doc = {"log": [], "rows": [{"id": i, "pad": "p" * 50} for i in range(n_rows)]}
        text = json.dumps(doc)
        twin_text = json.dumps(copy.deepcopy(doc))
        want = rp.apply_patch(copy.deepcopy(doc), copy.deepcopy(ops))
        forms = {"document form": jsonpath.JSONPatch(json.dumps(ops)), "dict form": jsonpath.JSONPatch(copy.deepcopy(ops)), "builder": build_chain(copy.deepcopy(ops), jsonpath)}
        results = []
        for rep in range(3):
            for fname, patch in forms.items():
                for t in (text, twin_text, io.StringIO(text)):
                    o = impl.call(patch.apply, t)
                    ctx.evaluation()
                    ctx.count("applications_to_one_json_text_document")
                    if not o.ok or not strict_eq(o.value, want):
                        got = o.desc() if not o.ok else "log has %d entries (model %d), rows %d (model %d), first=%s" % (len(o.value.get("log", [])), len(want["log"]), len(o.value.get("rows", [])), len(want["rows"]), canon(o.value.get("first"))[:60])
                        ctx.violation("repeated-application-to-one-json-text-document-differs-from-the-first", {"kind": "big-texts"}, {"text_length": len(text), "form": fname, "application": rep + 1, "got": got})
                        return
                    if any(o.value is r_ for r_ in results):
                        ctx.violation("applications-to-a-json-text-document-return-one-and-the-same-object", {"kind": "big-texts"}, {"text_length": len(text), "form": fname})
                        return
                    results.append(o.value)
            o2 = impl.call(jsonpath.patch.apply, copy.deepcopy(ops), text)
            if not o2.ok or not strict_eq(o2.value, want):
                ctx.violation("repeated-application-to-one-json-text-document-differs-from-the-first", {"kind": "big-texts"}, {"text_length": len(text), "form": "patch.apply()", "application": rep + 1})
                return
        results[0]["log"].append("scribbled by the caller")
        if not strict_eq(results[-1], want):
            ctx.violation("results-for-a-json-text-document-share-state", {"kind": "big-texts"}, {"text_length": len(text)})
            return
        ctx.cell("json_text_document_sizes", "%d characters" % len(text))
        ctx.case(h("big-texts", n_rows), True)


def plan(tier, seed):
    n = 14 if tier == "quick" else 46
    return [{"kind": "flags"}, {"kind": "deep-values"}, {"kind": "big-texts"}] + [{"kind": "threads", "rounds": 25 if tier == "quick" else 150} for _ in range(2 if tier == "quick" else 6)] + [{"n": 3000 if tier == "quick" else 30000} for _ in range(n)]


def build_chain(ops, jsonpath, pointer_objects=False):
    p = jsonpath.JSONPatch()
    if pointer_objects:
        ops = [dict(op) for op in ops]
        for op in ops:
            for k in ("path", "from"):
                if k in op:
                    op[k] = jsonpath.JSONPointer.from_parts(rp.decode(op[k]), unicode_escape=False)
    for op in ops:
        name = op["op"]
        if name in ("add", "addne", "addap", "replace", "test"):
            getattr(p, name)(op["path"], op["value"])
        elif name == "remove":
            p.remove(op["path"])
        else:
            getattr(p, name)(op["from"], op["path"])
    return p


def gen_ops(r, doc):
    cur = copy.deepcopy(doc)
    ops = []
    directed = r.random() < 0.4
    for i in range(r.randint(1, 6)):
        ps = paths_for(cur)
        name = r.choice(["add", "addne", "addap", "remove", "replace", "move", "copy", "test", "add", "addne", "addap"])
        p = r.choice(ps)
        existing = [rp.tokens_of(loc) for loc, _ in nodes(cur)]
        if r.random() < 0.75:
            if name in ("add", "addne", "addap", "move", "copy"):
                base = r.choice([rp.tokens_of(loc) for loc, v in nodes(cur) if isinstance(v, (list, dict))] or [[]])
                try:
                    v = rp.resolve(cur, base)
                    if isinstance(v, list):
                        p = base + [r.choice(["-", str(len(v)), "0", str(len(v) + 2) if name == "addap" else "0"])]
                    elif isinstance(v, dict):
                        p = base + [r.choice(list(v) + ["new", "n2", "1"])]
                except rp.Unresolvable:
                    pass
            else:
                p = r.choice(existing)
        op = {"op": name, "path": rp.encode(p)}
        if name in ("add", "addne", "addap", "replace"):
            if directed and i == 0:
                op["value"] = r.choice([{"inner": []}, [[]], {"a": {"b": []}}, []])
                op["_container_path"] = p
            else:
                op["value"] = copy.deepcopy(r.choice(VALUES + [{"new": [i]}, [i, {"k": i}]]))
        elif name == "test":
            op["value"] = r.choice(test_values(cur, p))
        elif name in ("move", "copy"):
            op["from"] = rp.encode(r.choice(existing) if r.random() < 0.8 else r.choice(ps))
        if directed and i > 0 and ops and "_container_path" in ops[0] and r.random() < 0.7:
            # a later operation modifies the container the first operation inserted
            base = [t for t in ops[0]["_container_path"]]
            if base and base[-1] == "-":
                try:
                    par = rp.resolve(cur, base[:-1])
                    if isinstance(par, list) and par:
                        base = base[:-1] + [str(len(par) - 1)]
                except rp.Unresolvable:
                    pass
            try:
                v = rp.resolve(cur, base)
                sub = [k for k, _ in (v.items() if isinstance(v, dict) else enumerate(v))] if isinstance(v, (dict, list)) else []
                tgt = base + ([str(r.choice(sub))] if sub and r.random() < 0.5 else (["-"] if isinstance(v, list) else ["added"]))
                op = {"op": r.choice(["add", "addap", "addne"]), "path": rp.encode(tgt), "value": r.choice([1, "x", [2]])}
            except rp.Unresolvable:
                pass
        ops.append(op)
        try:
            cur = rp.apply_op(cur, {k: copy.deepcopy(v) for k, v in op.items() if not k.startswith("_")})
        except (rp.PatchFail, rp.Unspecified):
            break
    for op in ops:
        op.pop("_container_path", None)
    if r.random() < 0.12:
        # two operations carry the SAME value object, and a later operation writes into what the first one inserted
        shared = r.choice([[], {}, [[]], {"k": []}])
        ops = [{"op": r.choice(["add", "addne", "addap"]), "path": "/sh1", "value": shared}, {"op": r.choice(["add", "replace", "addne"]), "path": "/sh2" if r.random() < 0.7 else "/sh1", "value": shared},
               {"op": "add", "path": "/sh1/-" if isinstance(shared, list) else "/sh1/new", "value": "written-into-the-first"}] + ops[:2]
        directed = True
    return ops, directed


def outcome(o, jsonpath):
    if o.ok:
        return ("ok", canon(o.value))
    return ("raise", "JSONPatchError" if isinstance(o.exc, jsonpath.JSONPatchError) else type(o.exc).__name__)


def check(ctx, doc, ops, directed):
    import jsonpath

    ctx.evaluation()
    case = {"doc": doc, "ops": ops}
    caller = copy.deepcopy(ops)
    caller_snap = canon(caller)
    CONTRACT["violations"].clear()
    forms = {}
    f1 = impl.call(jsonpath.JSONPatch, caller)
    if not f1.ok:
        ctx.violation("patch-construction-raised:%s" % type(f1.exc).__name__, case, {"ops": ops, "error": f1.desc()})
        return
    forms["dicts"] = f1.value
    text = json.dumps(ops)
    for name, fn in (("text", lambda: jsonpath.JSONPatch(text)), ("file", lambda: jsonpath.JSONPatch(io.StringIO(text))), ("builder", lambda: build_chain(copy.deepcopy(ops), jsonpath)), ("builder-with-pointer-objects", lambda: build_chain(copy.deepcopy(ops), jsonpath, pointer_objects=True)),
                     ("asdicts", lambda: jsonpath.JSONPatch(copy.deepcopy(f1.value.asdicts()))), ("deepcopy", lambda: copy.deepcopy(f1.value)), ("pickle", lambda: pickle.loads(pickle.dumps(f1.value))),
                     ("tuple", lambda: jsonpath.JSONPatch(tuple(copy.deepcopy(ops)))), ("generator", lambda: jsonpath.JSONPatch(o_ for o_ in copy.deepcopy(ops))), ("iter", lambda: jsonpath.JSONPatch(iter(copy.deepcopy(ops)))),
                     ("map", lambda: jsonpath.JSONPatch(map(dict, copy.deepcopy(ops)))), ("mappingproxy-elements", lambda: jsonpath.JSONPatch([types.MappingProxyType(o_) for o_ in copy.deepcopy(ops)])),
                     ("another-interpreter", lambda: foreign("patch", copy.deepcopy(ops)))) + tuple(
                         # the JSON document form read from a binary file in a Unicode encoding (json recognises utf-8/16/32
                         # from the bytes; Windows tools write a byte-order mark) and from a text file
                         ("binary file %s%s" % (enc, " raw" if raw_ else ""), (lambda enc=enc, raw_=raw_: jsonpath.JSONPatch(io.BytesIO(json.dumps(ops, ensure_ascii=not raw_).encode(enc, "surrogatepass")))))
                         for enc in ("utf-8", "utf-8-sig", "utf-16", "utf-16-le", "utf-16-be", "utf-32", "utf-32-be") for raw_ in (False, True)):
        if name == "another-interpreter" and ctx.rng.random() > 0.1:
            continue
        if name.startswith("binary file") and ctx.rng.random() > 0.15:
            continue
        o = impl.call(fn)
        if not o.ok and isinstance(o.exc, ForeignFailed):
            ctx.count("other_interpreter_could_not_deliver")
            continue
        ctx.cell("forms", name)
        if not o.ok:
            ctx.violation("patch-construction-raised:%s:%s" % (name, type(o.exc).__name__), case, {"ops": ops, "form": name, "error": o.desc()})
            return
        forms[name] = o.value
    want_dicts = canon(ops)
    for name, p in forms.items():
        d = impl.call(p.asdicts)
        if not d.ok or not strict_eq(d.value, ops):
            ctx.violation("asdicts-differs-from-given-operations:%s" % name, case, {"form": name, "asdicts": canon(d.value)[:300] if d.ok else d.desc(), "given": want_dicts[:300]})
            return
    # effects: model
    try:
        want = ("ok", canon(rp.apply_patch(doc, ops)))
    except rp.PatchFail:
        want = ("raise", "JSONPatchError")
    except rp.Unspecified:
        ctx.count("unspecified_skipped")
        return
    ctx.case(h(canon(doc), canon(ops)), want[0] == "ok")
    results = []
    for name, p in forms.items():
        got = outcome(impl.call(p.apply, copy.deepcopy(doc)), jsonpath)
        if got != want:
            ctx.violation("effect-differs-from-model:%s:%s" % (name, "+".join(sorted({o["op"] for o in ops} & {"addne", "addap"})) or "standard"), case, {"form": name, "ops": ops, "doc": canon(doc)[:200], "got": repr(got)[:300], "model": repr(want)[:300]})
            return
    # repeated application of the same patch object to equal documents
    p = forms["dicts"]
    outs = []
    for k in range(3):
        o = impl.call(p.apply, copy.deepcopy(doc))
        outs.append(o)
        got = outcome(o, jsonpath)
        if got != want:
            ctx.violation("repeated-application-differs:%d" % (k + 1), case, {"ops": ops, "application": k + 1, "got": repr(got)[:300], "model": repr(want)[:300]})
            return
    if want[0] == "ok":
        vals = [o.value for o in outs]
        if aliased_containers(*vals):
            ctx.violation("results-of-repeated-application-share-structure", case, {"ops": ops})
            return
        patch_vals = [op.value for op in p.ops if hasattr(op, "value")]
        ids = {id(c) for v in patch_vals for _, c in containers(v)} | {id(c) for op in caller for _, c in containers(op.get("value"))}
        if any(id(c) in ids for v in vals for _, c in containers(v)):
            ctx.violation("result-shares-structure-with-patch-values", case, {"ops": ops})
            return
        if directed:
            ctx.count("applies_with_container_value_later_mutated", 3)
    if canon(caller) != caller_snap:
        ctx.violation("caller-operation-list-modified", case, {"before": caller_snap[:300], "after": canon(caller)[:300]})
        return
    if not strict_eq(p.asdicts(), ops):
        ctx.violation("patch-modified-by-apply", case, {"before": want_dicts[:300], "after": canon(p.asdicts())[:300]})
        return
    if CONTRACT["violations"]:
        ctx.violation("H6-contract:patch-modified-by-apply", case, {"contract": list(CONTRACT["violations"])})
        return
    for o in ops:
        ctx.cell("ops_seen", o["op"])
    if len(ctx.samples) < 3 or ctx.rng.random() < 0.001:
        ctx.sample({"doc": canon(doc)[:100], "ops": ops, "outcome": want[0]})


def tagged(v, tag, n=None):
    """A deep copy of v whose string leaves carry `tag`, so that every document of a concurrent run holds values no
    other document has: a value that turns up in the wrong document names where it came from."""
    if isinstance(v, dict):
        return {k: tagged(x, tag) for k, x in v.items()}
    if isinstance(v, list):
        return [tagged(x, tag) for x in v]
    if isinstance(v, str) or (isinstance(v, (int, float)) and not isinstance(v, bool)):
        return "%s@%s" % (v, tag)
    return v


def _walk_ids(v):
    """ids of every container reachable from v, and a size signature - without recursion (values here are nested deeper
    than copy.deepcopy or json can follow)."""
    ids, leaves, total = set(), 0, 0
    stack = [v]
    while stack:
        x = stack.pop()
        if isinstance(x, (dict, collections.UserDict)):
            if id(x) in ids:
                continue
            ids.add(id(x))
            total += len(x)
            stack.extend(x.values())
        elif isinstance(x, (list, collections.UserList, collections.deque)):
            if id(x) in ids:
                continue
            ids.add(id(x))
            total += len(x)
            stack.extend(x)
        elif isinstance(x, tuple):
            total += len(x)   # (immutable itself, so not an id that matters; its members may be mutable)
            stack.extend(x)
        else:
            leaves += 1
    return ids, (len(ids), leaves, total)


def _plain(v):
    if isinstance(v, (dict, collections.UserDict)):
        return {k: _plain(x) for k, x in v.items()}
    if isinstance(v, (list, tuple, collections.UserList, collections.deque)):
        return [_plain(x) for x in v]
    return v


def run_tuple_values(ctx):
    """Operation values that are (or hold) tuples with mutable members - arrays as far as the library is concerned.  The
    list-of-dicts and builder forms, applied twice, a later operation writing into a member: against the model run on
    the same operations with lists for tuples; patch, caller's list and results must stay independent."""
    import jsonpath

    r = ctx.rng
    UL, UD, DQ = collections.UserList, collections.UserDict, collections.deque
    vals = [({"id": 1, "tags": []}, {"id": 2}), ([], [1]), {"t": ([], {"k": []})}, [("a", [1])], ((), ([],)), ({"deep": ({"x": []},)},),
            # mutable arrays and objects of other types than list / dict (the operations treat any MutableSequence / MutableMapping
            # as an array / object): UserList, UserDict, deque - as the value itself and inside it
            UL([1, 2]), UD({"tags": UL([])}), DQ([[], 1]), {"u": UL([{"k": UL()}])}, [UD({"inner": []})], UL([UD({"a": DQ()})]), {"rows": DQ([UD()])}]
    for v in vals:
        for opname in ("add", "replace", "addne", "addap"):
            first = {"op": opname, "path": "/rows" if opname != "replace" else "/old", "value": v}
            pv = _plain(v)
            # a path to some mutable member inside the value
            sub = None
            stack = [("", v)]
            while stack and sub is None:
                pth, x = stack.pop()
                if isinstance(x, (list, collections.UserList, collections.deque)) and (pth or not isinstance(x, list)):      # (a tuple itself cannot be written into; its list / dict members can)
                    sub = pth + "/-"
                elif isinstance(x, (dict, collections.UserDict)) and (pth or not isinstance(x, dict)):
                    sub = pth + "/added"
                if isinstance(x, (dict, collections.UserDict)):
                    stack.extend((pth + "/" + k, y) for k, y in x.items())
                elif isinstance(x, (list, tuple, collections.UserList, collections.deque)):
                    stack.extend((pth + "/%d" % i, y) for i, y in enumerate(x))
            base = first["path"]
            ops = [first] + ([{"op": "add", "path": base + sub, "value": "seen"}] if sub else []) + [{"op": "test", "path": "/x", "value": 1}]
            doc = {"x": 1, "old": 0}
            try:
                want = canon(rp.apply_patch(copy.deepcopy(doc), _plain(ops)))
            except (rp.PatchFail, rp.Unspecified):
                continue
            for form in ("dicts", "builder"):
                ctx.evaluation()
                caller = copy.deepcopy(ops)
                caller_before = canon(_plain(caller))
                patch = jsonpath.JSONPatch(caller) if form == "dicts" else build_chain(caller, jsonpath)
                asd_before = canon(_plain(patch.asdicts()))
                results = []
                case = {"kind": "tuple-values"}
                for k in range(3):
                    o = impl.call(CONTRACT["orig"] if "orig" in CONTRACT else type(patch).apply, patch, copy.deepcopy(doc))
                    if not o.ok or canon(_plain(o.value)) != want:
                        ctx.violation("repeated-application-differs:%d:tuple-values" % (k + 1), case, {"form": form, "ops": repr(ops)[:300], "application": k + 1, "got": o.desc() if not o.ok else canon(_plain(o.value))[:300], "model": want[:300]})
                        return
                    results.append(o.value)
                ctx.count("tuple_value_applications", 3)
                if canon(_plain(caller)) != caller_before or canon(_plain(patch.asdicts())) != asd_before:
                    ctx.violation("patch-or-caller-value-modified-by-apply:tuple-values", case, {"form": form, "ops": repr(ops)[:300]})
                    return
                own = _walk_ids([op.get("value") for op in caller])[0] | _walk_ids([getattr(op, "value", None) for op in patch.ops])[0]
                rids = [_walk_ids(x)[0] for x in results]
                if any(ri & own for ri in rids) or any(rids[i] & rids[j] for i in range(3) for j in range(i)):
                    ctx.violation("results-share-structure:tuple-values", case, {"form": form, "ops": repr(ops)[:300]})
                    return


def run_deep_values(ctx):
    """Operation values nested far deeper than copy.deepcopy can follow.  Whether such a patch applies is not judged
    (the interpreter's recursion limit is not the library's to lift); what is judged is what the statement says about
    any patch: applying it never changes it, and results share nothing with it or with each other."""
    import jsonpath

    def nest(depth, shape):
        # empty containers at the bottom and next to the spine every 50 levels (a copier may treat "empty" as "nothing to copy")
        v = ["bottom", [], {}]
        for i in range(depth):
            if shape == "arrays" or (shape == "mixed" and i % 2):
                v = [v, []] if i % 50 == 49 else [v]
            else:
                v = {"k": v, "e": {}} if i % 50 == 49 else {"k": v}
        return {"spine": v, "empty_list": [], "empty_object": {}, "list_of_empties": [[], {}]} if shape != "arrays" else [v, [], {}, [[]]]
    for depth in (50, 200, 400, 600, 900, 1500, 3000):
        for shape in ("arrays", "objects", "mixed"):
            for opname in ("add", "replace", "addne", "addap", "copy"):
                for form in ("dicts", "builder"):
                    ctx.evaluation()
                    value = nest(depth, shape)
                    tail_path = "/deep" + ("/0" if isinstance(value, list) else "/k")
                    if opname == "copy":
                        doc0 = {"x": 1, "src": value}
                        ops = [{"op": "copy", "from": "/src", "path": "/deep"}, {"op": "add", "path": "/deep/extra" if isinstance(value, dict) else "/deep/-", "value": "tag"}]
                        ops += [{"op": "add", "path": "/deep" + sub, "value": "written-into-an-empty-container"} for sub in (("/empty_list/-", "/list_of_empties/1/n") if isinstance(value, dict) else ("/1/-", "/3/0/-"))]
                    else:
                        doc0 = {"x": 1, "deep": 0}
                        ops = [{"op": opname, "path": "/deep" if opname != "addne" else "/deep2", "value": value}]
                        base_ = "/deep" if opname != "addne" else "/deep2"
                        ops.append({"op": "add", "path": base_ + ("/extra" if isinstance(value, dict) else "/-"), "value": "tag"})
                        # later operations write into the EMPTY containers inside the inserted value
                        for sub in (("/empty_list/-", "/empty_object/new", "/list_of_empties/0/-", "/list_of_empties/1/n") if isinstance(value, dict) else ("/1/-", "/2/new", "/3/0/-")):
                            ops.append({"op": "add", "path": base_ + sub, "value": "written-into-an-empty-container"})
                    try:
                        patch = jsonpath.JSONPatch(ops) if form == "dicts" else build_chain(ops, jsonpath)
                    except Exception:  # noqa: BLE001
                        ctx.count("deep_value_patch_refused_at_construction")
                        continue
                    held = [op.value for op in patch.ops if hasattr(op, "value")]
                    before = [_walk_ids(v)[1] for v in held] + [_walk_ids(value)[1]]
                    results = []
                    for _k in range(2):
                        doc = {"x": 1, "deep": 0} if opname != "copy" else {"x": 1, "src": nest(depth, shape)}
                        try:
                            # (the H6 contract serialises the patch, which recursion-limits on its own: call the real method)
                            results.append(CONTRACT["orig"](patch, doc) if "orig" in CONTRACT else patch.apply(doc))
                        except BaseException as e:  # noqa: BLE001
                            if not isinstance(e, Exception):
                                raise
                            ctx.cell("deep_value_outcomes", "depth=%d %s -> refused (%s)" % (depth, opname, type(e).__name__))
                    case = {"kind": "deep-values", "depth": depth, "shape": shape, "op": opname, "form": form}
                    after = [_walk_ids(v)[1] for v in held] + [_walk_ids(value)[1]]
                    if after != before:
                        ctx.violation("patch-or-caller-value-modified-by-apply:deep-value", case, {"depth": depth, "op": opname, "form": form, "signature_before": repr(before), "signature_after": repr(after)})
                        return
                    own = set().union(*[_walk_ids(v)[0] for v in held + [value]]) if held or value else set()
                    rids = [_walk_ids(x)[0] for x in results]
                    if any(ri & own for ri in rids):
                        ctx.violation("result-shares-structure-with-patch-values:deep-value", case, {"depth": depth, "op": opname, "form": form})
                        return
                    if len(rids) == 2 and rids[0] & rids[1]:
                        ctx.violation("results-of-repeated-application-share-structure:deep-value", case, {"depth": depth, "op": opname, "form": form})
                        return
                    if results:
                        ctx.cell("deep_value_outcomes", "depth=%d %s -> applied" % (depth, opname))
                        ctx.count("deep_value_applications", len(results))


def run_threads(ctx, rounds, fixed=None):
    """One patch object applied by 8 threads at once, each to documents of its own; every result against the model
    for that document (yields injected at statement starts inside patch.py / pointer.py)."""
    import jsonpath

    from rt.threads import stress

    r = ctx.rng
    for _round in range(rounds):
        template = copy.deepcopy(r.choice([d for d in DOCS if isinstance(d, (dict, list))]))
        anything = r.random() < 0.25
        for _try in range(60):
            ops, _ = gen_ops(r, template)
            if anything:
                break
            try:   # mostly: patches that move or copy something and apply to the end
                rp.apply_patch(copy.deepcopy(template), ops)
            except (rp.PatchFail, rp.Unspecified):
                continue
            if any(o["op"] in ("move", "copy") for o in ops):
                break
        if fixed:
            template, ops = copy.deepcopy(fixed[0]), copy.deepcopy(fixed[1])
        patches = [jsonpath.JSONPatch(copy.deepcopy(ops)), build_chain(copy.deepcopy(ops), jsonpath)]
        before = [canon(p.asdicts()) for p in patches]
        errors = []
        applied = [0]

        def worker(wid, rr):
            for k in range(6):
                doc = tagged(template, "w%dk%d" % (wid, k)) if rr.random() < 0.8 else copy.deepcopy(template)
                try:
                    want = ("ok", canon(rp.apply_patch(doc, ops)))
                except rp.PatchFail:
                    want = ("raise", "JSONPatchError")
                except rp.Unspecified:
                    continue
                p = patches[(wid + k) % 2]
                got = outcome(impl.call(p.apply, copy.deepcopy(doc)), jsonpath)
                applied[0] += 1
                if got != want:
                    errors.append({"ops": ops, "doc": canon(doc)[:300], "thread": wid, "got": repr(got)[:400], "model": repr(want)[:400]})

        st = stress(worker, nthreads=8, files=("patch.py", "pointer.py", "_data.py"), seed=r.random(), prob=0.1)
        ctx.evaluation(applied[0])
        ctx.count("concurrent_applications", applied[0])
        ctx.count("yields_injected", st["yields"])
        ctx.count("thread_switches_at_yield_points", st["switches"])
        ctx.cell("thread_interleaving_signatures", st["signature"])
        ctx.hashes.add("thr-" + st["signature"])
        case = {"kind": "threads", "template": template, "ops": ops}
        if st["timed_out"]:
            ctx.count("thread_round_timed_out")
            continue
        for e in errors[:2]:
            ctx.violation("concurrent-application-of-one-patch-differs-from-model", case, e)
        if [canon(p.asdicts()) for p in patches] != before:
            ctx.violation("patch-modified-by-concurrent-apply", case, {"ops": ops})
        if errors:
            return


def run(spec, ctx):
    install_contracts()
    r = ctx.rng
    if spec.get("kind") == "threads":
        run_threads(ctx, spec["rounds"])
        return
    if spec.get("kind") == "big-texts":
        run_big_texts(ctx)
        return
    if spec.get("kind") == "deep-values":
        run_deep_values(ctx)
        run_tuple_values(ctx)
        return
    if spec.get("kind") == "flags":
        from rt import flag_history

        flag_history.run(ctx)
        return
    for _ in range(spec["n"]):
        doc = copy.deepcopy(r.choice(DOCS))
        ops, directed = gen_ops(r, doc)
        check(ctx, doc, ops, directed)
    ctx.count("H6_contract_evaluations", CONTRACT["evaluations"])
    ctx.cell("H6_engine", CONTRACT.get("engine", "?"))


def finalize(m, tier):
    inc = []
    if m["counters"].get("H6_contract_evaluations", 0) < 1000:
        inc.append("H6 contract evaluated too few times")
    if m["counters"].get("applies_with_container_value_later_mutated", 0) < 1000:
        inc.append("too few applies with a container value mutated by a later operation")
    for op in ("add", "remove", "replace", "move", "copy", "test", "addne", "addap"):
        if not m["matrices"].get("ops_seen", {}).get(op):
            inc.append("operation never completed a case: %s" % op)
    return {"inconclusive": inc}


def replay(case, ctx):
    install_contracts()
    if case.get("flags"):
        from rt import flag_history

        flag_history.run(ctx)
        return
    if case.get("kind") == "threads":
        run_threads(ctx, 40, fixed=(case["template"], case["ops"]))
        return
    if case.get("kind") == "deep-values":
        run_deep_values(ctx)
        return
    if case.get("kind") == "big-texts":
        run_big_texts(ctx)
        return
    if case.get("kind") == "tuple-values":
        run_tuple_values(ctx)
        return
    check(ctx, case["doc"], case["ops"], True)
