"""C04 - JSON Pointer resolution conforms to RFC 6901 for every document and pointer.

Oracle: rt.ref_pointer (tokens are strings; array tokens must be canonical decimal and
< len; `-` never resolves; any token against a scalar fails).  For every node of every
generated document: the harness-encoded pointer through pointer.resolve /
JSONPointer(...).resolve / exists / resolve_parent, decoding off (always) and on (no
backslash); then every one-token mutation from the look-alike table that the model calls
unevaluable and that is not a documented extension must raise a resolution error, return
the caller's default, and make exists() false.
"""
from __future__ import annotations

import re

from rt import gen, impl, ref_pointer as rp
from rt.jsonval import canon, h, nodes

ID = "C04"
LEVEL = "exploration"
RULE = (
    "every node of every generated document (hostile member names) addressed by its harness-encoded RFC 6901 pointer through 4 entry "
    "points x {decoding off, decoding on when no backslash}; plus every one-token mutation from the look-alike table (+1, ' 1', 1_0, 01, "
    "full-width and Arabic-Indic digits, 1e0, 0x1, 1.0, -, len, len+1, wrong key, extra token under a scalar, escaped and non-ASCII tokens) "
    "that the reference model calls unevaluable. A case is (document, pointer); every case is non-trivial (it decides resolve/raise); "
    "distinct by hash."
)
ASSUMPTIONS = [
    "documented extensions are not generated as unevaluable cases: negative indices, leading blanks, '#'/'~'-prefixed tokens, integers beyond the index limit",
    "member names that are decimal integers beyond the index limit are not used (pointer construction rejects them; unit-tested behaviour)",
]

LOOKALIKE = ["+1", " 1", "1 ", "1_0", "01", "00", "１", "١", "1e0", "0x1", "1.0", "-", "", "a", "zz", "0.", "١٢", "1\n", "٠"]
SCALAR_TOKENS = ["0", "a", "", "-", "length", "1", "é"]


def plan(tier, seed):
    n = 15 if tier == "quick" else 46
    return [{"kind": "scale"}, {"kind": "flags"}] + [{"n": 110 if tier == "quick" else 700} for _ in range(n)]


def tclass(t):
    if rp.CANON_INDEX.match(t):
        return "canonical-index"
    if t == "-":
        return "dash"
    if re.search(r"[0-9０-９٠-٩]", t):
        return "look-alike"
    if "~" in t or "/" in t:
        return "escaped-key"
    if any(ord(c) > 127 for c in t):
        return "non-ascii-key"
    return "plain-key"


def kindname(v):
    from rt.jsonval import kind

    return kind(v)


def is_extension(t):
    return t.startswith(("#", "~")) or re.fullmatch(r"-[0-9]+", t) is not None or gen.over_limit(t) or t != t.lstrip()


def same(a, b):
    if isinstance(b, (list, dict)):
        return a is b
    return type(a) is type(b) and a == b


def check_existing(ctx, doc, loc, val, tag=None):
    import jsonpath
    from jsonpath import JSONPointer

    toks = rp.tokens_of(loc)
    text = rp.encode(toks)
    case = dict({"doc": doc, "pointer": text, "expect": "resolves"}, **(tag or {}))
    modes = [False] + ([True] if "\\" not in text else [])
    parent_kind = kindname(rp.resolve(doc, toks[:-1])) if toks else "root"
    for ue in modes:
        ctx.evaluation()
        routes = {
            "from_parts(str).resolve": lambda: JSONPointer.from_parts(list(toks), unicode_escape=ue).resolve(doc),
            "pointer.resolve(parts)": lambda: jsonpath.pointer.resolve(list(toks), doc, unicode_escape=ue),
            "pointer.resolve": lambda: jsonpath.pointer.resolve(text, doc, unicode_escape=ue),
            # the parts handed over as one-shot iterables (string tokens, and the location's own parts with int indices)
            "from_parts(generator).resolve": lambda: JSONPointer.from_parts((t for t in toks), unicode_escape=ue).resolve(doc),
            "from_parts(iter of location parts).resolve": lambda: JSONPointer.from_parts(iter(list(loc)), unicode_escape=ue).resolve(doc),
            "pointer.resolve(generator of location parts)": lambda: jsonpath.pointer.resolve((p_ for p_ in loc), doc, unicode_escape=ue),
            "pointer.resolve(map)": lambda: jsonpath.pointer.resolve(map(str, toks), doc, unicode_escape=ue),
            "JSONPointer.resolve": lambda: JSONPointer(text, unicode_escape=ue).resolve(doc),
            "resolve(default)": lambda: JSONPointer(text, unicode_escape=ue).resolve(doc, default="DEFAULT"),
            "resolve_parent": lambda: JSONPointer(text, unicode_escape=ue).resolve_parent(doc)[1],
        }
        try:
            # the URI-fragment spelling (RFC 6901 section 6): percent-encoded octets, decoded on request
            import urllib.parse

            enc_toks = [urllib.parse.quote(t, safe="") for t in toks]
            enc_text = "".join("/" + urllib.parse.quote(rp.encode_token(t), safe="") for t in toks)
            # (and the sparing spelling a URI fragment allows: sub-delimiters such as '+', '=', '&', ':' and '@' left as they are)
            frag = "!$&'()*+,;=:@?"
            min_toks = [urllib.parse.quote(t, safe=frag) for t in toks]
            min_text = "".join("/" + urllib.parse.quote(rp.encode_token(t), safe=frag) for t in toks)
            routes["from_parts(sparingly percent-encoded, uri_decode).resolve"] = lambda: JSONPointer.from_parts(min_toks, unicode_escape=ue, uri_decode=True).resolve(doc)
            routes["JSONPointer(sparingly percent-encoded text, uri_decode).resolve"] = lambda: JSONPointer(min_text, unicode_escape=ue, uri_decode=True).resolve(doc)
            routes["from_parts(percent-encoded, uri_decode).resolve"] = lambda: JSONPointer.from_parts(enc_toks, unicode_escape=ue, uri_decode=True).resolve(doc)
            routes["from_parts(generator of percent-encoded, uri_decode).resolve"] = lambda: JSONPointer.from_parts((t for t in enc_toks), unicode_escape=ue, uri_decode=True).resolve(doc)
            routes["JSONPointer(percent-encoded text, uri_decode).resolve"] = lambda: JSONPointer(enc_text, unicode_escape=ue, uri_decode=True).resolve(doc)
            routes["pointer.resolve(percent-encoded text, uri_decode)"] = lambda: jsonpath.pointer.resolve(enc_text, doc, unicode_escape=ue, uri_decode=True)
            ctx.count("percent_encoded_routes")
        except UnicodeEncodeError:
            ctx.count("percent_encoded_routes_skipped_lone_surrogate")
        if text == text.strip():
            # (relative pointer text is stripped of surrounding blanks by the parser, so the
            # route is only used when the pointer text has none)
            routes["relative.to().resolve"] = lambda: JSONPointer("/zz-unused", unicode_escape=ue).to("1" + text, unicode_escape=ue).resolve(doc)
        for rname, fn in routes.items():
            o = impl.call(fn)
            if not o.ok or not same(o.value, val):
                ctx.violation("existing-node-not-resolved:%s:%s" % (rname, tclass(toks[-1]) if toks else "root"), dict(case, unicode_escape=ue),
                              {"pointer": text, "unicode_escape": ue, "route": rname, "outcome": o.desc() if not o.ok else canon(o.value)[:80], "expected": canon(val)[:80]})
                return False
        ex = impl.call(lambda: JSONPointer(text, unicode_escape=ue).exists(doc))
        if not ex.ok or ex.value is not True:
            ctx.violation("exists-false-for-existing-node", dict(case, unicode_escape=ue), {"pointer": text, "outcome": ex.desc() if not ex.ok else ex.value})
            return False
        if toks:
            par = impl.call(lambda: JSONPointer(text, unicode_escape=ue).resolve_parent(doc)[0])
            if not par.ok or par.value is not rp.resolve(doc, toks[:-1]):
                ctx.violation("resolve_parent-wrong-parent", dict(case, unicode_escape=ue), {"pointer": text})
                return False
        ctx.cell("census", "%s on %s -> resolved" % (tclass(toks[-1]) if toks else "root", parent_kind))
    ctx.case(h(canon(doc), text))
    return True


def check_unevaluable(ctx, doc, toks, why, tag=None):
    import jsonpath
    from jsonpath import JSONPointer

    text = rp.encode(toks)
    case = dict({"doc": doc, "pointer": text, "expect": "unevaluable"}, **(tag or {}))
    modes = [False] + ([True] if "\\" not in text else [])
    parent_kind = kindname(rp.resolve(doc, toks[:-1]))
    for ue in modes:
        ctx.evaluation()
        c = impl.call(lambda: JSONPointer(text, unicode_escape=ue))
        if not c.ok:
            ctx.violation("valid-pointer-rejected-at-construction:%s" % type(c.exc).__name__, dict(case, unicode_escape=ue), {"pointer": text, "error": c.desc()})
            return
        p = c.value
        o = impl.call(p.resolve, doc)
        if o.ok:
            ctx.violation("unevaluable-pointer-yielded-a-value:%s-on-%s" % (tclass(toks[-1]), parent_kind), dict(case, unicode_escape=ue), {"pointer": text, "unicode_escape": ue, "value": canon(o.value)[:80], "why_unevaluable": why})
            return
        # the same tokens through the other construction routes must be unevaluable too
        for rname, fn in (("from_parts(str)", lambda: JSONPointer.from_parts(list(toks), unicode_escape=ue).resolve(doc)),
                          ("pointer.resolve(parts, default)", lambda: jsonpath.pointer.resolve(list(toks), doc, default="DEFAULT", unicode_escape=ue)),
                          ("relative.to()", (lambda: JSONPointer("/zz-unused", unicode_escape=ue).to("1" + text, unicode_escape=ue).resolve(doc)) if text == text.strip() else (lambda: p.resolve(doc))),
                          ("from_parts(generator)", lambda: JSONPointer.from_parts((t for t in toks), unicode_escape=ue).resolve(doc)),
                          ("from_parts(iter with int parts)", lambda: JSONPointer.from_parts(iter([int(t) if rp.CANON_INDEX.match(t) and len(t) < 15 else t for t in toks]), unicode_escape=ue).resolve(doc)),
                          ("pointer.resolve(generator, default)", lambda: jsonpath.pointer.resolve((t for t in toks), doc, default="DEFAULT", unicode_escape=ue)),
                          ("from_parts(generator).exists", lambda: JSONPointer.from_parts((t for t in toks), unicode_escape=ue).exists(doc)),
                          ("from_parts(str).exists", lambda: JSONPointer.from_parts(list(toks), unicode_escape=ue).exists(doc))):
            oo = impl.call(fn)
            bad = (oo.ok and not (rname.endswith("default)") and oo.value == "DEFAULT") and not (rname.endswith("exists") and oo.value is False))
            if bad:
                ctx.violation("unevaluable-pointer-yielded-a-value-through:%s" % rname, dict(case, unicode_escape=ue), {"pointer": text, "route": rname, "value": canon(oo.value)[:80], "why_unevaluable": why})
                return
            if not oo.ok and not isinstance(oo.exc, jsonpath.JSONPointerResolutionError):
                ctx.violation("unevaluable-pointer-raised-foreign-through:%s:%s" % (rname, type(oo.exc).__name__), dict(case, unicode_escape=ue), {"pointer": text, "error": oo.desc()})
                return
        if not isinstance(o.exc, jsonpath.JSONPointerResolutionError):
            ctx.violation("unevaluable-pointer-raised-foreign:%s" % type(o.exc).__name__, dict(case, unicode_escape=ue), {"pointer": text, "error": o.desc()})
            return
        # defaults that are containers shaped like the rest of the pointer (the default is what comes back, itself - never
        # something found inside it)
        for k in range(len(toks)):
            D = "leaf-of-the-default"
            for t in reversed(toks[k:]):
                D = [D] * (int(t) + 1) if rp.CANON_INDEX.match(t) and int(t) < 5 else {t: D}
            dd = impl.call(p.resolve, doc, default=D)
            ctx.count("container_defaults_shaped_like_the_pointer's_tail")
            if not dd.ok or dd.value is not D:
                ctx.violation("default-not-returned-as-such", dict(case, unicode_escape=ue), {"pointer": text, "default": repr(D)[:120], "got": dd.desc() if not dd.ok else repr(dd.value)[:120]})
                return
        # the same pointer with more tokens after the one that cannot be evaluated, and defaults shaped like those tokens
        for tail in (["tail"], ["tail", "0"], ["0", "x"]):
            D = "leaf-of-the-default"
            for t in reversed(tail):
                D = [D] if t == "0" else {t: D}
            dd = impl.call(lambda: JSONPointer(rp.encode(list(toks) + tail), unicode_escape=ue).resolve(doc, default=D))
            ctx.count("container_defaults_shaped_like_the_pointer's_tail")
            if not dd.ok or dd.value is not D:
                ctx.violation("default-not-returned-as-such", dict(case, unicode_escape=ue), {"pointer": rp.encode(list(toks) + tail), "default": repr(D)[:120], "got": dd.desc() if not dd.ok else repr(dd.value)[:120]})
                return
        d = impl.call(p.resolve, doc, default="DEFAULT")
        d2 = impl.call(lambda: jsonpath.pointer.resolve(text, doc, default="DEFAULT", unicode_escape=ue))
        if not d.ok or d.value != "DEFAULT" or not d2.ok or d2.value != "DEFAULT":
            ctx.violation("default-not-returned", dict(case, unicode_escape=ue), {"pointer": text, "outcome": d.desc() if not d.ok else canon(d.value)[:60]})
            return
        ex = impl.call(p.exists, doc)
        if not ex.ok or ex.value is not False:
            ctx.violation("exists-disagrees-with-resolve", dict(case, unicode_escape=ue), {"pointer": text, "exists": ex.desc() if not ex.ok else ex.value})
            return
        rpar = impl.call(p.resolve_parent, doc)
        if rpar.ok and rpar.value[1] is not jsonpath.pointer.UNDEFINED:
            ctx.violation("resolve_parent-yielded-a-value-for-unevaluable", dict(case, unicode_escape=ue), {"pointer": text, "value": canon(rpar.value[1])[:60]})
            return
        if not rpar.ok and not isinstance(rpar.exc, jsonpath.JSONPointerResolutionError):
            ctx.violation("resolve_parent-raised-foreign:%s" % type(rpar.exc).__name__, dict(case, unicode_escape=ue), {"pointer": text, "error": rpar.desc()})
            return
        ctx.cell("census", "%s on %s -> %s" % (tclass(toks[-1]), parent_kind, type(o.exc).__name__))
    ctx.case(h(canon(doc), text))


def _retag(v, tag):
    if isinstance(v, dict):
        return {k: _retag(x, tag) for k, x in v.items()}
    if isinstance(v, list):
        return [_retag(x, tag) for x in v]
    return "%s@%s" % (v, tag) if isinstance(v, (str, int, float)) and not isinstance(v, bool) else v


def pointer_object_reuse(ctx, doc, allnodes):
    """ONE pointer object resolved against several documents of the same shape whose leaves carry different tags, in
    turn, after an in-place update, after the earlier documents are gone (their ids free to be reused), and from 8
    threads at once: the value must always be the one found in the document given to that call."""
    from jsonpath import JSONPointer

    from rt.threads import stress

    r = ctx.rng
    picks = r.sample(allnodes, min(len(allnodes), 4))
    for loc, _val in picks:
        toks = rp.tokens_of(loc)
        text = rp.encode(toks)
        if "\\" in text:
            continue
        c = impl.call(JSONPointer, text)
        if not c.ok:
            continue
        p = c.value
        case = {"doc": doc, "pointer": text, "expect": "reuse"}
        for k in range(6):
            d = _retag(doc, "d%d" % k)
            want = rp.resolve(d, toks)
            o = impl.call(p.resolve, d)
            ctx.count("reused_pointer_object_resolutions")
            if not o.ok or not same(o.value, want):
                ctx.violation("reused-pointer-object-resolves-against-another-document", case, {"pointer": text, "use": k, "got": o.desc() if not o.ok else canon(o.value)[:80], "expected": canon(want)[:80]})
                return
            if toks and k % 2:
                par = rp.resolve(d, toks[:-1])
                key = toks[-1] if isinstance(par, dict) else int(toks[-1])
                par[key] = "updated-in-place-%d" % k
                o2 = impl.call(p.resolve, d)
                if not o2.ok or o2.value != "updated-in-place-%d" % k:
                    ctx.violation("reused-pointer-object-ignores-an-in-place-update", case, {"pointer": text, "got": o2.desc() if not o2.ok else canon(o2.value)[:80]})
                    return
            del d
        errors = []

        def worker(wid, rr):
            for k in range(5):
                d = _retag(doc, "w%dk%d" % (wid, k))
                want = rp.resolve(d, toks)
                o = impl.call(p.resolve, d)
                e = impl.call(p.exists, d)
                if not o.ok or not same(o.value, want) or not e.ok or e.value is not True:
                    errors.append({"pointer": text, "thread": wid, "got": o.desc() if not o.ok else canon(o.value)[:80], "expected": canon(want)[:80]})
        if r.random() < 0.15:
            st = stress(worker, nthreads=8, files=("pointer.py",), seed=r.random(), prob=0.1)
            ctx.count("concurrent_resolutions_of_one_pointer_object", 40)
            ctx.count("yields_injected", st["yields"])
            for e in errors[:1]:
                ctx.violation("pointer-object-shared-by-threads-resolves-against-another-document", case, e)
                return


def text_document_history(ctx, doc, allnodes):
    """The document supplied as JSON text: what comes back belongs to the caller, who may change
    it (or patch the same text) before resolving against the same text again.  Every resolution
    must still follow the text."""
    import json

    import jsonpath

    r = ctx.rng
    text = json.dumps(doc)
    fresh = json.loads(text)
    conts = [(loc, v) for loc, v in allnodes if isinstance(v, (list, dict))][:6]
    for loc, _v in conts:
        got = impl.call(lambda: jsonpath.pointer.resolve(rp.encode(rp.tokens_of(loc)), text, unicode_escape=False))
        if got.ok and isinstance(got.value, list):
            got.value.append("SCRIBBLE")
            got.value[:1] = ["SCRIBBLE"]
        elif got.ok and isinstance(got.value, dict):
            got.value["SCRIBBLE"] = 1
            for k in list(got.value)[:1]:
                del got.value[k]
    impl.call(lambda: jsonpath.patch.apply([{"op": "add", "path": "", "value": {"replaced": True}}], text))
    impl.call(lambda: jsonpath.JSONPatch().add("/SCRIBBLE2", 1).apply(text))
    impl.call(lambda: [m.obj.clear() for m in jsonpath.finditer("$..*", text) if isinstance(m.obj, (list, dict))])
    for loc, _v in allnodes[:40]:
        toks = rp.tokens_of(loc)
        ptr = rp.encode(toks)
        ctx.evaluation()
        want = rp.resolve(fresh, toks)
        got = impl.call(lambda: jsonpath.pointer.resolve(ptr, text, unicode_escape=False))
        ctx.count("text_document_resolutions_after_result_mutation")
        if not got.ok or canon(got.value) != canon(want):
            ctx.violation("resolution-against-json-text-depends-on-earlier-results-being-mutated", {"text_history": True, "doc": doc, "pointer": ptr}, {"pointer": ptr, "got": got.desc() if not got.ok else canon(got.value)[:120], "expected": canon(want)[:120]})
            return
        ex = impl.call(lambda: jsonpath.JSONPointer(ptr, unicode_escape=False).exists(text))
        if not ex.ok or ex.value is not True:
            ctx.violation("exists-against-json-text-depends-on-earlier-results-being-mutated", {"text_history": True, "doc": doc, "pointer": ptr}, {"pointer": ptr})
            return
    for loc, v in conts[:3]:
        toks = rp.tokens_of(loc) + ["SCRIBBLE" if isinstance(v, dict) else str(len(v))]
        got = impl.call(lambda: jsonpath.pointer.resolve(rp.encode(toks), text, default="DEFAULT", unicode_escape=False))
        if not got.ok or got.value != "DEFAULT":
            ctx.violation("unevaluable-pointer-resolves-against-json-text-after-earlier-results-were-mutated", {"text_history": True, "doc": doc, "pointer": rp.encode(toks)}, {"pointer": rp.encode(toks), "got": got.desc() if not got.ok else canon(got.value)[:120]})
            return


def key_variants(k):
    import unicodedata
    import urllib.parse

    out = []
    for t in [unicodedata.normalize(f, k) for f in ("NFC", "NFD", "NFKC", "NFKD")] + [k.lower(), k.upper(), k.casefold(), k.strip(), k + " ", " " + k, k + "\u200b", urllib.parse.quote(k, safe=""), k.replace("%", "%25"),
              k.encode("utf-8", "surrogatepass").decode("latin-1"), k.replace("\\", "\\\\"), k.replace("/", "~1")]:
        if t != k and t not in out:
            out.append(t)
    return out


def run_surrogates(ctx):
    """Member names holding surrogate code points as such (a high and a low one next to each other are TWO characters,
    not the astral character they would encode): only Python-built documents can have them, and a replay file cannot
    hold them, so the class is re-run as a whole on replay."""
    tag = {"surrogate_names": True}
    split, astral = "\ud83d\ude00", "\U0001f600"
    docs = [{split: "split", astral: "astral", "a": {"x\ud800": 1, "\udfff": [2], "\ude00\ud83d": 3}}, {astral: "astral-only", "b": [1]}, {split: "split-only", "\ud800": {"\udc00": 4}}, {"a" + split + "b": 5, "a" + astral + "b": 6}]
    for doc in docs:
        for loc, val in nodes(doc):
            check_existing(ctx, doc, loc, val, tag)
        ctx.count("documents_with_surrogate_code_points_in_names")
    for doc, toks in ((docs[1], [split]), (docs[2], [astral]), (docs[2], ["\ud800", "\udc00\udc00"]), (docs[1], ["\ud83d"]), (docs[3], ["a" + split]), (docs[2], ["\ud800\udc00"])):
        try:
            rp.resolve(doc, toks)
        except rp.Unresolvable as e:
            check_unevaluable(ctx, doc, toks, str(e), tag)


def run_huge_values(ctx):
    """Documents (Python objects) whose numbers are too long to print: integers beyond the interpreter's int/str
    conversion limit. Tokens applied to them are unevaluable like tokens applied to any number; the values themselves
    resolve. A replay file cannot hold them, so the class is replayed as a whole."""
    tag = {"huge_values": True}
    big, neg = 10 ** 5000, -(10 ** 4400)
    doc = {"big": big, "list": [1, neg, {"deep": big}], "ok": {"n": 7}}
    case_doc = {"big": "<10**5000>", "list": [1, "<-(10**4400)>", {"deep": "<10**5000>"}], "ok": {"n": 7}}
    import jsonpath
    from jsonpath import JSONPointer

    for toks, val in ((["big"], big), (["list", "1"], neg), (["list", "2", "deep"], big), (["ok", "n"], 7)):
        text = rp.encode(toks)
        for rname, fn in (("resolve", lambda: JSONPointer(text).resolve(doc)), ("pointer.resolve", lambda: jsonpath.pointer.resolve(text, doc)), ("from_parts", lambda: JSONPointer.from_parts(list(toks)).resolve(doc)), ("exists", lambda: JSONPointer(text).exists(doc) or None)):
            o = impl.call(fn)
            ctx.evaluation()
            if not o.ok or (rname != "exists" and o.value is not val) or (rname == "exists" and o.value is not True):
                ctx.violation("existing-node-not-resolved:%s:huge-value" % rname, dict(tag, doc=case_doc, pointer=text), {"pointer": text, "route": rname, "outcome": o.desc() if not o.ok else "another value"})
                return
    for toks in (["big", "0"], ["big", "foo"], ["big", "-"], ["list", "1", "0"], ["big", "0", "1"], ["list", "2", "deep", ""], ["list", "1", "#"], ["big", "~"]):
        text = rp.encode(toks)
        for rname, fn, want in (("resolve", lambda: JSONPointer(text).resolve(doc), "raise"), ("resolve(default)", lambda: JSONPointer(text).resolve(doc, default="DEFAULT"), "DEFAULT"), ("exists", lambda: JSONPointer(text).exists(doc), False),
                                ("pointer.resolve(default)", lambda: jsonpath.pointer.resolve(text, doc, default="DEFAULT"), "DEFAULT"), ("from_parts", lambda: JSONPointer.from_parts(list(toks)).resolve(doc), "raise"),
                                ("resolve_parent", lambda: JSONPointer(text).resolve_parent(doc), "raise-or-undefined")):
            o = impl.call(fn)
            ctx.evaluation()
            ctx.count("tokens_applied_to_numbers_too_long_to_print")
            if o.ok:
                if want == "raise" or (want not in ("raise", "raise-or-undefined") and o.value != want and o.value is not want):
                    ctx.violation("unevaluable-pointer-yielded-a-value-through:%s" % rname, dict(tag, doc=case_doc, pointer=text), {"pointer": text, "route": rname, "value": repr(o.value)[:80]})
                    return
            elif want in ("DEFAULT", False) or not isinstance(o.exc, jsonpath.JSONPointerError):
                ctx.violation("unevaluable-pointer-raised-foreign-through:%s:%s" % (rname, type(o.exc).__name__), dict(tag, doc=case_doc, pointer=text), {"pointer": text, "route": rname, "error": o.desc()[:300]})
                return
    ctx.cell("census", "token on a number too long to print -> unevaluable")


def run_string_subclasses(ctx):
    """String values held as instances of `str` subclasses (a str-mixin enum member, a tagged string, a string with an
    `__html__`): a token applied to a string never yields a value, whatever the string's class."""
    import enum

    import jsonpath
    from jsonpath import JSONPointer

    class Colour(str, enum.Enum):
        RED = "red"

    class Tag(str):
        pass
    for val in (Colour.RED, Tag("red"), gen.MarkupStr("red"), Tag(""), Tag("0")):
        doc = {"colour": val, "list": [val, {"k": val}]}
        for base in (["colour"], ["list", "0"], ["list", "1", "k"]):
            for tok in ("0", "-1", "1", "-", "length", "#0", "", "red"):
                toks = base + [tok]
                text = rp.encode(toks)
                sentinel = object()
                ctx.evaluation()
                ctx.case(h("str-subclass", type(val).__name__, str(val), toks), True)
                ctx.count("tokens_applied_to_strings_of_other_classes")
                for rname, fn, bad in (("resolve", lambda: JSONPointer(text).resolve(doc), lambda o: o.ok or not isinstance(o.exc, jsonpath.JSONPointerResolutionError)),
                                       ("resolve(default)", lambda: JSONPointer(text).resolve(doc, default=sentinel), lambda o: not o.ok or o.value is not sentinel),
                                       ("exists", lambda: JSONPointer(text).exists(doc), lambda o: not o.ok or o.value is not False),
                                       ("from_parts", lambda: JSONPointer.from_parts(list(toks)).resolve(doc, default=sentinel), lambda o: not o.ok or o.value is not sentinel),
                                       ("pointer.resolve", lambda: jsonpath.pointer.resolve(text, doc, default=sentinel), lambda o: not o.ok or o.value is not sentinel)):
                    o = impl.call(fn)
                    if bad(o):
                        ctx.violation("token-applied-to-a-string-yields-a-value:%s" % rname, {"string_subclasses": True}, {"string_class": type(val).__name__, "string": str(val), "tokens": toks, "route": rname, "outcome": o.desc() if not o.ok else repr(o.value)[:100]})
                        return


def run_marker_siblings(ctx):
    """Objects holding a member N next to members named '~N' and '#N' (the spellings of the non-standard key markers):
    a pointer spelled from a node's names resolves to that very node whatever the names contain, so '/~0N' is the member
    '~N' when there is one - the marker reading is only a fallback for names the object does not have."""
    for name in ["x", "", "0", "1", "a/b", "~", "#", "é", "-", "k k", "00", "\\u0041", "%41", "~x", "#x"]:
        doc = {name: "plain-%s" % name, "~" + name: {"deep": [0, {"leaf": "t"}], name: "inner"}, "#" + name: ["h", {name: 1, "~" + name: 2, "#" + name: 3}], "arr": [{name: "in-array", "~" + name: "tilde-in-array", "#" + name: "hash-in-array"}]}
        for loc, val in nodes(doc):
            if not check_existing(ctx, doc, loc, val):
                return
        ctx.count("objects_with_marker_spelled_siblings")


def run_scale(ctx):
    """Pointers far into long arrays and far down deep documents; indices on either side of the length."""
    for n in (9, 10, 11, 100, 1000, 16384, 65537):
        doc = {"a": list(range(n)), "nest": [[i] for i in range(min(n, 300))]}
        for i in (0, 9, 10, n // 2, n - 2, n - 1):
            if 0 <= i < n:
                check_existing(ctx, doc, ("a", i), i)
        for t in (str(n), str(n + 1), str(n * 10), "-", "0" + str(n - 1), str(n - 1) + " ", "+" + str(n - 1)):
            try:
                rp.resolve(doc, ["a", t])
            except rp.Unresolvable as e:
                check_unevaluable(ctx, doc, ["a", t], str(e))
        ctx.cell("scale", "length=%d" % n)
    for depth in (50, 100, 101, 150, 300):
        v = "bottom"
        loc = []
        for i in range(depth):
            if i % 2:
                v = {"c": v}
                loc.insert(0, "c")
            else:
                v = [0, v]
                loc.insert(0, 1)
        check_existing(ctx, v, tuple(loc), "bottom")
        check_unevaluable(ctx, v, [str(x) for x in loc] + ["x"], "token below a scalar")
        check_unevaluable(ctx, v, [str(x) for x in loc[:-1]] + ["zz" if isinstance(loc[-1], str) else "2"], "missing at the bottom")
        ctx.cell("scale", "depth=%d" % depth)


def run(spec, ctx):
    if spec.get("kind") == "scale":
        run_scale(ctx)
        run_surrogates(ctx)
        run_marker_siblings(ctx)
        run_huge_values(ctx)
        run_string_subclasses(ctx)
        return
    if spec.get("kind") == "flags":
        # pointer texts with %XX / \uXXXX sequences read under every decoding option, in several orders, in one process
        from rt import flag_history

        flag_history.run(ctx)
        return
    r = ctx.rng
    names = [n for n in gen.ALL_NAMES if not gen.over_limit(n)]
    for i in range(spec["n"]):
        doc = gen.DocGen(r, profile=r.choice(["unique", "mixed", "lookalike"]), hostile=0.7, max_depth=r.randint(2, 4), fan=r.randint(2, 4), names=names if r.random() < 0.7 else None).value()
        if any(gen.over_limit(k) for k in gen.doc_names(doc)):
            continue
        allnodes = list(nodes(doc))
        for loc, val in allnodes:
            if not check_existing(ctx, doc, loc, val):
                break
            toks = rp.tokens_of(loc)
            # one-token mutations of the last token, and extensions below this node
            muts = []
            if isinstance(val, list):
                muts += [toks + [t] for t in LOOKALIKE + [str(len(val)), str(len(val) + 1), str(len(val) + 10)]]
            elif isinstance(val, dict):
                muts += [toks + [t] for t in ("zz", "missing-key", "0", "-", "") + tuple(k + "x" for k in list(val)[:2])]
            else:
                muts += [toks + [t] for t in SCALAR_TOKENS]
            if toks:
                par = rp.resolve(doc, toks[:-1])
                if isinstance(par, list):
                    muts += [toks[:-1] + [t] for t in ("+" + toks[-1], " " + toks[-1], "0" + toks[-1], toks[-1] + "_0", toks[-1] + "e0", toks[-1] + ".0", "".join(chr(0xff10 + int(c)) for c in toks[-1]), "".join(chr(0x660 + int(c)) for c in toks[-1]))]
            # look-alike spellings of member names that exist (Unicode normal forms, case, blanks, percent- and byte-level re-encodings)
            near = []
            if isinstance(val, dict):
                near += [toks + [t] for k in list(val)[:4] for t in key_variants(k) if t not in val]
            if toks and isinstance(rp.resolve(doc, toks[:-1]), dict):
                near += [toks[:-1] + [t] for t in key_variants(toks[-1]) if t not in rp.resolve(doc, toks[:-1])]
            if near:
                ctx.count("lookalike_member_name_tokens", len(near))
            for m in r.sample(muts, min(len(muts), 8)) + r.sample(near, min(len(near), 6)):
                if is_extension(m[-1]) or any(is_extension(t) for t in m):
                    continue
                try:
                    rp.resolve(doc, m)
                    continue  # evaluable
                except rp.Unresolvable as e:
                    check_unevaluable(ctx, doc, m, str(e))
        if i % 3 == 0 and allnodes:
            pointer_object_reuse(ctx, doc, allnodes)
        if i % 6 == 0:
            text_document_history(ctx, doc, allnodes)
        if i % 40 == 0 and allnodes:
            loc, val = allnodes[-1]
            ctx.sample({"pointer": rp.encode(rp.tokens_of(loc)), "resolves_to": canon(val)[:60], "doc": canon(doc)[:160]})


def finalize(m, tier):
    inc = []
    cen = m["matrices"].get("census", {})
    need = [("canonical-index", "arr"), ("look-alike", "arr"), ("dash", "arr"), ("plain-key", "obj"), ("escaped-key", "obj"), ("non-ascii-key", "obj"), ("look-alike", "obj")]
    for tc, ck in need:
        if not any(k.startswith("%s on %s" % (tc, ck)) for k in cen):
            inc.append("census cell never observed: %s on %s" % (tc, ck))
    for sc in ("str", "num", "bool", "null"):
        if not any((" on %s -> " % sc) in k for k in cen):
            inc.append("no token was applied to a %s" % sc)
    return {"inconclusive": inc}


def replay(case, ctx):
    if case.get("string_subclasses"):
        run_string_subclasses(ctx)
        return
    if case.get("huge_values"):
        run_huge_values(ctx)
        return
    if case.get("surrogate_names"):
        run_surrogates(ctx)
        return
    if case.get("flags"):
        from rt import flag_history

        flag_history.run(ctx)
        return
    if case.get("text_history"):
        text_document_history(ctx, case["doc"], list(nodes(case["doc"])))
        return
    doc = case["doc"]
    toks = rp.decode(case["pointer"])
    if case["expect"] == "resolves":
        loc = []
        cur = doc
        for t in toks:
            if isinstance(cur, list):
                loc.append(int(t))
                cur = cur[int(t)]
            else:
                loc.append(t)
                cur = cur[t]
        check_existing(ctx, doc, tuple(loc), cur)
    else:
        check_unevaluable(ctx, doc, toks, "replay")
