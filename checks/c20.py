"""C20 - match -> pointer -> patch edits exactly the matched node.

Oracle: the harness performs the edit on a deep copy by walking match.parts with plain
indexing; strict equality; unique-id leaves make "nothing else changed" checkable.  The
pointer object is passed directly to the patch builder (the documented pipeline).
"""
from __future__ import annotations

import copy

from rt import gen, hooks, impl
from rt.jsonval import canon, h, strict_eq
from rt.render import Renderer

ID = "C20"
LEVEL = "exploration"
RULE = (
    "$-rooted queries without the keys selector over documents with unique-id leaves and member names from the hostile pool (digits-only incl. a "
    "20-digit name beyond the pointer index limit, signed look-alikes, '~', '/', empty, non-ASCII, backslashes, quotes); for every match (up to 25 per "
    "result) x {test, replace, remove} the patch built from match.pointer() is applied to a deep copy and compared with the edit made by walking "
    "match.parts. A case is (query text, document); non-trivial when it has a match with a non-empty location; distinct by hash."
)
ASSUMPTIONS = ["patches run on deep copies; the original is snapshotted", "documents never alias containers"]


def plan(tier, seed):
    n = 15 if tier == "quick" else 46
    return [{"kind": "flags"}, {"kind": "scale"}, {"kind": "threads", "rounds": 18 if tier == "quick" else 180}] + [{"n": 600 if tier == "quick" else 15000} for _ in range(n)]


def edit(doc, parts, what, new=None):
    d = copy.deepcopy(doc)
    if not parts:
        return new if what == "replace" else d
    cur = d
    for p in parts[:-1]:
        cur = cur[p]
    if what == "replace":
        cur[parts[-1]] = new
    else:
        del cur[parts[-1]]
    return d


def twin(v):
    if v is True:
        return 1
    if v is False:
        return 0
    if isinstance(v, int):
        return True if v == 1 else (False if v == 0 else float(v))
    if isinstance(v, float) and v == int(v):
        return int(v)
    if isinstance(v, list):
        return [twin(x) for x in v]
    if isinstance(v, dict):
        return {k: twin(x) for k, x in v.items()}
    return v


def to_plain(v):
    if isinstance(v, dict):
        return {k: to_plain(x) for k, x in v.items()}
    if isinstance(v, (list, tuple)):
        return [to_plain(x) for x in v]
    return v


def scribble(v):
    """Edit every mutable container reachable inside v (through tuples too)."""
    if isinstance(v, dict):
        for x in list(v.values()):
            scribble(x)
        v["scribbled-by-the-caller"] = 1
    elif isinstance(v, list):
        for x in list(v):
            scribble(x)
        v.append("scribbled-by-the-caller")
    elif isinstance(v, tuple):
        for x in v:
            scribble(x)


def check_case(ctx, text, doc, cls):
    import jsonpath

    ctx.evaluation()
    case = {"text": text, "doc": doc, "class": cls}
    orig = canon(doc)
    o = impl.call(lambda: list(jsonpath.finditer(text, doc)))
    if not o.ok:
        ctx.count("query_raised")
        return
    ms = o.value
    ctx.case(h(text, orig), any(m.parts for m in ms))
    if ctx.rng.random() < 0.3:
        # the same matches through the async API over lazily loaded containers whose members arrive with uneven latencies:
        # every match must still pair the location with the value found there
        import asyncio
        import random

        from .c08 import Plan, unwrap, wrap

        for shrinking in (False, True):
            plan = Plan({}, random.Random(ctx.rng.random()), None)
            plan.shrinking = shrinking

            async def amatches():
                return [(tuple(m.parts), canon(unwrap(m.obj)), str(m.pointer())) async for m in await jsonpath.finditer_async(text, wrap(doc, plan))]
            am = impl.call(lambda: asyncio.run(amatches()))
            ctx.count("async_lazy_container_routes")
            wo = impl.call(lambda: [(tuple(m.parts), canon(m.obj), str(m.pointer())) for m in ms])
            if not wo.ok:
                ctx.violation("pointer()-raised:%s" % type(wo.exc).__name__, case, {"text": text, "error": wo.desc()})
                return
            want = wo.value
            if not am.ok or am.value != want:
                bad = next((x for x, y in zip(am.value, want) if x != y), None) if am.ok else None
                ctx.violation("async-match-pairs-a-location-with-another-node's-value", case, {"text": text, "latencies": "shrinking" if shrinking else "random", "first_wrong_match": repr(bad)[:300] if am.ok else am.desc(), "sync": repr(want[:4])[:300]})
                return
    sel = ms if len(ms) <= 25 else ms[:10] + ctx.rng.sample(ms[10:], 15)
    new_default = {"NEW": ["replacement", 424242]}
    for m in sel:
        # (now and then a replacement value that not every way of copying a value can carry: integers beyond the interpreter's
        # int/str digit limit, nesting of a few hundred levels, a tuple)
        new = new_default
        if ctx.rng.random() < 0.2:
            deep = []
            for _ in range(ctx.rng.choice([50, 200, 300])):
                deep = [deep]
            new = ctx.rng.choice([10 ** 4400, [-(10 ** 5000), {"k": 10 ** 4301}], deep, {"t": (1, 2)}, 1e308, "", None, {"": {"": []}}])
            ctx.count("replacements_with_values_that_are_hard_to_copy")
        parts = tuple(m.parts)
        classes = {gen.name_class(p) if isinstance(p, str) else "index" for p in parts} or {"root"}
        ptr = impl.call(m.pointer)
        if not ptr.ok:
            ctx.violation("pointer()-raised:%s" % type(ptr.exc).__name__, case, {"parts": list(parts), "error": ptr.desc()})
            return
        try:
            edit(doc, parts, "replace", 0)
        except Exception as e:  # noqa: BLE001
            ctx.violation("match-parts-do-not-address-a-replaceable-node:%s" % type(e).__name__, case, {"text": text, "parts": list(parts)})
            return
        for what in ("test", "replace", "replace-twin", "remove"):
            if what == "remove" and not parts:
                continue
            target = copy.deepcopy(doc)
            if what == "replace-twin":
                # a new value that Python's == cannot tell from the matched one (true/1, 0/false, 1/1.0 at any depth)
                tw = twin(m.obj)
                if canon(tw) == canon(m.obj):
                    continue
                patch = jsonpath.JSONPatch().replace(ptr.value, copy.deepcopy(tw))
                want = edit(doc, parts, "replace", copy.deepcopy(tw))
                ctx.count("twin_replacements")
            elif what == "test":
                patch = jsonpath.JSONPatch().test(ptr.value, copy.deepcopy(m.obj))
                want = copy.deepcopy(doc)
            elif what == "replace":
                patch = jsonpath.JSONPatch().replace(ptr.value, copy.deepcopy(new))
                want = edit(doc, parts, "replace", copy.deepcopy(new))
            else:
                patch = jsonpath.JSONPatch().remove(ptr.value)
                want = edit(doc, parts, "remove")
            r = impl.call(patch.apply, target)
            detail = {"text": text, "parts": list(parts), "pointer": str(ptr.value), "op": what}
            ptext = str(ptr.value)
            if r.ok and "\\" not in ptext and not any(isinstance(p, str) and (p[:1] in "#~" or gen.over_limit(p)) for p in parts) and ptext == ptext.lstrip() and what in ("test", "remove") and (cls == "flags-history" or ctx.rng.random() < 0.3):
                # the pointer's string form addresses the same location (names that the pointer syntax
                # reads differently - leading blanks, markers, over-limit integers - are left to the object route)
                p2 = getattr(jsonpath.JSONPatch(), what)(*( (ptext, copy.deepcopy(m.obj)) if what == "test" else (ptext,) ))
                r2 = impl.call(p2.apply, copy.deepcopy(doc))
                ctx.count("string_form_route")
                if not r2.ok or not strict_eq(r2.value, want):
                    ctx.violation("%s-through-the-pointer's-string-form-differs" % what, case, dict(detail, outcome=r2.desc() if not r2.ok else canon(r2.value)[:300]))
                    return
            if r.ok and "\\" not in ptext and what in ("test", "replace", "remove") and ctx.rng.random() < 0.25:
                # the pointer written as a URI fragment (RFC 6901 section 6: percent-encoded octets; sub-delimiters such as '+'
                # may stay as they are) and handed to a patch that is asked to decode it
                import urllib.parse

                try:
                    ftext = urllib.parse.quote(ptext, safe="/" + ctx.rng.choice(["", "!$&'()*+,;=:@?"]))
                except UnicodeEncodeError:
                    ftext = None
                if ftext is not None and not any(isinstance(p, str) and (p[:1] in "#~" or gen.over_limit(p) or p != p.lstrip()) for p in parts) and ptext == ptext.lstrip():
                    b = jsonpath.JSONPatch(uri_decode=True)
                    p3 = b.test(ftext, copy.deepcopy(m.obj)) if what == "test" else (b.replace(ftext, copy.deepcopy(new)) if what == "replace" else b.remove(ftext))
                    r3 = impl.call(p3.apply, copy.deepcopy(doc))
                    ctx.count("uri_fragment_route")
                    if not r3.ok or not strict_eq(r3.value, want):
                        ctx.violation("%s-through-the-pointer-written-as-a-uri-fragment-differs" % what, case, dict(detail, fragment=ftext, outcome=r3.desc() if not r3.ok else canon(r3.value)[:300]))
                        return
            if not r.ok:
                ctx.violation("%s-through-match-pointer-failed:%s" % (what, type(r.exc).__name__), case, dict(detail, error=r.desc()))
                return
            if not strict_eq(r.value, want):
                ctx.violation("%s-through-match-pointer-edits-wrong-node" % what, case, dict(detail, got=canon(r.value)[:300], expected=canon(want)[:300]))
                return
            ctx.cell("op_x_class", "%s %s" % (what, "+".join(sorted(classes))[:40]))
        if sel.index(m) < 2:
            # one replace patch applied twice; in between the caller edits the containers inside the first result's new value
            for nv in ({"NEW": ["r", 1]}, (["n"],), {"t": ([], {"k": []})}, [("a", [1])], ((),), [[]]):
                patch = jsonpath.JSONPatch().replace(ptr.value, copy.deepcopy(nv))
                want = edit(doc, parts, "replace", to_plain(nv))
                r1 = impl.call(patch.apply, copy.deepcopy(doc))
                if r1.ok:
                    node = r1.value
                    for p_ in parts:
                        node = node[p_]
                    scribble(node)
                r2 = impl.call(patch.apply, copy.deepcopy(doc))
                ctx.count("replacements_reapplied_after_the_caller_edited_the_first_result")
                if not r1.ok or not r2.ok or not strict_eq(to_plain(r2.value), want):
                    ctx.violation("replace-through-match-pointer-depends-on-what-the-caller-did-with-an-earlier-result", case,
                                  {"text": text, "parts": list(parts), "new_value": repr(nv), "second_result": canon(to_plain(r2.value))[:300] if r2.ok else r2.desc(), "expected": canon(want)[:300]})
                    return
        for c in classes:
            ctx.cell("part_classes", c)
        ctx.count("matches_edited")
    if canon(doc) != orig:
        ctx.violation("original-document-modified", case, {"text": text})
        return
    if ms and (cls in ("names", "flags-history") or ctx.rng.random() < 0.35):
        v = in_place_sequence(ctx, text, doc, orig)
        if v:
            ctx.violation(v[0], case, dict(v[1], text=text))
            return
    if ms and (len(ctx.samples) < 3 or ctx.rng.random() < 0.003):
        ctx.sample({"text": text, "matches": len(ms), "pointers": impl.call(lambda: [str(m.pointer()) for m in ms[:3]]).value})


def _walk(doc, parts):
    """The node at parts by plain indexing with the match's own step kinds (str into objects, int into arrays)."""
    cur = doc
    for p in parts:
        if isinstance(p, str) and isinstance(cur, dict) and p in cur:
            cur = cur[p]
        elif isinstance(p, int) and not isinstance(p, bool) and isinstance(cur, list) and -len(cur) <= p < len(cur):
            cur = cur[p]
        else:
            raise LookupError(p)
    return cur


def _kinds_differ(doc, parts):
    cur = doc
    for p in parts:
        if isinstance(cur, dict):
            if not isinstance(p, str):
                return True
            if p not in cur:
                return False
            cur = cur[p]
        elif isinstance(cur, list):
            if not isinstance(p, int):
                return True
            if not -len(cur) <= p < len(cur):
                return False
            cur = cur[p]
        else:
            return False
    return False


def in_place_sequence(ctx, text, doc, orig):
    """One document object, queried once; the matches and their pointer objects are kept while the caller goes on working
    on that same object: containers above kept matches are replaced by equal copies (by assignment and by a patch through a
    kept pointer), then test / replace / remove patches built from the kept pointers are applied IN PLACE, one after the
    other. After every step the document must equal the harness's model, where the same edit is made by walking the
    match's parts; a kept pointer whose location no longer exists must be refused and leave the document alone."""
    import random

    import jsonpath

    r = random.Random(h(text, orig))
    work = copy.deepcopy(doc)
    o = impl.call(lambda: list(jsonpath.finditer(text, work)))
    if not o.ok:
        return None
    kept = []
    for m in o.value:
        ptr = impl.call(m.pointer)
        if not ptr.ok:
            return None
        if m.parts:
            kept.append((tuple(m.parts), ptr.value, m))
    if not kept:
        return None
    if len(kept) > 12:
        kept = r.sample(kept, 12)
    model = copy.deepcopy(work)
    # refresh: equal copies put where containers above kept matches are
    for parts, ptr, m in kept[:4]:
        for cut in range(1, len(parts)):
            anc = parts[:cut]
            try:
                node = _walk(work, anc)
                par = _walk(work, anc[:-1])
            except LookupError:
                continue
            if not isinstance(node, (dict, list)):
                continue
            if r.random() < 0.5:
                par[anc[-1]] = copy.deepcopy(node)
                ctx.count("in_place_ancestors_refreshed_by_assignment")
            else:
                am = next((x for x in kept if x[0] == anc), None)
                if am is None:
                    par[anc[-1]] = copy.deepcopy(node)
                    ctx.count("in_place_ancestors_refreshed_by_assignment")
                else:
                    rr = impl.call(jsonpath.JSONPatch().replace(am[1], copy.deepcopy(node)).apply, work)
                    ctx.count("in_place_ancestors_refreshed_by_a_patch_through_a_kept_pointer")
                    if not rr.ok or rr.value is not work:
                        return "in-place-refresh-through-kept-pointer-failed", {"parts": list(anc), "outcome": rr.desc() if not rr.ok else "another object returned"}
    if not strict_eq(work, model):
        return "replacing-a-node-by-an-equal-copy-changed-the-document", {"got": canon(work)[:300], "expected": canon(model)[:300]}
    new = {"NEW": ["replacement", 424242]}
    order = list(kept)
    r.shuffle(order)
    for step, (parts, ptr, m) in enumerate(order):
        what = r.choice(["test", "test-other", "replace", "replace", "remove"])
        detail = {"step": step, "op": what, "parts": list(parts), "pointer": str(ptr), "steps_before": [[list(x[0])] for x in order[:step]][:8]}
        markers = any(isinstance(p, str) and p[:1] in "#~" for p in parts)
        try:
            cur = _walk(model, parts)
            there = True
        except LookupError:
            there = False
        if not there and _kinds_differ(model, parts):
            # after earlier steps an integer step now meets an object (or a name an array): RFC 6901 tokens are text,
            # so the pointer may legitimately read 2 as the member "2"; that reading is C04's subject, not judged here
            impl.call(jsonpath.JSONPatch().test(ptr, 0).apply, work)
            ctx.count("in_place_steps_not_judged_step_kind_changed")
            if not strict_eq(work, model):
                return "test-in-place-changed-the-document", detail
            continue
        if what == "test":
            patch = jsonpath.JSONPatch().test(ptr, copy.deepcopy(cur) if there else 0)
            want = model
        elif what == "test-other":
            patch = jsonpath.JSONPatch().test(ptr, ["a value found nowhere in the document"])
            want, there = model, False
        elif what == "replace":
            patch = jsonpath.JSONPatch().replace(ptr, copy.deepcopy(new))
            want = edit(model, parts, "replace", copy.deepcopy(new)) if there else model
        else:
            patch = jsonpath.JSONPatch().remove(ptr)
            want = edit(model, parts, "remove") if there else model
        res = impl.call(patch.apply, work)
        ctx.count("in_place_steps_through_kept_pointers")
        ctx.cell("in_place_op_x_outcome", "%s %s" % (what, "applies" if there else "must be refused"))
        if there:
            if not res.ok:
                return "%s-in-place-through-kept-match-pointer-failed:%s" % (what, type(res.exc).__name__), dict(detail, error=res.desc())
            if res.value is not work and parts:
                return "in-place-application-returned-another-object", detail
        else:
            if res.ok and not markers:
                return "%s-in-place-through-kept-match-pointer-succeeds-where-the-location-does-not-%s" % (what, "hold-that-value" if what == "test-other" else "exist"), dict(detail, document=canon(model)[:300])
            if not res.ok and not isinstance(res.exc, jsonpath.JSONPatchError):
                return "%s-in-place-through-kept-match-pointer-raised-outside-the-documented-family:%s" % (what, type(res.exc).__name__), dict(detail, error=res.desc())
            if res.ok:
                ctx.count("in_place_marker_names_not_judged")
                model = copy.deepcopy(work)
                continue
        if not strict_eq(work, want):
            return "%s-in-place-through-kept-match-pointer-edits-wrong-node" % what, dict(detail, got=canon(work)[:300], expected=canon(want)[:300])
        model = want
    ctx.count("in_place_sequences")
    return None


def run_threads(ctx, rounds):
    """ONE compiled query (slices with negative bounds and steps, wildcards, filters) used by several threads at once, each
    over its own document whose arrays have other lengths than the other threads'; yields injected inside the selectors.
    For every match each thread gets: the pointer must address the node whose value the match carries (test passes with
    the matched value), and replace / remove through it must give the model's document."""
    import jsonpath
    from rt import threads

    texts = ["$.rows[*][-1:]", "$.rows[*][-2:]", "$.rows[*][1::2]", "$.rows[*][::-1]", "$..[1:3]", "$.rows[?@[0] >= 0][-1]", "$.rows[*][:-1]", "$.rows[-1:][0:2]", "$..[-1:]"]
    for rnd in range(rounds):
        text = texts[rnd % len(texts)]
        q = jsonpath.compile(text)
        errors = []

        def worker(wid, rng):
            try:
                for rep in range(6):
                    n = 2 + (wid + rep) % 5
                    doc = {"rows": [["w%d-r%d-%d-%d" % (wid, rep, i, j) for j in range(n + i % 2)] for i in range(2 + wid % 3)], "1": "sibling", "~/": "sibling"}
                    for r_ in doc["rows"]:
                        r_.insert(0, len(r_))
                    ms = list(q.finditer(doc))
                    for m in ms[:8]:
                        parts = tuple(m.parts)
                        ptr = m.pointer()
                        for what in ("test", "replace", "remove"):
                            if what == "test":
                                patch, want = jsonpath.JSONPatch().test(ptr, copy.deepcopy(m.obj)), copy.deepcopy(doc)
                            elif what == "replace":
                                patch, want = jsonpath.JSONPatch().replace(ptr, {"NEW": wid}), edit(doc, parts, "replace", {"NEW": wid})
                            else:
                                patch, want = jsonpath.JSONPatch().remove(ptr), edit(doc, parts, "remove")
                            o = impl.call(patch.apply, copy.deepcopy(doc))
                            if not o.ok or not strict_eq(o.value, want):
                                errors.append({"text": text, "thread": wid, "op": what, "parts": list(parts), "pointer": str(ptr), "matched_value": canon(m.obj)[:80], "document": canon(doc)[:300], "outcome": o.desc() if not o.ok else canon(o.value)[:300]})
                                return
            except Exception as e:  # noqa: BLE001
                errors.append({"text": text, "thread": wid, "raised": "%s: %s" % (type(e).__name__, e)})
        st = threads.stress(worker, nthreads=6, files=("selectors.py", "path.py", "match.py", "filter.py"), seed=ctx.seed * 131 + rnd, prob=0.12)
        ctx.evaluation(36)
        ctx.case(h("threads", text, st["signature"]), True)
        ctx.count("evaluations_of_one_compiled_query_from_threads", 36)
        ctx.count("injected_yields", st["yields"])
        if st["timed_out"]:
            ctx.notes.append("a thread round timed out (inconclusive)")
        if errors:
            ctx.violation("match-pointer-from-a-query-shared-by-threads-edits-wrong-node", {"kind": "threads"}, errors[0])
            return


def run_text_documents(ctx):
    """The document as JSON text (and a text stream), from 150 characters to over 64 Ki: the matches come from the text,
    and every test / replace / remove through a match's pointer is applied to that same, unchanged text again and again -
    a text is immutable, so every application starts from the document the text spells."""
    import io
    import json

    import jsonpath

    for n_rows in (2, 54, 56, 120, 880, 900):
        doc = {"1": "one", "-1": "neg", "007": "bond", "~": "tilde", "/": "slash", "": "empty", "\u00e9": "acute", "rows": [{"id": i, "tags": ["t%d" % i, "x"]} for i in range(n_rows)]}
        text = json.dumps(doc)
        new = {"NEW": ["replacement", 424242]}
        for qtext in ("$.rows[0,1].id", "$.*", "$.rows[-1].tags[0]", "$['1','-1','007','~','/','','\u00e9']", "$.rows[?@.id < 2]"):
            ms = impl.call(lambda: list(jsonpath.finditer(qtext, text)))
            if not ms.ok:
                ctx.violation("query-over-a-text-document-raised:%s" % type(ms.exc).__name__, {"text_documents": True}, {"text": qtext, "error": ms.desc()})
                return
            for m in ms.value[:8]:
                parts = tuple(m.parts)
                ptr = m.pointer()
                for rep in range(2):
                    for what in ("replace", "remove", "test", "replace"):
                        if what == "test":
                            patch, want = jsonpath.JSONPatch().test(ptr, copy.deepcopy(walk_parts(doc, parts))), copy.deepcopy(doc)
                        elif what == "replace":
                            patch, want = jsonpath.JSONPatch().replace(ptr, copy.deepcopy(new)), edit(doc, parts, "replace", copy.deepcopy(new))
                        else:
                            patch, want = jsonpath.JSONPatch().remove(ptr), edit(doc, parts, "remove")
                        for form in ("text", "stream"):
                            o = impl.call(patch.apply, text if form == "text" else io.StringIO(text))
                            ctx.evaluation()
                            ctx.count("edits_of_one_json_text_document_through_match_pointers")
                            if not o.ok or not strict_eq(o.value, want):
                                ctx.violation("%s-through-match-pointer-on-a-text-document-used-before-differs" % what, {"text_documents": True}, {"query": qtext, "parts": list(parts), "op": what, "text_length": len(text), "form": form, "application": rep + 1, "outcome": o.desc() if not o.ok else "rows=%d, keys=%s" % (len(o.value.get("rows", [])), sorted(o.value)[:9])})
                                return
        ctx.cell("text_document_sizes", "%d characters" % len(text))
        ctx.case(h("text-doc", n_rows), True)


def walk_parts(doc, parts):
    cur = doc
    for p in parts:
        cur = cur[p]
    return cur


def flags_history(ctx):
    """Matches of members whose names contain %XX or \\uXXXX sequences, edited through the
    pointer's string form by a default patch AFTER differently configured patches saw the same text."""
    import jsonpath
    from rt import flag_history, ref_pointer as rp

    flag_history.run(ctx, max_orders=3)
    doc = {"a%20b": "u1", "a b": "u2", "100%25": {"x%2Fy": "u3", "x/y": "u4"}, "caf%C3%A9": "u5", "café": "u6", "items": [{"100%25": "u7", "100%": "u8"}]}
    for m in list(jsonpath.finditer("$..*", doc)):
        text = str(m.pointer())
        for ue, ud in rp.FLAG_SETTINGS[1:]:
            impl.call(lambda: jsonpath.JSONPatch(unicode_escape=ue, uri_decode=ud).test(text, 0))
            impl.call(lambda: jsonpath.JSONPatch([{"op": "test", "path": text, "value": 0}], unicode_escape=ue, uri_decode=ud))
    check_case(ctx, "$..*", doc, "flags-history")
    check_case(ctx, "$.*", doc, "flags-history")


def run(spec, ctx):
    hooks.install_h2()
    r = ctx.rng
    if spec.get("kind") == "flags":
        flags_history(ctx)
        run_text_documents(ctx)
        return
    if spec.get("kind") == "threads":
        run_threads(ctx, spec["rounds"])
        return
    if spec.get("kind") == "scale":
        # edits far into long arrays (multi-digit indices, sizes around powers of two) and far down deep documents
        for n in (9, 10, 11, 100, 101, 1000, 4097):
            doc = {"a": [{"id": i, "10": [i]} for i in range(n)], "10": {"9": "x", "10": "y", "11": "z"}}
            for text in ("$.a[-1]", "$.a[%d].id" % (n - 1), "$.a[9:12]" if n > 9 else "$.a[7:9]", "$.a[?@.id >= %d]" % (n - 2), "$.a[%d]['10'][0]" % (n // 2), "$['10'].*", "$.a[-2:]['10']"):
                check_case(ctx, text, doc, "scale")
            ctx.cell("scale", "length=%d" % n)
        for depth in (50, 101, 150, 250):
            v = {"leaf": ["bottom", depth], "10": depth}
            for i in range(depth):
                v = {"c": v, "s": i} if i % 2 else [i, v]
            for text in ("$..leaf[0]", "$..['10']", "$..leaf"):
                check_case(ctx, text, v, "scale")
            ctx.cell("scale", "depth=%d" % depth)
        return
    if spec["shard"] == 0:
        for name in gen.ALL_NAMES:
            doc = {name: {name: ["u1", {name: "u2"}], "k": "u3"}, "arr": [{name: "u4"}, "u5"], "sib": "u6"}
            for text in ("$..*", "$.*", "$..[0]", "$..[-1]"):
                check_case(ctx, text, doc, "names")
    for _ in range(spec["n"]):
        doc = gen.gen_doc(r, profile=r.choice(["unique", "unique", "mixed"]), hostile=r.choice([0.6, 0.95]), max_depth=r.randint(2, 4), fan=r.randint(2, 4))
        for _q in range(2):
            ast = gen.gen_std_query(r, doc, max_segs=3, desc=0.35)
            check_case(ctx, Renderer(r, blanks=0.1).top(ast), doc, "random")


def finalize(m, tier):
    inc = []
    pc = m["matrices"].get("part_classes", {})
    for c in ("plain", "reserved", "digits", "punct", "quote", "ctrl", "unicode", "index"):
        if not pc.get(c):
            inc.append("no match with a %s step was edited" % c)
    if m["counters"].get("matches_edited", 0) < 2000:
        inc.append("too few matches edited")
    return {"inconclusive": inc}


def replay(case, ctx):
    if case.get("kind") == "threads":
        run_threads(ctx, 90)
        return
    if case.get("text_documents"):
        run_text_documents(ctx)
        return
    if case.get("flags") or case.get("class") == "flags-history":
        flags_history(ctx)
        return
    check_case(ctx, case["text"], case["doc"], case.get("class", "replay"))
