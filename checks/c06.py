"""C06 - only the documented error families ever escape; every call terminates.

Boundary recorder: every call into the API is classified by isinstance at the boundary
(compile/evaluate: JSONPathError; pointer construction: JSONPointerError or
RelativeJSONPointerError; resolution: JSONPointerResolutionError; patch build/apply:
JSONPatchError); str()/repr() of every family error must succeed.  T2 (RAISE census)
shows which built-in exceptions were raised inside jsonpath code and therefore had to be
translated.  Termination is restated as bounded progress: a per-case SIGALRM watchdog
(20 s; typical case < 5 ms); an expiry is re-run alone in a fresh process (200 s) and is a
violation only if it expires again outside the regular-expression engine.
"""
from __future__ import annotations

import copy
import json
import os
import signal
import subprocess
import sys

from rt import fuzz, gen, impl, ref_pointer as rp
from rt.jsonval import h

from .c10 import gen_case
from .c15 import gen_ops
from .c05 import DOCS as PATCH_DOCS

ID = "C06"
LEVEL = "exploration"
RULE = (
    "mutation- and token-soup-fuzzed texts around rendered valid queries, pointers, relative pointers and patch lists (unterminated quotes and regexes, "
    "exponent and oversized numbers, lone signs, reserved words, custom-looking tokens); every compiled survivor is evaluated against its own document "
    "and documents of every JSON type at the root; pointer texts in both decoding modes and with URI decoding; patch lists with wrong member types, "
    "missing members and non-mapping items applied to documents of every type. A case is one input text/list; non-trivial when it was accepted (and "
    "evaluated) or raised inside the library; distinct by hash."
)
ASSUMPTIONS = [
    "inputs nest at most 60 levels (the claim excludes > 100); documents are Python values, never malformed text",
    "time inside `re` on a caller-supplied pattern is outside the claim; all other wall-clock is bounded by the watchdog, whose first expiry is only 'inconclusive'",
]
SHARD_TIMEOUT = {"quick": 900, "thorough": 3600}

ROOT_DOCS = [1, "s", True, None, 1.5, [], {}, "12", [1, "a", None, True, [2], {"a": 1}], {"a": "x", "b": [1, 2], "c": None, "d": 1.5, "": {"a": "hello"}}]


class Timeout(Exception):
    pass


class TooManySuspects(Exception):
    """Four watchdog expiries in one shard: stop the workload and confirm them in isolation."""


LAST_STACK = []


def _alarm(signum, frame):
    import traceback

    LAST_STACK[:] = ["%s:%s" % (fs.filename, fs.name) for fs in traceback.extract_stack(frame)][-6:]
    raise Timeout()


def guarded(fn, seconds=None):
    seconds = seconds or int(os.environ.get("VERIF_C06_WATCHDOG", "20"))
    old = signal.signal(signal.SIGALRM, _alarm)
    signal.alarm(seconds)
    try:
        return impl.call(fn)
    finally:
        signal.alarm(0)
        signal.signal(signal.SIGALRM, old)


def expand(v):
    """{"$huge": n} stands for the integer 10**n (n > 4300: more digits than the interpreter converts to text, so it
    cannot be written into a replay file literally); expanded just before the library is called."""
    if isinstance(v, dict):
        if set(v) == {"$huge"}:
            return 10 ** v["$huge"]
        if set(v) == {"$hugeneg"}:
            return -(10 ** v["$hugeneg"])
        return {k: expand(x) for k, x in v.items()}
    if isinstance(v, list):
        return [expand(x) for x in v]
    return v


def render_ok(exc):
    try:
        str(exc)
        repr(exc)
        return None
    except Exception as e:  # noqa: BLE001
        return "%s while rendering %s" % (type(e).__name__, type(exc).__name__)


def nesting(text):
    d = m = 0
    for ch in text:
        if ch in "([":
            d += 1
            m = max(m, d)
        elif ch in ")]":
            d = max(0, d - 1)
    return m


def classify(ctx, o, family, boundary, case):
    """family: tuple of allowed exception classes at this boundary."""
    if len(ctx.samples) < 6 and ctx.rng.random() < 0.01:
        ctx.sample({"boundary": boundary, "input": repr(case.get("text", case.get("ops")))[:160], "outcome": o.desc()[:120]})
    if o.ok:
        ctx.cell("boundary_outcomes", "%s ok" % boundary)
        return True
    if isinstance(o.exc, Timeout):
        ctx.count("watchdog_expired")
        SUSPECTS.append(case)
        if len(SUSPECTS) >= 4:
            raise TooManySuspects()
        return False
    if isinstance(o.exc, RecursionError) and case.get("deep"):
        return False
    if not isinstance(o.exc, family):
        ctx.violation("foreign-exception-escaped:%s:%s@%s" % (boundary, type(o.exc).__name__, o.site), case, {"boundary": boundary, "error": o.desc(), "site": o.site, "input": repr(case.get("text", case.get("ops")))[:300]})
        return False
    bad = render_ok(o.exc)
    if bad:
        ctx.violation("error-rendering-failed:%s" % type(o.exc).__name__, case, {"boundary": boundary, "problem": bad})
        return False
    ctx.cell("boundary_outcomes", "%s %s" % (boundary, type(o.exc).__name__))
    return False


SUSPECTS = []


CANARY = {"n": 0}


def canary(ctx):
    """After rejected inputs the library must still answer known-good requests correctly."""
    import jsonpath

    CANARY["n"] += 1
    if CANARY["n"] % 40:
        return
    ok = True
    try:
        ok = ok and jsonpath.findall("$.a[?@.b > 1].b", {"a": [{"b": 1}, {"b": 2}]}) == [2]
        ok = ok and jsonpath.findall("$..['x','y'] | ^[?@.z]", {"x": 1, "k": {"y": 2}, "z": 0}) == [1, 2, {"x": 1, "k": {"y": 2}, "z": 0}]
        ok = ok and jsonpath.JSONPointer("/a~1b/0").resolve({"a/b": [7]}) == 7
        ok = ok and str(jsonpath.JSONPointer("/0/1").to("1+2/x")) == "/2/x"
        ok = ok and jsonpath.patch.apply([{"op": "add", "path": "/l/-", "value": 1}, {"op": "move", "from": "/a", "path": "/b"}], {"l": [], "a": 1}) == {"l": [1], "b": 1}
    except Exception as e:  # noqa: BLE001
        ok = False
        ctx.violation("library-stops-working-after-earlier-inputs:%s" % type(e).__name__, {"kind": "canary"}, {"error": "%s: %s" % (type(e).__name__, e)})
        return
    ctx.count("canary_checks")
    if not ok:
        ctx.violation("library-gives-wrong-answers-after-earlier-inputs", {"kind": "canary"}, {})


_OPT_ENV = []
_REENTRANT = {}


def option_env():
    """An environment with the documented non-default options of the function extensions switched on."""
    if not _OPT_ENV:
        import jsonpath
        from jsonpath import function_extensions as fx

        env = jsonpath.JSONPathEnvironment()
        env.function_extensions["typeof"] = fx.TypeOf(single_number_type=False)
        env.function_extensions["type"] = env.function_extensions["typeof"]
        _OPT_ENV.append(env)
    return _OPT_ENV[0]


def query_case(ctx, text, docs, options=False):
    import jsonpath

    canary(ctx)
    case = {"kind": "query", "text": text, "docs": docs}
    if options == "reentrant":
        # an environment whose function extension compiles (validate hook) and evaluates (call) queries with the same
        # environment while a compile / an evaluation is under way
        from .c10 import reentrant_env

        if "re" not in _REENTRANT:
            _REENTRANT["re"] = reentrant_env()
        case["options"] = "reentrant"
        jsonpath = _EnvFacade(jsonpath, _REENTRANT["re"])
    elif options:
        case["options"] = True
        jsonpath = _EnvFacade(jsonpath, option_env())
    ctx.evaluation()
    if nesting(text) > 60 or len(text) > 20000:
        ctx.count("skipped_too_deep_or_long")
        return
    c = guarded(lambda: jsonpath.compile(text))
    accepted = classify(ctx, c, (jsonpath.JSONPathError,), "compile", case)
    ctx.case(h("q", text), accepted or (not c.ok))
    if not accepted:
        ctx.count("query_rejected")
        return
    ctx.count("query_accepted")
    s = guarded(lambda: str(c.value))
    if not s.ok:
        ctx.violation("str-of-compiled-query-raised:%s" % type(s.exc).__name__, case, {"error": s.desc()})
    for d in docs:
        d2 = copy.deepcopy(expand(d))
        o = guarded(lambda: [m.obj for m in c.value.finditer(d2, filter_context=gen.CTX_DEFAULT)])
        classify(ctx, o, (jsonpath.JSONPathError,), "evaluate", dict(case, doc=d))
        if o.ok and isinstance(d2, (dict, list)) and ctx.rng.random() < 0.08:
            # the same document handed over as a stream that the caller closes (or rewinds for another call) as soon as
            # the lazy entry point has returned
            import io

            try:
                jt = json.dumps(d2)
            except (TypeError, ValueError):
                jt = None
            if jt is not None:
                def lazy(which):
                    if which in ("one-way", "pipe"):
                        # a stream that can only be read forwards (a pipe, a socket, a response body)
                        st = one_way_stream(jt, which == "pipe")
                        try:
                            ctx.count("documents_read_from_streams_that_cannot_seek")
                            return c.value.findall(st), jsonpath.pointer.resolve("", one_way_stream(jt, False))
                        finally:
                            st.close()
                    st = io.StringIO(jt) if which != "bytes" else io.BytesIO(jt.encode("utf-16"))
                    res = c.value.finditer(st) if which != "query" else c.value.query(st)
                    if which == "rewound":
                        st.seek(0)
                        other = c.value.finditer(st)
                        return [m.obj for m in res], [m.obj for m in other]
                    st.close()
                    return [m.obj for m in res]
                for which in ("text", "bytes", "query", "rewound", "one-way", "pipe"):
                    classify(ctx, guarded(lambda: lazy(which)), (jsonpath.JSONPathError,), "evaluate(stream closed or rewound after the call)", dict(case, doc=d))


def one_way_stream(text, real_pipe):
    import io
    import os

    if real_pipe and len(text) < 30000:
        rd, wr = os.pipe()
        os.write(wr, text.encode("utf-8"))
        os.close(wr)
        return os.fdopen(rd, "r", encoding="utf-8")

    class OneWay(io.TextIOBase):
        def __init__(self, t):
            self._inner = io.StringIO(t)

        def readable(self):
            return True

        def seekable(self):
            return False

        def read(self, size=-1):
            return self._inner.read(size)

    return OneWay(text)


class _EnvFacade:
    """`jsonpath`-module look-alike whose compile() goes to another environment (error classes from the module)."""

    def __init__(self, mod, env):
        self._mod, self._env = mod, env

    def compile(self, text):  # noqa: A003
        return self._env.compile(text)

    def __getattr__(self, name):
        return getattr(self._mod, name)


def pointer_case(ctx, text, docs):
    import jsonpath
    from jsonpath import JSONPointer, RelativeJSONPointer

    ctx.evaluation()
    fam = (jsonpath.JSONPointerError, jsonpath.RelativeJSONPointerError)
    any_ok = False
    for ue in (True, False):
        for ud in (False, True):
            case = {"kind": "pointer", "text": text, "unicode_escape": ue, "uri_decode": ud, "docs": docs}
            c = guarded(lambda: JSONPointer(text, unicode_escape=ue, uri_decode=ud))
            if not classify(ctx, c, fam, "JSONPointer()", case):
                continue
            any_ok = True
            p = c.value
            for fn, name in ((lambda: str(p), "str"), (lambda: p.parent(), "parent"), (lambda: p / "x~1y", "join"), (lambda: hash(p), "hash"), (lambda: p == JSONPointer("/a"), "eq"), (lambda: repr(p), "repr")):
                o = guarded(fn)
                classify(ctx, o, fam, "pointer." + name, case)
            for d in docs:
                o = guarded(lambda: p.resolve(copy.deepcopy(expand(d))))
                classify(ctx, o, (jsonpath.JSONPointerResolutionError,), "resolve", dict(case, doc=d))
                o = guarded(lambda: p.exists(copy.deepcopy(d)))
                classify(ctx, o, (jsonpath.JSONPointerResolutionError,), "exists", dict(case, doc=d))
                o = guarded(lambda: p.resolve_parent(copy.deepcopy(d)))
                classify(ctx, o, (jsonpath.JSONPointerResolutionError,), "resolve_parent", dict(case, doc=d))
                o = guarded(lambda: jsonpath.pointer.resolve(text, copy.deepcopy(d), default=None, unicode_escape=ue, uri_decode=ud))
                classify(ctx, o, fam, "pointer.resolve(default)", dict(case, doc=d))
    # the same tokens handed over as parts (a list, a one-shot iterable) under every decoding option
    raw_parts = text.split("/")[1:] if text.startswith("/") else [text]
    for ue in (True, False):
        for ud in (False, True):
            case = {"kind": "pointer", "text": text, "unicode_escape": ue, "uri_decode": ud, "docs": docs, "as_parts": True}
            for name, fn in (("from_parts", lambda: JSONPointer.from_parts(list(raw_parts), unicode_escape=ue, uri_decode=ud)), ("from_parts(iterator)", lambda: JSONPointer.from_parts(iter(raw_parts), unicode_escape=ue, uri_decode=ud))):
                c = guarded(fn)
                if classify(ctx, c, fam, name, case):
                    classify(ctx, guarded(lambda: str(c.value)), fam, name + ".str", case)
            for d in docs[:2]:
                o = guarded(lambda: jsonpath.pointer.resolve(list(raw_parts), copy.deepcopy(expand(d)), default=None, unicode_escape=ue, uri_decode=ud))
                classify(ctx, o, fam, "pointer.resolve(parts, default)", dict(case, doc=d))
                o = guarded(lambda: jsonpath.pointer.resolve(iter(raw_parts), copy.deepcopy(expand(d)), unicode_escape=ue, uri_decode=ud))
                classify(ctx, o, fam, "pointer.resolve(parts)", dict(case, doc=d))
    ctx.count("pointer_texts_also_given_as_parts")
    ctx.case(h("p", text), True)
    ctx.count("pointer_accepted" if any_ok else "pointer_rejected")
    # the same text as a relative pointer, and applied to bases
    case = {"kind": "relative", "text": text}
    c = guarded(lambda: RelativeJSONPointer(text))
    if classify(ctx, c, fam, "RelativeJSONPointer()", case):
        ctx.count("relative_accepted")
        for base in ("", "/a/1", "/0", "/a/b/c", "/1/2/3", "/a/\u00b2", "/\u2460", "/a/\u2082\u2083/b", "/\u0663", "/a/\uff11", "/x/1\u00b2", "/a/+1", "/a/1_0", "/a/ 1", "/a/" + "9" * 16, "/a/" + "9" * 17, "/a/-0"):
            o = guarded(lambda: c.value.to(base))
            classify(ctx, o, fam, "relative.to", dict(case, base=base))
            o = guarded(lambda: JSONPointer(base).to(text))
            classify(ctx, o, fam, "pointer.to", dict(case, base=base))
        classify(ctx, guarded(lambda: str(c.value)), fam, "relative.str", case)


def patch_case(ctx, ops, docs):
    import jsonpath

    ctx.evaluation()
    case = {"kind": "patch", "ops": ops, "docs": docs}
    try:
        key = h("patch", json.dumps(ops, default=repr))
    except Exception:  # noqa: BLE001
        key = h("patch", repr(ops))
    ctx.case(key, True)
    ops, docs = expand(ops), [expand(d) for d in docs]
    c = guarded(lambda: jsonpath.JSONPatch(copy.deepcopy(ops)))
    if not classify(ctx, c, (jsonpath.JSONPatchError,), "JSONPatch()", case):
        ctx.count("patch_rejected")
        return
    ctx.count("patch_built")
    case = dict(case)
    for d in docs:
        o = guarded(lambda: c.value.apply(copy.deepcopy(d)))
        classify(ctx, o, (jsonpath.JSONPatchError,), "patch.apply", case)
    classify(ctx, guarded(lambda: c.value.asdicts()), (jsonpath.JSONPatchError,), "asdicts", case)
    o = guarded(lambda: jsonpath.patch.apply(copy.deepcopy(ops), copy.deepcopy(docs[0])))
    classify(ctx, o, (jsonpath.JSONPatchError,), "patch.apply(fn)", case)
    # the builder API given pointer OBJECTS built from parts or by a relative pointer
    if isinstance(ops, list) and all(isinstance(op, dict) and isinstance(op.get("path"), str) for op in ops):
        def obj(text, how):
            try:
                toks = rp.decode(text)
            except ValueError:
                return text
            if how == "from_parts":
                return jsonpath.JSONPointer.from_parts(toks, unicode_escape=False)
            return jsonpath.JSONPointer("/zz").to("1" + rp.encode(toks), unicode_escape=False)
        for how in ("from_parts", "relative"):
            def build():
                b = jsonpath.JSONPatch()
                for op in copy.deepcopy(ops):
                    name = op.get("op")
                    if name in ("add", "addne", "addap", "replace", "test") and "value" in op:
                        getattr(b, name)(obj(op["path"], how), op["value"])
                    elif name == "remove":
                        b.remove(obj(op["path"], how))
                    elif name in ("move", "copy") and isinstance(op.get("from"), str):
                        getattr(b, name)(obj(op["from"], how), obj(op["path"], how))
                return b
            bb = guarded(build)
            if classify(ctx, bb, (jsonpath.JSONPatchError, jsonpath.JSONPointerError, jsonpath.RelativeJSONPointerError), "builder(pointer objects:%s)" % how, case):
                for d in docs[:2]:
                    o = guarded(lambda: bb.value.apply(copy.deepcopy(d)))
                    classify(ctx, o, (jsonpath.JSONPatchError,), "builder(pointer objects:%s).apply" % how, dict(case, doc=d))


def mutate_ops(r, ops):
    ops = copy.deepcopy(ops)
    k = r.random()
    if not ops or k < 0.1:
        return r.choice([[], [1], ["add"], [None], [[]], [{}], 5, "[]", {"op": "add"}, [{"op": None}], [{"op": "add", "path": None, "value": 1}], None, [{"op": "nop", "path": ""}]])
    i = r.randrange(len(ops))
    op = ops[i]
    if not isinstance(op, dict):
        ops[i] = {"op": "add", "path": "/a", "value": 1}
        return ops
    if k < 0.3:
        if op:
            op.pop(r.choice(list(op)), None)
    elif k < 0.5:
        key = r.choice(["path", "from", "op", "value"])
        op[key] = r.choice([None, 1, [], {}, True, "", "a", "/", "~", "/~", "/~2", "/a\\", "/\\u00", "/%zz", "/-/-", "/#", "/a/#b", "/" + "9" * 25, "-1", " /a", "/\ud800" if False else "/é"])
    elif k < 0.75:
        key = r.choice(["path", "from"]) if "from" in op else "path"
        if isinstance(op.get(key), str):
            op[key] = fuzz.mutate_once(r, op[key], [])
    elif k < 0.85:
        ops[i] = r.choice([1, "x", None, [], ["op", "add"]])
    else:
        op["op"] = r.choice(["add", "remove", "replace", "move", "copy", "test", "addne", "addap", "ADD", "", None, 1])
    return ops


POINTER_ALPHA = "/~01-#+ aé\\u%2F2fz\n퟿"


def gen_pointer_text(r, seeds):
    k = r.random()
    if k < 0.35:
        toks = [r.choice(gen.ALL_NAMES + ["0", "1", "-", "#", "#0", "~a", "%2F", "\\u0041", "\\", "\\u00", "\\ud83d\\ude00"]) for _ in range(r.randint(0, 4))]
        return rp.encode(toks)
    if k < 0.7:
        toks = [r.choice(gen.ALL_NAMES + ["0", "1", "-"]) for _ in range(r.randint(0, 3))]
        return fuzz.mutate(r, rp.encode(toks), seeds)
    if k < 0.85:
        return "%d%s%s" % (r.choice([0, 1, 2, 10, 0, 0]), r.choice(["", "+1", "-1", "+10", "-12", "+0", "+", "-"]), r.choice(["", "#", "/a", "/0/é", "#x", "/~", "/a\\"]))
    return "".join(r.choice(POINTER_ALPHA) for _ in range(r.randint(0, 8)))


def plan(tier, seed):
    q = tier == "quick"
    specs = [{"kind": "query", "n": 3000 if q else 40000} for _ in range(9 if q else 30)]
    specs += [{"kind": "pointer", "n": 2500 if q else 30000} for _ in range(3 if q else 8)]
    specs += [{"kind": "patch", "n": 3000 if q else 40000} for _ in range(3 if q else 8)]
    specs += [{"kind": "directed"}, {"kind": "threads", "rounds": 12 if q else 120}]
    return specs


DIRECTED_QUERIES = [
    "$[?@.a =~ /a{99999999999}/]", "$[?match(@.a, 'a{99999999999}')]", "$[?search(@.a, '(?a)(?u)a')]", "$[?match(@.a, @.b)]", "$[?@.a =~ /(?a)(?u)a/]", "$[?@.a =~ /a{2,1}/]", "$[?match(@.a, '[z-a]')]", "$[?search(@.a, '(?P<n>a)(?P<n>b)')]",
    "$[" + "9" * 4300 + "]", "$[:" + "9" * 4300 + "]", "$[?@.a == " + "9" * 4300 + "]", "$[?@[-" + "9" * 4300 + "]]", "$[?@.a == 1e" + "9" * 4300 + "]", "$[" + "9" * 4299 + ":]",
    "$[" + "1" * 4301 + "]", "$[:" + "1" * 4301 + "]", "$[?@.a == " + "7" * 4301 + "]", "$[?@.a == " + "7" * 400 + ".5]", "$[?@.a == 1e" + "9" * 4301 + "]", "$[?@[" + "1" * 4301 + "]]",
    "$[1e2]", "$[1e400]", "$[?@.a == 1e400]", "$[?@.a == 1.0e400]", "$[?@.a == -1e400]", "$[?@.a =~ /(/]", "$[?@.a =~ /a\\/b/]", "$[?@.a =~ /[/]", "$[?1 in 'abc']", "$[?@ in 'abc']",
    "$[?count(@) == 1]", "$[?value(@) == 1]", "$[?length(@) == 1]", "$[-:]", "$[:-]", "$[::-]", "$[+1]", "$[1:+2]", "$[?@.a == +1]", "$[?@.a == -]", "$[?@ == 1e]", "$[?@ == 1e+]", "$[?@ == .5]", "$[?@ == 1.]",
    "$[?@ in {}]", "$[?[] in @]", "$[?[1] contains @]", "$[?@ contains [1]]", "$[?@.a contains @.b]", "$[?@.a in @.b]", "$[?{} == @]", "$['\\ud800']", "$['\\u']", "$['\\x']", "$[\"\\']", "$['", "$[\"", "$[?@ == '",
    "$[?@ =~ /a", "$[?@ =~ //]", "$[?match(@, '(')]", "$[?search(@, '[')]", "$[?match(@, 1)]", "$[?match(1, @)]", "$[?typeof(@) == 'x']", "$[?isinstance(@, 'x')]", "$[?is(@.a, 1)]", "$[?type(@.a.b) == 'number']", "$[?keys(@)]", "$[?keys(@) == 1]",
    "$[?length(keys(@)) == 1]", "$[?foo(@)]", "$[?@.a == undefined]", "$[?undefined]", "$[?missing == missing]", "$[?#]", "$[?# in #]", "$[?_ in _]", "$[?^]", "$[?^ == ^]", "$[?$ == $]", "$ | ", "| $", "$ & & $", "$ |", "^^", "$$", "@", "#", "~", "_", "$.~.~", "$..", "$...a", "$.", "$[", "$]", "$[?]", "$[?()]", "$[?(@]", "$[?@)]",
    "$[?!]", "$[?!!@]", "$[?@ &&]", "$[?|| @]", "$[?@ == ]", "$[?== @]", "$[?@ < < 1]", "$[?@ <> <> 1]", "$[0:1:2:3]", "$[:::]", "$[1 2]", "$[1,,2]", "$[,]", "$[*,]", "$[99999999999999999999]", "$[-99999999999999999999]", "$[0:99999999999999999999]",
    "$[?@[99999999999999999999]]", "$[?@.a == 99999999999999999999]", "$[?@.a == 1e3]", "$[?@.a == 12e-1]", "$[?length(@, @)]", "$[?length()]", "$[?count(1)]", "$[?value(1) == 1]", "$[?match(@)]", "$[?length(@.*) == 1]", "$[?@.* == 1]",
]


def long_unterminated():
    """Unterminated quotes, regexes and brackets followed by long runs (bounded progress on the
    library's own lexer rules; typical cost is microseconds)."""
    out = []
    for n in (30, 60, 200):
        run = ("abc def_" * 40)[:n]
        out += ["$[\"" + run, "$['" + run, "$[?@.a == \"" + run, "$[?@.a == '" + run + "]", "$.it's_" + run.replace(" ", "_"), "$[?@.a =~ /" + run, "$[?@.a =~ /(" + run + "/]",
                "$['a" + "\\\\" * (n // 2), "$[\"" + "\\\"" * (n // 2), "$" + "[" * 50 + run, "$[?" + "(" * 50 + "@.a", "$[?@.a == 1" + ")" * n, "$." + run.replace(" ", ".") + "'", "$[?match(@.a, '" + "(a*)*" * 4 + run]
    return out


def long_runs():
    """One character (or two-character group) repeated many times after every kind of opener, closed or left open: a rule
    of the library's own lexer that can match a run in more than one way turns such an input into exponential work.
    Typical cost is microseconds per text."""
    openers = ["$[\"", "$['", "$[?@.a == \"", "$[?@.a == '", "$[?@.a =~ /", "$[?match(@.a, '", "$.", "$[", "$[?", "$[?@.a == ", "$..", "$[?@.a =~ /a", "$[?@['"]
    units = ["\\", "/", "'", "\"", "(", ")", "[", ".", " ", "\\/", "\\\"", "\\'", "a", "*", "!", "-", "1", "\u00e9", "$", "@", "&", "|", "#", "~", "^", "_", "e", "+", "\\u", "\\\\", "\t", "0", "=", "<", "?", ":", ","]
    out = []
    for op in openers:
        for u in units:
            for n in (40, 64, 121):
                for tail in ("", "d]", "/]", "']"):
                    out.append(op + u * n + tail)
    return out


def run(spec, ctx):
    try:
        run_workload(spec, ctx)
    except TooManySuspects:
        ctx.notes.append("workload stopped after 4 watchdog expiries")
    # confirm watchdog suspects in isolation
    for case in SUSPECTS[:3]:
        confirm_hang(ctx, case)
    ctx.count("raise_events_seen_inside_jsonpath", sum(__import__("rt.mon", fromlist=["x"]).raises_snapshot().values()))


def run_threads(ctx, rounds):
    """8 threads build pointers, relative pointers, patches and queries from texts full of escapes (known, unknown,
    octal, truncated) at once, in a process where deprecation warnings raised from the library's modules are errors
    (yields injected in pointer.py and in the warnings machinery): every call ends in a value or in an error of the
    family of its boundary, never in a warning-turned-exception or anything else."""
    import warnings

    import jsonpath
    from jsonpath import JSONPointer, RelativeJSONPointer

    from rt.threads import stress

    r = ctx.rng
    texts = ["/caf\\777/x", "/a\\400", "/\\g<0>", "/\\8", "/\\9\\u00e9", "/ok/\\x41", "/\\ud83d\\ude00", "/\\", "/a\\u12", "/plain/~0~1", "/\\N{BULLET}", "/\\e\\777\\u0041"]
    fam = (jsonpath.JSONPointerError, jsonpath.RelativeJSONPointerError, jsonpath.JSONPatchError)
    with warnings.catch_warnings():
        for cat in (DeprecationWarning, PendingDeprecationWarning):
            warnings.filterwarnings("error", category=cat, module=r"jsonpath(\.|$)")
        for _round in range(rounds):
            errors = []
            calls = [0]

            def worker(wid, rr):
                for _ in range(40):
                    t = rr.choice(texts) + rr.choice(["", "/k%d" % rr.randrange(99), "\\777"])
                    for fn in (lambda: JSONPointer(t), lambda: RelativeJSONPointer("0" + t), lambda: JSONPointer("/z").to("1" + t), lambda: jsonpath.JSONPatch().add(t, 1), lambda: jsonpath.JSONPatch([{"op": "test", "path": t, "value": 1}]),
                               lambda: JSONPointer(t).resolve({"a": 1}, default=None)):
                        calls[0] += 1
                        try:
                            fn()
                        except fam:
                            pass
                        except BaseException as e:  # noqa: BLE001
                            errors.append({"text": t, "thread": wid, "error": "%s: %s" % (type(e).__name__, str(e)[:160])})
                            return

            st = stress(worker, nthreads=8, files=("pointer.py", "warnings.py", "patch.py"), seed=r.random(), prob=0.15)
            ctx.evaluation(calls[0])
            ctx.count("concurrent_boundary_calls_with_warnings_as_errors", calls[0])
            ctx.count("yields_injected", st["yields"])
            ctx.cell("thread_interleaving_signatures", st["signature"])
            for e in errors[:2]:
                ctx.violation("foreign-exception-escaped-under-threads:%s" % e["error"].split(":")[0], {"kind": "threads"}, e)
            if errors:
                return
    # queries whose filters use hundreds of distinct regular expressions taken from the document (more than any pattern cache
    # holds), evaluated by 8 threads at once through one environment: matches or JSONPath errors, nothing else, and the
    # right matches
    for _round in range(max(2, rounds // 4)):
        errors = []
        queries = [jsonpath.compile(t) for t in ("$[?match(@.s, @.p)]", "$[?search(@.s, @.p)]", "$[?@.s =~ /t[0-9]+r.*/ && match(@.s, @.p)]", "$[?!search(@.s, @.q)]")]

        def worker2(wid, rr):
            for rep in range(2):
                docs_ = [{"s": "t%dr%dn%d" % (wid, rep, i), "p": "t%dr%dn%d" % (wid, rep, i) if i % 3 else "t%d.*n%d" % (wid, i), "q": "^zz%d_%d_%d" % (wid, rep, i)} for i in range(120)]
                for q in queries:
                    try:
                        got = q.findall(docs_)
                    except jsonpath.JSONPathError:
                        continue
                    except BaseException as e:  # noqa: BLE001
                        errors.append({"query": str(q), "thread": wid, "error": "%s: %s" % (type(e).__name__, str(e)[:160])})
                        return
                    if len(got) != len(docs_):
                        errors.append({"query": str(q), "thread": wid, "error": "wrong-result: %d of %d selected" % (len(got), len(docs_))})
                        return
        st = stress(worker2, nthreads=8, files=("match.py", "search.py"), seed=r.random(), prob=0.05)
        ctx.evaluation(8 * 2 * 4)
        ctx.count("filters_with_hundreds_of_distinct_patterns_under_threads", 8 * 2 * 4)
        ctx.count("yields_injected", st["yields"])
        for e in errors[:2]:
            ctx.violation("foreign-exception-escaped-under-threads:%s" % e["error"].split(":")[0], {"kind": "threads"}, e)
        if errors:
            return


def run_workload(spec, ctx):
    r = ctx.rng
    kind = spec["kind"]
    if kind == "threads":
        run_threads(ctx, spec["rounds"])
        return
    if kind == "query":
        seeds = []
        for i in range(spec["n"]):
            base, docs = gen_case(r, r.choice(["std", "ext"]))
            seeds.append(base)
            if len(seeds) > 40:
                seeds.pop(0)
            k = r.random()
            text = fuzz.soup(r) if k < 0.12 else fuzz.mutate(r, base, seeds)
            extra = [gen.gen_doc(r, profile="lookalike", hostile=0.2, max_depth=3)] if r.random() < 0.5 else []
            query_case(ctx, text, docs + extra + r.sample(ROOT_DOCS, 4))
    elif kind == "pointer":
        seeds = ["/a/b", "/0/1", "/a~1b/m~0n", "0/a", "1+1#"]
        for i in range(spec["n"]):
            text = gen_pointer_text(r, seeds)
            docs = [gen.gen_doc(r, profile="mixed", hostile=0.8, max_depth=3)] + r.sample(ROOT_DOCS, 3)
            pointer_case(ctx, text, docs)
    elif kind == "patch":
        for i in range(spec["n"]):
            doc = copy.deepcopy(r.choice(PATCH_DOCS))
            ops, _ = gen_ops(r, doc)
            k = r.random()
            if k < 0.8:
                for _ in range(r.randint(1, 2)):
                    ops = mutate_ops(r, ops) if (isinstance(ops, list) and all(isinstance(o, dict) for o in ops)) else ops
            patch_case(ctx, ops, [doc] + r.sample(ROOT_DOCS, 3))
    else:
        for text in long_unterminated():
            query_case(ctx, text, [[{"a": "abc def_abc"}]])
            ctx.count("long_unterminated_texts")
        # compound queries whose operands produce many values of mixed kinds (an implementation that looks values up in
        # a set or dict meets unhashable arrays and objects, NaN, and values equal under == but of different types)
        for n in (5, 63, 64, 65, 200, 1000):
            scal = list(range(n))
            for left in ([3, [1, 2], {"a": 1}], [[1], 2.0, True, None, "3", float("nan")], [{"k": [1]}, [[]], 10 ** 30]):
                for right in (scal, scal + [[1, 2]], [str(i) for i in range(n)], [float(i) for i in range(n)], scal + [None, True], [[i] for i in range(n)]):
                    bigdoc = {"left": left, "right": right}
                    for text in ("$.left[*] & $.right[*]", "$.right[*] & $.left[*]", "$.left[*] | $.right[*] & $.left[*]", "$.left[*] & $.right[*] & $.right[*]", "$..[?@ == 1] & $.right[*]"):
                        query_case(ctx, text, [bigdoc])
                        ctx.count("compound_queries_over_many_values_of_mixed_kinds")
        for text in long_runs():
            query_case(ctx, text, [[{"a": "abc"}]])
            ctx.count("long_runs_of_one_character_after_an_opener")
        for u in ("\\", "/", "~", "~0", "~1", "#", "-", "0", "1", " ", "%", "%2", "\\u", "\\u00", "+", "a", "\u00e9"):
            for n in (40, 64, 121):
                for text in ("/" + u * n, "/a" + u * n + "/b", u * n):
                    pointer_case(ctx, text, [{"a": 1}])
                    ctx.count("long_runs_of_one_character_in_pointer_texts")
        # every registered filter function x every argument form (literal of each type, @, @.m,
        # $.m, _.m, @.*) in one- to three-argument calls, on documents holding every kind of
        # value at the positions the arguments read
        import itertools

        import jsonpath as _jp

        vals = [1, "x", "number", None, True, 1.5, [1], ["number"], {"k": 1}, {}, [], ""]
        fdocs = [[{"a": a, "t": t} for a in vals[:6] for t in vals] + [{"a": 1}, {"t": "x"}, {}, 1, "s", None, [1, 2]]]
        args = ["@", "@.a", "@.t", "$[0].t", "_.t", "_.types", "@.*", "1", "'number'", "null", "true", "#"]
        n_fn = 0
        for fn in sorted(_jp.DEFAULT_ENV.function_extensions):
            for k in (1, 2, 3):
                for combo in itertools.product(args, repeat=k):
                    if k == 3 and ctx.rng.random() < 0.9:
                        continue
                    call = "%s(%s)" % (fn, ", ".join(combo))
                    for text in ("$[?%s]" % call, "$[?%s == 1]" % call, "$[?!%s || %s == 'number']" % (call, call)):
                        query_case(ctx, text, fdocs)
                        n_fn += 1
        ctx.count("function_argument_matrix_queries", n_fn)
        # the same calls (one argument form each) on numbers at the edge of float semantics, under the default environment
        # and under one with the functions' documented options switched on
        inf = float("inf")
        edge = [[{"a": v, "t": "number"} for v in (inf, -inf, float("nan"), -0.0, 1e308, 5e-324, 2 ** 53 + 1, 10 ** 400, 1.0, 1)] + [inf, float("nan"), [inf], {"k": float("nan")}]]
        for fn in sorted(_jp.DEFAULT_ENV.function_extensions):
            for combo in (("@.a",), ("@",), ("@.a", "@.t"), ("@.a", "'number'"), ("@.a", "@.a"), ("@.*",)):
                call = "%s(%s)" % (fn, ", ".join(combo))
                for text in ("$[?%s]" % call, "$[?%s == 'int']" % call, "$[?%s == 1 || %s == @.a]" % (call, call), "$..[?%s != 'float']" % call):
                    query_case(ctx, text, edge)
                    query_case(ctx, text, edge, options=True)
        # every type name the type-testing functions may know (documented ones, aliases, likely additions, unknown ones), against
        # those numbers
        for tname in ("int", "integer", "float", "number", "num", "string", "str", "boolean", "bool", "null", "nil", "none", "array", "list", "sequence", "object", "dict", "mapping", "undefined", "missing", "function", "INT", "Int", "", "int ", "decimal", "nan", "infinity"):
            for fn in ("is", "isinstance"):
                for text in ("$[?%s(@.a, '%s')]" % (fn, tname), "$..[?!%s(@, '%s')]" % (fn, tname), "$[?%s(@.a, '%s') == true || typeof(@.a) == '%s']" % (fn, tname, tname)):
                    query_case(ctx, text, edge)
                    query_case(ctx, text, edge, options=True)
                    ctx.count("type_names_x_numbers_at_the_edge_of_float_semantics")
        for text in ("$[?@.a == 1]", "$[?@.a > 1e308]", "$[?@.a < @.t]", "$[?@.a in [1, 2.5]]", "$[?@.a =~ /1/]", "$[?@.a == @.a]", "$..[?@ >= 0]", "$[?@.a]"):
            query_case(ctx, text, edge)
        # values (not texts) with more digits than the interpreter converts to text: in documents, operation values, as
        # operands of filters and functions, in failing and passing tests, at depth
        H, HN = {"$huge": 4400}, {"$hugeneg": 5000}
        hdocs = [{"n": H, "arr": [H, HN, 1], "o": {"k": [H]}, "s": "x"}, [H, HN, {"n": H}], {"n": 1, "arr": [1], "o": {"k": [1]}, "s": "x"}]
        for ops in ([{"op": "test", "path": "/n", "value": 1}], [{"op": "test", "path": "/n", "value": H}], [{"op": "test", "path": "/n", "value": HN}], [{"op": "test", "path": "/o", "value": {"k": [HN]}}], [{"op": "test", "path": "/missing", "value": H}],
                    [{"op": "add", "path": "/big", "value": H}, {"op": "test", "path": "/big", "value": 2}], [{"op": "copy", "from": "/n", "path": "/m"}, {"op": "test", "path": "/m", "value": "x"}], [{"op": "replace", "path": "/s", "value": [H]}, {"op": "test", "path": "/s", "value": [HN]}],
                    [{"op": "move", "from": "/arr/0", "path": "/arr/-"}, {"op": "remove", "path": "/zz"}], [{"op": "addne", "path": "/n", "value": H}], [{"op": "addap", "path": "/arr/99", "value": H}, {"op": "test", "path": "/arr/3", "value": 0}]):
            patch_case(ctx, ops, hdocs)
        for text in ("$..n", "$[?@.n == 1]", "$[?@.n > 1e300]", "$[?@.n < -1.5]", "$[?length(@.n) == 1]", "$[?@.n in [1, 2]]", "$[?@.arr contains 1]", "$[?value(@.n) != 1]", "$[?typeof(@.n) == 'number']", "$[?isinstance(@.n, 'number')]",
                     "$[?@.n == @.arr[0]]", "$[?@.arr[0] > @.arr[1]]", "$[?match(@.n, 'a')]", "$[?@.n =~ /1/]", "$.arr[?@ >= 1]", "$[?count(@.arr[?@ > 1]) > 0]", "$..[?@ == 1.0]", "$[?@.o.k[0] <= 0.5]"):
            query_case(ctx, text, hdocs)
        for text in ("/n", "/arr/0", "/o/k/0", "/arr/-", "/n/0", "/arr/1/x"):
            pointer_case(ctx, text, hdocs)
        for inner in ("$[?@.a]", "$..*", "$[?sub(@, '$.a') > 0]", "$[", "$[?count(1)]", "$[?@.a =~ /(/]"):
            for text in ("$[?sub(@, %s) >= 0]", "$..[?sub(@.a, %s) == 1 || @.b]", "$[?sub($, %s) > sub(@, %s)]"):
                q_ = "'" + inner.replace("\\", "\\\\").replace("'", "\\'") + "'"
                query_case(ctx, text.replace("%s", q_), ROOT_DOCS + [[{"a": 1, "b": [1]}, {"a": {"a": 2}}]], options="reentrant")
        for text in DIRECTED_QUERIES:
            query_case(ctx, text, ROOT_DOCS + [[{"a": v, "b": w} for v in (1, "x", None, [1], {"k": 1}, True, 1.5, "abc") for w in ("abc", [1], {"x": 1}, 2)]])
        for text in ("/caf%E9", "/%ff", "/%80", "/a%C3", "/%e2%82", "/%ED%A0%80", "/%c0%af", "/%F0%9F%98", "/ok%20/%FF/x", "/%", "/%4", "/%u0041", "/%E9/%41", "/%00", "/+%2B",
                     "0+" + "9" * 4300, "0+" + "9" * 4300 + "#", "1+" + "9" * 4300 + "/x", "0-" + "9" * 4300, "0+" + "9" * 4299, "0+" + "9" * 4299 + "#", "0+" + "1" * 4300, "9" * 4300, "9" * 4300 + "#", "/" + "9" * 4300, "/a/" + "9" * 4300, "/#" + "9" * 4300, "/-" + "9" * 4300,
                     "/" + "1" * 4301, "/a/-" + "1" * 4301, "0+" + "1" * 4301, "1" * 4301, "1" * 4301 + "#", "/#" + "1" * 4301, "/#abc", "/a\\", "/\\u00e9", "/\\ud83d", "/\\", "\\", "/%", "/%zz", "/~", "/~2", "a", " /a", "/" + "9" * 30, "/-" + "9" * 30, "/#", "/#-1", "/#1e2", "/a/#", "0#", "0", "1#", "0+1", "0-1", "0+10", "0+99999999999999999999999", "/\x00", "/퟿"):
            pointer_case(ctx, text, ROOT_DOCS + [{"a": [1, 2], "#abc": 1, "é": 2}])
        for ops in ([{"op": "remove", "path": "/1"}], [{"op": "move", "from": "/a", "path": "/b/-"}], [{"op": "copy", "from": "/a", "path": "/b/-"}], [{"op": "add", "path": "/b/1e0", "value": 1}], [{"op": "add", "path": "/a\\", "value": 1}],
                    [{"op": "add", "path": "a", "value": 1}], [{"op": "test", "path": "/zz/zz", "value": 1}], [{"op": "move", "from": "/b/5", "path": "/a"}], [{"op": "replace", "path": "/b/-", "value": 1}], [{"op": "remove", "path": "/b/-"}],
                    [{"op": "add", "path": "/b/#0", "value": 1}], [{"op": "add", "path": "/b/" + "1" * 4301, "value": 1}], [{"op": "move", "from": "/b/" + "1" * 4301, "path": "/a"}], [{"op": "remove", "path": "/#a"}], [{"op": "copy", "from": "/b/#1", "path": "/c"}], [{"op": "move", "from": "", "path": "/a/x"}], [{"op": "add", "path": "/" + "9" * 30, "value": 1}]):
            patch_case(ctx, ops, [{"a": {"1": 2}, "b": [1, 2], "1": 0}, {"1": "x"}] + ROOT_DOCS)


def confirm_hang(ctx, case):
    """Re-run one suspect alone in a fresh process with a 190 s watchdog."""
    verif = os.path.dirname(os.path.dirname(os.path.abspath(__file__)))
    outdir = os.path.join(verif, "out", "C06")
    os.makedirs(outdir, exist_ok=True)
    f = os.path.join(outdir, "suspect-%s.json" % h(repr(case)))
    with open(f, "w") as fh:
        json.dump({"case": case, "mechanism": "hang-suspect"}, fh, default=repr)
    env = dict(os.environ)
    env["VERIF_C06_WATCHDOG"] = "190"
    try:
        p = subprocess.run([sys.executable, "-B", "-m", "rt.harness", "C06", "--replay", f], cwd=verif, env=env, capture_output=True, timeout=400, text=True)
        out = p.stdout
    except subprocess.TimeoutExpired as e:
        out = "WATCHDOG-EXPIRED-IN-ISOLATION stack=[]" + str(e.stdout or "")
    if "WATCHDOG-EXPIRED-IN-ISOLATION" not in out:
        ctx.count("watchdog_not_confirmed_in_isolation")
        return
    stack = out.split("WATCHDOG-EXPIRED-IN-ISOLATION", 1)[1].splitlines()[0]
    inner = stack.split(",")[-2:]
    if any("/re/" in fr or "sre_" in fr or "_parser" in fr or "_compiler" in fr for fr in inner) and "jsonpath/lex.py" not in stack and "tokenize" not in stack:
        # time inside the regular-expression engine on a caller-supplied pattern
        ctx.count("regex_engine_time_outside_claim")
        return
    ctx.violation("no-progress-confirmed-in-isolation", case, {"stack": stack[:600], "watchdog_s": 190})


def finalize(m, tier):
    inc = []
    c = m["counters"]
    acc, rej = c.get("query_accepted", 0), c.get("query_rejected", 0)
    if acc + rej and acc / (acc + rej) < 0.15:
        inc.append("query fuzzer accepted share too low: %d/%d" % (acc, acc + rej))
    if c.get("pointer_accepted", 0) < 200 or c.get("patch_built", 0) < 200 or c.get("relative_accepted", 0) < 50:
        inc.append("too few accepted pointers / relative pointers / patches")
    if c.get("watchdog_expired", 0) and c.get("watchdog_not_confirmed_in_isolation", 0):
        inc.append("a watchdog expired but was not confirmed in isolation (load?)")
    builtin = {k: v for k, v in m["raises"].items() if not k.split("@")[0].startswith(("JSONP", "RelativeJSONP"))}
    return {"inconclusive": inc, "coverage": {
        "query_accept_share": round(acc / max(1, acc + rej), 3),
        "builtin_exceptions_raised_inside_jsonpath_and_translated_or_suppressed": dict(sorted(builtin.items(), key=lambda kv: -kv[1])[:40]),
    }}


def replay(case, ctx):
    del SUSPECTS[:]
    _replay(case, ctx)
    if SUSPECTS:
        print("WATCHDOG-EXPIRED-IN-ISOLATION stack=%s" % ",".join(LAST_STACK))
        if os.environ.get("VERIF_C06_WATCHDOG") is None:
            confirm_hang(ctx, case)


def _replay(case, ctx):
    if case.get("kind") == "threads":
        run_threads(ctx, 60)
        return
    if case.get("warnings_as_errors"):
        import warnings

        with warnings.catch_warnings():
            for cat in (DeprecationWarning, PendingDeprecationWarning):
                warnings.filterwarnings("error", category=cat, module=r"jsonpath(\.|$)")
            return _replay({k: v for k, v in case.items() if k != "warnings_as_errors"}, ctx)
    kind = case.get("kind")
    if "doc" in case and "$integer-of-bits" in json.dumps(case["doc"], default=repr) and "docs" in case:
        case = {k: v for k, v in case.items() if k != "doc"}   # the one document could not be written literally: use the symbolic list
    if kind == "canary":
        CANARY["n"] = 39
        canary(ctx)
        return
    if kind == "query":
        query_case(ctx, case["text"], [case["doc"]] if "doc" in case else case["docs"], options=case.get("options") or False)
    elif kind in ("pointer", "relative"):
        pointer_case(ctx, case["text"], [case["doc"]] if "doc" in case else case.get("docs", ROOT_DOCS))
    else:
        patch_case(ctx, case["ops"], [case["doc"]] if "doc" in case else case["docs"])
