"""C14 - JSON Pointer text, tokens and navigation operations are mutually consistent.

Oracle: the harness's RFC 6901 encoder/decoder (tokens are strings).  Exhaustive over
token sequences of length <= 3 over a 20-token alphabet, both decoding modes, six
construction routes; join/parent chains; resolution law on documents built to contain
the tokens.
"""
from __future__ import annotations

import copy
import itertools
import pickle

from rt import impl, ref_pointer as rp
from rt.foundry import ForeignFailed, foreign
from rt.jsonval import canon, h

ID = "C14"
LEVEL = "exploration"
RULE = (
    "all token sequences of length <= 3 over a 20-token alphabet ('a','~','/','0','1','01','+1','-1','-',' ',' 1','#','#a','', 'é', "
    "full-width 1, '1_0','10','~1' as text, a non-BMP character) x {decoding on, off} x construction routes {parse, from_parts(strings), "
    "from_parts(ints for canonical indices), join chain, slash chain, parent of an extension, from_match}; equality inside each class and "
    "against neighbouring classes; join/parent/is_relative_to/resolution laws for every (pointer, token); longer sampled chains. A case is "
    "(token sequence, decoding mode); every case is non-trivial; distinct by construction."
)
ASSUMPTIONS = ["no leading blanks and no backslashes in pointer text (the statement's restriction); tokens with leading blanks are not used as joined parts"]

ALPHABET = ["a", "~", "/", "0", "1", "01", "+1", "-1", "-", " ", " 1", "#", "#a", "", "é", "１", "1_0", "10", "~1", "\U0001f600"]


PCT_TOKENS = ["c%d", "%25", "%41", "caf%C3%A9", "100%25", "a%2Fb", "%7E", "%", "%zz", "a"]


def plan(tier, seed):
    specs = [{"kind": "history"}, {"kind": "flags"}, {"kind": "threads", "rounds": 40 if tier == "quick" else 400}] + [{"kind": "exhaustive", "first": t} for t in ALPHABET]
    specs.append({"kind": "exhaustive", "first": None})
    for _ in range(4 if tier == "quick" else 12):
        specs.append({"kind": "chains", "n": 1500 if tier == "quick" else 60000})
    return specs


_SUBCLASSES = {}


def routes(tokens, ue):
    """Construct the same pointer by every route; returns {route: pointer}."""
    import jsonpath
    from jsonpath import JSONPointer

    text = rp.encode(tokens)
    out = {"parse": lambda: JSONPointer(text, unicode_escape=ue)}
    out["from_parts(str)"] = lambda: JSONPointer.from_parts(list(tokens), unicode_escape=ue)
    if any(rp.CANON_INDEX.match(t) for t in tokens):
        out["from_parts(int)"] = lambda: JSONPointer.from_parts([int(t) if rp.CANON_INDEX.match(t) else t for t in tokens], unicode_escape=ue)
        ints = [int(t) if rp.CANON_INDEX.match(t) else t for t in tokens]
        out["from_parts(iter with ints)"] = lambda: JSONPointer.from_parts(iter(ints), unicode_escape=ue)
        out["from_parts(generator with ints)"] = lambda: JSONPointer.from_parts((x for x in ints), unicode_escape=ue)
        out["from_parts(reversed with ints)"] = lambda: JSONPointer.from_parts(reversed(ints[::-1]), unicode_escape=ue)
    if tokens and all(t == t.lstrip() for t in tokens):
        def joined():
            p = JSONPointer("", unicode_escape=ue)
            return p.join(*[rp.encode_token(t) for t in tokens])

        def slashed():
            p = JSONPointer("", unicode_escape=ue)
            for t in tokens:
                p = p / rp.encode_token(t)
            return p
        out["join"] = joined
        out["slash"] = slashed

        def joined_over_detours():
            # one join() call with several parts, among them slash-led ones that replace everything before them - the same
            # slash-led text more than once, in several places - and finally the tokens one by one
            p = JSONPointer("/zz/0", unicode_escape=ue)
            first = "/" + rp.encode_token(tokens[0])
            return p.join("x", first, "y", "/other", first, *[rp.encode_token(t) for t in tokens[1:]])
        out["join(several parts, repeated slash-led ones)"] = joined_over_detours
        out["join(slash-led text twice)"] = lambda: JSONPointer("/q", unicode_escape=ue).join(text, text) if tokens else JSONPointer("", unicode_escape=ue)
    for cname, carrier in (("iter", lambda: iter(list(tokens))), ("generator", lambda: (t for t in tokens)), ("map", lambda: map(str, tokens)), ("tuple", lambda: tuple(tokens)), ("dict-keys", lambda: dict.fromkeys(tokens).keys() if len(set(tokens)) == len(tokens) else list(tokens))):
        out["from_parts(%s)" % cname] = (lambda c=carrier: JSONPointer.from_parts(c(), unicode_escape=ue))
        if not any("%" in t for t in tokens):
            # (no token holds a percent sign, so decoding percent escapes changes nothing - but the option is on)
            out["from_parts(%s, uri_decode)" % cname] = (lambda c=carrier: JSONPointer.from_parts(c(), unicode_escape=ue, uri_decode=True))
    # subclasses of the pointer class (plain, and overriding the documented keys_selector / index limits): pointers are
    # equal exactly when their tokens are, whatever class built them
    if "sub" not in _SUBCLASSES:
        _SUBCLASSES["sub"] = type("PlainSub", (JSONPointer,), {})
        _SUBCLASSES["at"] = type("AtSub", (JSONPointer,), {"keys_selector": "@"})
        _SUBCLASSES["lim"] = type("LimSub", (JSONPointer,), {"max_int_index": 2 ** 60, "min_int_index": -(2 ** 60)})
    out["subclass(parse)"] = lambda: _SUBCLASSES["sub"](text, unicode_escape=ue)
    out["subclass-with-own-keys_selector(parse)"] = lambda: _SUBCLASSES["at"](text, unicode_escape=ue)
    out["subclass-with-own-keys_selector(from_parts)"] = lambda: _SUBCLASSES["at"].from_parts(list(tokens), unicode_escape=ue)
    out["subclass-with-wider-limits(parse)"] = lambda: _SUBCLASSES["lim"](text, unicode_escape=ue)
    out["copy"] = lambda: copy.copy(JSONPointer(text, unicode_escape=ue))
    out["deepcopy"] = lambda: copy.deepcopy(JSONPointer.from_parts(list(tokens), unicode_escape=ue))
    out["pickle"] = lambda: pickle.loads(pickle.dumps(JSONPointer(text, unicode_escape=ue)))
    # built in another interpreter (different string-hash seed) and carried here by pickle
    out["another-interpreter(parse)"] = lambda: foreign("pointer", text, ue, False)
    out["another-interpreter(from_parts)"] = lambda: foreign("from_parts", list(tokens), ue)
    out["another-interpreter(parent-of-extension)"] = lambda: foreign("pointer", rp.encode(list(tokens) + ["x"]), ue, False).parent()
    out["parent-of-extension"] = lambda: JSONPointer(rp.encode(list(tokens) + ["x"]), unicode_escape=ue).parent()
    # from_match: build a document containing the path and match it
    doc = {}
    cur = doc
    for t in tokens:
        cur[t] = {}
        cur = cur[t]

    def from_match():
        from rt.render import normalized_path

        m = jsonpath.match(normalized_path(tuple(tokens)), doc)
        return m.pointer()
    out["from_match"] = from_match
    return out


def check_sequence(ctx, tokens, ue):
    from jsonpath import JSONPointer

    text = rp.encode(tokens)
    case = {"tokens": list(tokens), "unicode_escape": ue}
    if any(0xD800 <= ord(ch) <= 0xDFFF for t in tokens for ch in t):
        case = {"surrogate_tokens": True}
    ctx.evaluation()
    built = {}
    for name, fn in routes(tokens, ue).items():
        o = impl.call(fn)
        if not o.ok and isinstance(o.exc, ForeignFailed):
            ctx.count("other_interpreter_could_not_deliver")
            continue
        if not o.ok:
            ctx.violation("construction-raised:%s:%s" % (name, type(o.exc).__name__), case, {"tokens": list(tokens), "route": name, "error": o.desc()})
            return
        built[name] = o.value
        ctx.cell("construction_routes", name)
    for name, p in built.items():
        if str(p) != text:
            ctx.violation("pointer-does-not-print-the-rfc-spelling:%s" % name, case, {"tokens": list(tokens), "route": name, "printed": str(p), "expected": text})
            return
    names = list(built)
    for a, b in itertools.combinations(names, 2):
        if not (built[a] == built[b]) or not (built[b] == built[a]) or hash(built[a]) != hash(built[b]):
            ctx.violation("equal-token-sequences-compare-unequal", case, {"tokens": list(tokens), "routes": [a, b]})
            return
    ctx.remember("pointer-parse-print", lambda: (str(JSONPointer(text, unicode_escape=ue)), repr(tuple(str(x) for x in JSONPointer(text, unicode_escape=ue).parts))), limit=150)
    p = built["parse"]
    # reparse of the printed form
    q = impl.call(lambda: JSONPointer(str(p), unicode_escape=ue))
    if not q.ok or q.value != p or str(q.value) != text:
        ctx.violation("printed-form-does-not-parse-back", case, {"tokens": list(tokens), "printed": str(p)})
        return
    # neighbours: sequences that differ must compare unequal
    for other in neighbours(tokens):
        o = impl.call(lambda: JSONPointer(rp.encode(other), unicode_escape=ue))
        if o.ok and o.value == p:
            ctx.violation("different-token-sequences-compare-equal", case, {"tokens": list(tokens), "other": list(other)})
            return
    # parent laws
    if not tokens:
        if p.parent() != p or str(p.parent()) != "":
            ctx.violation("root-parent-is-not-root", case, {})
            return
    else:
        par = p.parent()
        if str(par) != rp.encode(tokens[:-1]) or par != JSONPointer(rp.encode(tokens[:-1]), unicode_escape=ue):
            ctx.violation("parent-wrong", case, {"tokens": list(tokens), "parent": str(par)})
            return
        if not p.is_relative_to(par) or par.is_relative_to(p) or p.is_relative_to(p):
            ctx.violation("is_relative_to-wrong", case, {"tokens": list(tokens)})
            return
    # join laws for every token
    for t in ALPHABET:
        if t != t.lstrip():
            continue
        for how in ("join", "slash"):
            j = impl.call((lambda: p.join(rp.encode_token(t))) if how == "join" else (lambda: p / rp.encode_token(t)))
            if not j.ok:
                ctx.violation("join-raised:%s" % type(j.exc).__name__, case, {"tokens": list(tokens), "joined": t, "error": j.desc()})
                return
            jp = j.value
            if str(jp) != rp.encode(list(tokens) + [t]):
                ctx.violation("join-prints-wrong-pointer", case, {"tokens": list(tokens), "joined": t, "printed": str(jp), "expected": rp.encode(list(tokens) + [t])})
                return
            if jp.parent() != p or not jp.is_relative_to(p) or p.is_relative_to(jp):
                ctx.violation("join-parent-or-relative-wrong", case, {"tokens": list(tokens), "joined": t})
                return
            # resolution law on a document that contains the tokens
            doc = doc_for(list(tokens) + [t])
            try:
                want = rp.resolve(doc, list(tokens) + [t])
            except rp.Unresolvable:
                want = None
            if want is not None and not is_ext(t):
                a = impl.call(jp.resolve, doc)
                b = impl.call(lambda: JSONPointer(rp.encode([t]), unicode_escape=ue).resolve(p.resolve(doc)))
                if not a.ok or not b.ok or canon(a.value) != canon(want) or canon(b.value) != canon(want):
                    ctx.violation("join-resolution-law", case, {"tokens": list(tokens), "joined": t, "joined_resolves": a.desc() if not a.ok else canon(a.value), "stepwise": b.desc() if not b.ok else canon(b.value), "model": canon(want)})
                    return
        ctx.count("join_laws_checked")
    # a joined part that starts with a slash replaces the pointer
    r = impl.call(lambda: p.join("/x/y"))
    if not r.ok or str(r.value) != "/x/y":
        ctx.violation("slash-leading-part-does-not-replace", case, {"tokens": list(tokens)})
        return
    r = impl.call(lambda: p.join("q", "/x", "y"))
    if not r.ok or str(r.value) != "/x/y":
        ctx.violation("slash-leading-part-does-not-replace", case, {"tokens": list(tokens)})
        return
    # one joined part that spells several tokens: the result is the pointer extended by each of them in turn, and its
    # ancestors are what they are for the same pointer written out
    extra = [t for t in list(tokens)[-2:] if t == t.lstrip() and "\\" not in t] + ["b", "c"]
    part = "/".join(rp.encode_token(t) for t in extra)
    if part and not part.startswith("/"):
        for how, made in (("join", impl.call(lambda: p.join(part))), ("slash", impl.call(lambda: p / part)), ("join(two parts)", impl.call(lambda: p.join(part, part)))):
            want = list(tokens) + extra * (2 if how == "join(two parts)" else 1)
            ctx.count("joined_parts_spelling_several_tokens")
            if not made.ok:
                ctx.violation("join-raised:%s" % type(made.exc).__name__, case, {"tokens": list(tokens), "joined": part, "error": made.desc()})
                return
            q, chain = made.value, []
            for _ in range(len(want) + 1):
                chain.append(str(q))
                q = q.parent()
            expected = [rp.encode(want[:k]) for k in range(len(want), -1, -1)]
            if chain != expected or made.value != JSONPointer(rp.encode(want), unicode_escape=ue) or not made.value.is_relative_to(p):
                ctx.violation("joined-part-of-several-tokens:ancestors-wrong", case, {"tokens": list(tokens), "joined": part, "route": how, "ancestors": chain, "expected": expected})
                return


def is_ext(t):
    import re

    return t.startswith(("#", "~")) or re.fullmatch(r"-[0-9]+", t) is not None


def doc_for(tokens):
    """A document in which the token path exists: arrays where the token is a canonical index."""
    leaf = "LEAF"
    cur = leaf
    for t in reversed(tokens):
        if rp.CANON_INDEX.match(t) and int(t) <= 12:
            arr = ["pad%d" % i for i in range(int(t) + 2)]
            arr[int(t)] = cur
            cur = arr
        else:
            cur = {t: cur, "other": 0}
    return cur


def neighbours(tokens):
    out = []
    for i, t in enumerate(tokens):
        for alt in {"0": ["00", "+0"], "1": ["01", "+1", " 1", "１", "1_0"], "01": ["1"], "+1": ["1"], " 1": ["1"], "１": ["1"], "1_0": ["10"], "10": ["1_0"], "~": ["~0", "/"], "/": ["~1", "~"], "~1": ["/"], "": ["a"], "a": ["", "A"], "-": ["-1"], "-1": ["-"], " ": [""], "#": ["#a"], "#a": ["a"], "é": ["e", "e\u0301", "É", "\u00e9 "], "\U0001f600": ["\ud83d"]}.get(t, []):
            if alt == "\ud83d":
                continue
            out.append(list(tokens[:i]) + [alt] + list(tokens[i + 1:]))
        if not t.isascii():
            import unicodedata

            for form in ("NFC", "NFD", "NFKC", "NFKD"):
                alt = unicodedata.normalize(form, t)
                if alt != t:
                    out.append(list(tokens[:i]) + [alt] + list(tokens[i + 1:]))
    out.append(list(tokens) + [""])
    if tokens:
        out.append(list(tokens[:-1]))
    return out


def run(spec, ctx):
    r = ctx.rng
    if spec["kind"] == "flags":
        from rt import flag_history

        flag_history.run(ctx)
        return
    if spec["kind"] == "history":
        # the same pointer text read earlier under another decoding must not influence later reads
        import jsonpath
        from jsonpath import JSONPointer

        n = 0
        seqs = [(a,) for a in PCT_TOKENS] + [(a, b) for a in PCT_TOKENS for b in PCT_TOKENS]
        for toks in seqs:
            text = rp.encode(toks)
            for poison in ("uri", "patch-uri", "noescape", "none"):
                try:
                    if poison == "uri":
                        JSONPointer(text, uri_decode=True)
                    elif poison == "patch-uri":
                        jsonpath.JSONPatch(uri_decode=True).test(text, 1)
                    elif poison == "noescape":
                        JSONPointer(text, unicode_escape=False, uri_decode=True)
                except Exception:  # noqa: BLE001
                    pass
                for ue in (True, False):
                    check_sequence(ctx, toks, ue)
                    n += 1
        # integer tokens at and just inside the index limits, both signs (digit counts 15, 16 and 16 + sign)
        for t in ("9007199254740991", "-9007199254740991", "-1000000000000000", "1000000000000000", "-999999999999999", "999999999999999", "9007199254740990", "-9007199254740990", "-1234567890123456"):
            for toks in ((t,), ("obj", t), (t, "x"), ("a", t, t)):
                for ue in (True, False):
                    check_sequence(ctx, toks, ue)
                    n += 1
        # refused texts (index out of range, bad escape, no leading slash, ...) sprinkled among long runs of DISTINCT
        # valid pointers: whatever a refusal leaves behind must not surface hundreds of parses later
        refused = ["/items/9007199254740992", "/-9007199254740992/x", "/a\\", "no-slash", "/\\ud800x", "/" + "9" * 40, "/a/\\u12", " /a"]
        for rnd in range(6):
            for bad in refused[rnd % 2::2] + [refused[rnd]]:
                for fn in (lambda: JSONPointer(bad), lambda: JSONPointer("/ok") / bad, lambda: JSONPointer.from_parts(["a", 2 ** 60]).resolve({"a": []}), lambda: jsonpath.JSONPatch().add(bad, 1)):
                    try:
                        fn()
                    except Exception:  # noqa: BLE001
                        pass
            for k in range(320):
                toks = ("h%d-%d" % (rnd, k), r.choice(ALPHABET), "~/%d" % k)
                check_sequence(ctx, toks, True)
                n += 1
                text = rp.encode(toks)
                j = impl.call(lambda: JSONPointer("/zz") / text)
                if not j.ok or str(j.value) != text:
                    ctx.violation("slash-leading-part-does-not-replace:after-refused-texts", {"tokens": list(toks), "unicode_escape": True}, {"text": text, "outcome": j.desc() if not j.ok else str(j.value)})
                    return
        ctx.bulk(n)
        ctx.count("history_sequences", n)
        return
    if spec["kind"] == "threads":
        # FRESH pointer objects (nothing has been asked of them yet) shared by 8 threads that print, hash, compare, take
        # parents of, join onto and resolve them at once (yields injected inside pointer.py)
        import jsonpath
        from jsonpath import JSONPointer

        from rt.threads import stress

        for _round in range(spec["rounds"]):
            cases = []
            for _ in range(6):
                tokens = [r.choice(ALPHABET) for _ in range(r.randint(0, 3))]
                text = rp.encode(tokens)
                how = r.choice(["parse", "from_parts", "join"])
                o = impl.call(lambda: JSONPointer(text) if how == "parse" else (JSONPointer.from_parts(list(tokens)) if how == "from_parts" or not tokens or any(t != t.lstrip() for t in tokens) else JSONPointer("").join(*[rp.encode_token(t) for t in tokens])))
                if o.ok:
                    doc = {}
                    cur = doc
                    for t in tokens:
                        cur[t] = {}
                        cur = cur[t]
                    cases.append((o.value, tokens, text, doc, cur))
            errors = []
            # texts nobody has parsed before in this process (a token that is new every round), parsed by all threads at once
            fresh = []
            for k_ in range(3):
                ftoks = [r.choice(ALPHABET) for _ in range(r.choice([3, 40, 200]))] + ["round-%d-%d-%s" % (_round, k_, r.random())]
                fresh.append((rp.encode(ftoks), ftoks))

            def worker(wid, rr):
                try:
                    for ftext, ftoks in fresh:
                        how_ = rr.choice(["JSONPointer", "JSONPointer", "patch", "relative"])
                        if how_ == "JSONPointer":
                            q = JSONPointer(ftext, unicode_escape=False)
                        elif how_ == "patch":
                            q = jsonpath.JSONPatch(unicode_escape=False).test(ftext, 1).ops[0].path
                        else:
                            q = JSONPointer("/zz", unicode_escape=False).to("1" + ftext, unicode_escape=False) if ftext == ftext.strip() else JSONPointer(ftext, unicode_escape=False)
                        if str(q) != ftext or [str(x) for x in q.parts] != ftoks or q != JSONPointer.from_parts(list(ftoks), unicode_escape=False):
                            errors.append({"operation": "a text parsed by several threads at once (%s)" % how_, "tokens_expected": len(ftoks), "tokens_got": len(q.parts), "printed_equal": str(q) == ftext})
                            return
                    for p, tokens, text, doc, leaf in rr.sample(cases, len(cases)):
                        what = rr.choice(["str", "hash-eq", "parent", "join", "resolve", "relative"])
                        twin = JSONPointer.from_parts(list(tokens))
                        if what == "str" and str(p) != text:
                            errors.append({"pointer": text, "operation": "str", "got": str(p)})
                        elif what == "hash-eq" and not (p == twin and hash(p) == hash(twin) and p in {twin}):
                            errors.append({"pointer": text, "operation": "== / hash against a pointer built from the same tokens"})
                        elif what == "parent" and str(p.parent()) != rp.encode(tokens[:-1]):
                            errors.append({"pointer": text, "operation": "parent", "got": str(p.parent())})
                        elif what == "join" and (str(p / "x") != rp.encode(list(tokens) + ["x"]) or (p / "x").parent() != p):
                            errors.append({"pointer": text, "operation": "join then parent", "got": str(p / "x")})
                        elif what == "resolve" and p.resolve(doc) is not leaf:
                            errors.append({"pointer": text, "operation": "resolve"})
                        elif what == "relative" and tokens and not (p.is_relative_to(twin.parent()) and not twin.parent().is_relative_to(p)):
                            errors.append({"pointer": text, "operation": "is_relative_to"})
                except Exception as e:  # noqa: BLE001
                    errors.append({"thread": wid, "raised": "%s: %s" % (type(e).__name__, e)})

            st = stress(worker, nthreads=8, files=("pointer.py",), seed=r.random(), prob=0.3)
            ctx.evaluation(len(cases) * 8)
            ctx.count("concurrent_uses_of_fresh_pointers", len(cases) * 8)
            ctx.count("yields_injected", st["yields"])
            ctx.cell("thread_interleaving_signatures", st["signature"])
            for e in errors[:2]:
                ctx.violation("pointer-shared-by-threads-misbehaves", {"threads": True}, e)
            if errors:
                return
        return
    if spec["kind"] == "exhaustive":
        if spec["first"] is None:
            # tokens holding surrogate code points as such (Python-built; a high and a low one side by side are two characters,
            # not the astral character an escaped pair denotes); a replay file cannot hold them - replayed as a whole
            HI, LO, AST = "\ud83d", "\ude00", "\U0001f600"
            for toks in ((HI + LO,), (AST,), (HI,), (LO,), (LO + HI,), ("a", HI + LO), (HI + LO, "b"), (HI, LO), ("x" + HI + LO + "y",), (HI + LO + HI,), (AST, HI + LO), ("\u00e9" + HI + LO,)):
                for ue in (True, False):
                    check_sequence(ctx, toks, ue)
                    ctx.count("token_sequences_with_surrogate_code_points")
        if spec["first"] is None:
            seqs = [()]
        else:
            seqs = [(spec["first"],)] + [(spec["first"],) + rest for n in (1, 2) for rest in itertools.product(ALPHABET, repeat=n)]
        for toks in seqs:
            for ue in (True, False):
                check_sequence(ctx, toks, ue)
        ctx.bulk(len(seqs) * 2)
        ctx.count("exhaustive_sequences", len(seqs))
        if spec["first"] == "~":
            ctx.sample({"tokens": ["~", "/", "01"], "pointer": rp.encode(["~", "/", "01"]), "routes": "parse, from_parts, join, slash, parent, from_match"})
    else:
        from jsonpath import JSONPointer

        for _ in range(spec["n"]):
            toks = [r.choice(ALPHABET) for _ in range(r.randint(1, 5))]
            ue = r.random() < 0.5
            ctx.evaluation()
            ctx.case(h("chain", toks, ue))
            p = JSONPointer("", unicode_escape=ue)
            model = []
            case = {"tokens": toks, "unicode_escape": ue, "kind": "chain"}
            for _step in range(r.randint(2, 10)):
                if r.random() < 0.6:
                    t = r.choice([x for x in ALPHABET if x == x.lstrip()])
                    p = p / rp.encode_token(t) if r.random() < 0.5 else p.join(rp.encode_token(t))
                    model.append(t)
                elif r.random() < 0.8:
                    p = p.parent()
                    model = model[:-1]
                else:
                    t2 = [r.choice(ALPHABET) for _ in range(r.randint(0, 2))]
                    if t2:
                        p = p.join(rp.encode(t2))
                        model = list(t2)
                if str(p) != rp.encode(model) or p != JSONPointer(rp.encode(model), unicode_escape=ue):
                    ctx.violation("join-parent-chain-diverges-from-token-model", case, {"printed": str(p), "model": rp.encode(model)})
                    break
            if len(ctx.samples) < 2:
                ctx.sample({"chain_result": str(p), "model_tokens": model})


def finalize(m, tier):
    inc = []
    n = m["counters"].get("exhaustive_sequences", 0)
    if n != 1 + 20 + 400 + 8000:
        inc.append("enumeration incomplete: %d sequences" % n)
    cr = m["matrices"].get("construction_routes", {})
    for route in ("parse", "from_parts(str)", "from_parts(int)", "join", "slash", "parent-of-extension", "from_match", "pickle", "another-interpreter(parse)", "another-interpreter(from_parts)"):
        if not cr.get(route):
            inc.append("construction route never used: %s" % route)
    return {"inconclusive": inc, "exhaustive": False, "coverage": {"exhaustive_subspaces": ["all %d token sequences of length <= 3 over the 20-token alphabet x 2 decoding modes" % n]}}


def replay(case, ctx):
    if case.get("threads"):
        run({"kind": "threads", "rounds": 150}, ctx)
        return
    if case.get("flags"):
        run({"kind": "flags"}, ctx)
        return
    if case.get("surrogate_tokens"):
        run({"kind": "exhaustive", "first": None}, ctx)
        return
    check_sequence(ctx, tuple(case["tokens"]), case["unicode_escape"])
