"""C18 - the command-line tool is a faithful front end to the library.

Oracle: the library call made by the harness with the same options, serialised with
json.dumps.  The whole option product is driven in-process through jsonpath.cli.main()
with patched sys.argv/stdin/stdout/stderr (so the monitors see it); a sample goes through
`python -m jsonpath` subprocesses to confirm process-level exit status and stream
separation.
"""
from __future__ import annotations

import io
import itertools
import json
import os
import shutil
import subprocess
import sys

from rt import impl
from rt.jsonval import h, strict_eq

ID = "C18"
LEVEL = "exploration"
RULE = (
    "the full option product of each sub-command (expression inline / from a file x output to stdout / to a file x --pretty x --no-unicode-escape x -u x "
    "--no-type-checks x document via -f / stdin x --debug) x expressions {valid, syntax error, type error, name error, index error, unresolvable pointer, "
    "failing patch, failed test} x documents {valid, malformed JSON}; in-process for the whole product, subprocess for a sample. A case is one argv + "
    "input files; every case is non-trivial; distinct by hash."
)
ASSUMPTIONS = ["bracket classes containing '[' are not used (Python's FutureWarning would add a stderr line that is not the tool's)", "inputs for which the library itself raises a non-library exception are skipped (that is C06's concern)"]
SHARD_TIMEOUT = {"quick": 900, "thorough": 3600}

DOC = {"a\u00a0": "nbsp", "\u2028x": "ls", "a": [1, 2, {"b": "x", "é": "ü"}], "b": {"c": None, "d": 1.5, "e": True}, "s": "stré", "é": 1, "a/b": 2, "~": 3, "list": ["x", "y"]}
DOC_TEXT = json.dumps(DOC)
BAD_DOC_TEXT = '{"a": [1, 2,}'

PATH_EXPRS = [
    ("valid", "$.a[*]"), ("valid", "$..b"), ("valid", "$.a[?@.b == 'x']"), ("valid", "$['\\u00e9']"), ("valid", "$.nothing"), ("valid", "$[?@[0] == 1 || @.c == null]"), ("valid", ""),
    ("valid", "$.b[?@ > 1]"), ("valid", "$.a\u00a0"), ("valid", "$..a\u00a0"), ("valid", "$.\u2028x"), ("valid", "$['a\u00a0']"), ("valid", " $.a "), ("valid", "$.a\n"), ("syntax", "\u00a0$.a"), ("syntax", "$.a\x1c"), ("syntax", "$.a\x0c"),
    ("valid", "$.a\u3000"), ("valid", "$.a\u0085"), ("valid", "$.a[0:2]"), ("valid", "$.*.e | $.list[0]"),
    ("syntax", "$.a["), ("syntax", "$[?@.a ==]"), ("syntax", "$..[1,]"), ("syntax", "$['a"),
    ("type", "$[?count(1) > 0]"), ("type", "$[?length(@.*) > 1]"), ("type", "$[?match(@.a)]"), ("type", "$[?@.* == 1]"),
    ("name", "$[?nosuchfunction(@.a)]"), ("name", "$.a[?foo(@) == 1]"),
    ("index", "$.a[9007199254740992]"), ("index", "$[-9007199254740992:]"),
]
POINTER_EXPRS = [
    ("valid", "/a/0"), ("valid", ""), ("valid", "/a/2/b"), ("valid", "/b/c"), ("valid", "/a~1b"), ("valid", "/~0"), ("valid", "/é"), ("valid", "/a/2/é"), ("valid", "/s"),
    ("valid-uri", "/a%2Fb"), ("valid-uri", "/%C3%A9"), ("valid-esc", "/\\u00e9"),
    ("unresolvable", "/zz"), ("unresolvable", "/a/7"), ("unresolvable", "/a/-"), ("unresolvable", "/s/0"), ("unresolvable", "/a/x"), ("malformed", "a/b"), ("unresolvable", "/b/c/d"),
]
PATCHES = [
    ("valid", [{"op": "add", "path": "/new", "value": [1, {"k": "é"}]}]), ("valid", [{"op": "remove", "path": "/a/0"}, {"op": "replace", "path": "/b/d", "value": None}]),
    ("valid", [{"op": "move", "from": "/a/2", "path": "/moved"}, {"op": "copy", "from": "/b", "path": "/a/-"}, {"op": "test", "path": "/moved/b", "value": "x"}]), ("valid", []),
    ("valid", [{"op": "add", "path": "/a~1b", "value": 0}, {"op": "test", "path": "/~0", "value": 3}]), ("valid-uri", [{"op": "replace", "path": "/a%2Fb", "value": "r"}]),
    ("failing", [{"op": "remove", "path": "/zz"}]), ("failing", [{"op": "add", "path": "/a/9", "value": 1}]), ("failing", [{"op": "move", "from": "/a", "path": "/a/0/x"}]), ("failing", [{"op": "nop", "path": "/a"}]),
    ("failing", [{"op": "add", "value": 1}]), ("failed-test", [{"op": "test", "path": "/b/d", "value": 2}]), ("failed-test", [{"op": "add", "path": "/x", "value": 1}, {"op": "test", "path": "/x", "value": True}]),
    ("not-a-list", {"op": "add", "path": "/x", "value": 1}), ("malformed-json", None),
    ("malformed-elements", [1]), ("malformed-elements", [None]), ("malformed-elements", ["add"]), ("malformed-elements", [[{"op": "add", "path": "/z", "value": 1}]]),
    ("malformed-elements", [{"op": "add", "path": "/z", "value": 1}, 7]), ("malformed-elements", [{"op": "add", "path": 5, "value": 1}]), ("malformed-elements", [{"path": "/a"}]),
]


REJECT_LABELS = {"syntax", "type", "name", "index", "unresolvable", "malformed", "failing", "failed-test", "not-a-list", "malformed-json", "malformed-elements"}


def plan(tier, seed):
    return [{"cmd": c, "part": i, "parts": 5} for c in ("path", "pointer", "patch") for i in range(5)] + [{"cmd": c, "part": -1, "parts": 5, "encodings": True} for c in ("path", "pointer", "patch")] + [{"cmd": c, "part": -2, "parts": 5, "scale": True} for c in ("path", "pointer", "patch")] + [{"cmd": c, "part": -3, "parts": 5, "hyphens": True} for c in ("path", "pointer", "patch")] + [{"kind": "threads", "rounds": 6 if tier == "quick" else 40}, {"kind": "terminal"}]


class Files:
    def __init__(self, root):
        self.root = root
        os.makedirs(root, exist_ok=True)
        self.n = 0

    def write(self, text, encoding="utf-8"):
        self.n += 1
        p = os.path.join(self.root, "f%d" % self.n)
        with open(p, "wb") as f:
            f.write(text.encode(encoding, "surrogatepass"))
        return p

    def out(self):
        self.n += 1
        return os.path.join(self.root, "o%d" % self.n)


def run_cli_inprocess(argv, stdin_text):
    """Returns (exit status, stdout text, stderr text, escaped exception or None)."""
    import jsonpath.cli as cli

    old = sys.argv, sys.stdin, sys.stdout, sys.stderr
    sys.argv = ["json"] + argv
    # (a text stream with a .buffer, like the real standard input: `-f -` / `patch -` read sys.stdin.buffer)
    sys.stdin = io.TextIOWrapper(io.BytesIO((stdin_text if stdin_text is not None else "").encode("utf-8", "surrogatepass")), encoding="utf-8", errors="surrogatepass")
    sys.stdout = io.StringIO()
    sys.stderr = io.StringIO()
    status, exc = 0, None
    try:
        try:
            cli.main()
        except SystemExit as e:
            status = e.code if isinstance(e.code, int) else (0 if e.code is None else 1)
        except BaseException as e:  # noqa: BLE001
            exc = e
            status = 1
        out, err = sys.stdout.getvalue(), sys.stderr.getvalue()
    finally:
        sys.argv, sys.stdin, sys.stdout, sys.stderr = old
    return status, out, err, exc


_SUB_CALLS = [0]


def run_cli_subprocess(argv, stdin_text, repo, c_locale=False):
    env = dict(os.environ)
    env["PYTHONPATH"] = repo
    if c_locale:
        env.update({"LC_ALL": "C", "LANG": "C", "PYTHONUTF8": "0", "PYTHONCOERCECLOCALE": "0"})
        env.pop("PYTHONIOENCODING", None)
    # (the child interpreter runs, in turn, as it is, with asserts stripped (-O), and with docstrings stripped too (-OO))
    _SUB_CALLS[0] += 1
    flags = [[], ["-O"], ["-OO"]][_SUB_CALLS[0] % 3]
    p = subprocess.run([sys.executable, "-B"] + flags + ["-m", "jsonpath"] + argv, input=(stdin_text or "").encode("utf-8"), capture_output=True, timeout=60, env=env, cwd=repo)
    err = p.stderr.decode("utf-8", "replace")
    return p.returncode, p.stdout.decode("utf-8", "replace"), err, ("Traceback" if "Traceback (most recent call last)" in err else None)


def library_outcome(cmd, expr, doc_text, opts):
    import jsonpath

    if opts.get("doc_encoding") and not opts["doc_stdin"]:
        # a document file in another Unicode encoding: the library is handed the file's bytes
        data = doc_text.encode(opts["doc_encoding"], "surrogatepass")
        mk = lambda _t: io.BytesIO(data)  # noqa: E731
    else:
        mk = io.StringIO
    try:
        if cmd == "path":
            env = jsonpath.JSONPathEnvironment(unicode_escape=not opts["no_unicode_escape"], well_typed=not opts["no_type_checks"])
            return ("ok", env.compile(expr).findall(mk(doc_text)))
        if cmd == "pointer":
            return ("ok", jsonpath.pointer.resolve(expr, mk(doc_text), unicode_escape=not opts["no_unicode_escape"], uri_decode=opts["uri_decode"]))
        patch = json.loads(expr)
        if not isinstance(patch, list):
            return ("reject", "not-a-list")
        return ("ok", jsonpath.patch.apply(patch, mk(doc_text), unicode_escape=not opts["no_unicode_escape"], uri_decode=opts["uri_decode"]))
    except (jsonpath.JSONPathError, jsonpath.JSONPointerError, jsonpath.JSONPatchError, json.JSONDecodeError) as e:
        return ("reject", type(e).__name__)
    except Exception as e:  # noqa: BLE001
        return ("foreign", type(e).__name__)


# numbers that are well-formed JSON text but overflow a double (the library reads them as infinities, and prints them so)
OVERFLOW_DOCS = ['{"readings": [1.5, 1e999, -1e999], "ok": 1}', '[1e999]', '{"a": {"b": -1e999}, "list": ["x", 1e400]}', '{"big": 1E+999, "small": 1e-999}']
STRING_ROOT_DOCS = ['"[1, 2]"', '"12"', '"a[0]"', '"hello"', '"true"', '"{\\"a\\": 1}"', '""', "12", "null", "[]"]


def r_choice_out(opts):
    return "--output" if opts.get("pretty") else "-o"


def check(ctx, files, cmd, label, expr, doc_ok, opts, use_subprocess, repo, doc_text=None):
    ctx.evaluation()
    if doc_text is None:
        doc_text = DOC_TEXT if doc_ok else BAD_DOC_TEXT
    argv = []
    if opts["debug"]:
        argv.append("--debug")
    if opts["pretty"]:
        argv.append("--pretty")
    if opts["no_unicode_escape"]:
        argv.append("--no-unicode-escape")
    argv.append(cmd)
    if cmd == "patch":
        expr_text = expr if isinstance(expr, str) else json.dumps(expr)
        argv.append("-" if opts.get("dash_patch") else files.write(expr_text, opts.get("patch_encoding", "utf-8")))
    else:
        expr_text = expr
        if opts["expr_file"]:
            argv += ["-r", files.write(expr + "\n")]
            expr_text = expr.strip()   # a query file's text is taken without the surrounding white space (its final newline, ...)
        else:
            argv += ["-q" if cmd == "path" else "-p", expr]
    stdin_text = None
    if opts.get("dash_patch"):
        stdin_text = expr_text          # the patch comes from standard input (`patch -`), the document from a file
        argv += ["-f", files.write(doc_text, opts.get("doc_encoding") or "utf-8")]
    elif opts["doc_stdin"]:
        stdin_text = doc_text
        if opts.get("dash_doc"):
            argv += ["-f", "-"]         # the documented explicit spelling of "read the document from standard input"
    else:
        argv += ["-f", files.write(doc_text, opts.get("doc_encoding") or "utf-8")]
    outfile = None
    if opts["out_file"]:
        outfile = files.out()
        argv += ["-o", outfile]
    elif opts.get("dash_out"):
        argv += [r_choice_out(opts), "-"]   # the documented explicit spelling of "write to standard output"
    if cmd == "path" and opts["no_type_checks"]:
        argv.append("--no-type-checks")
    if cmd in ("pointer", "patch") and opts["uri_decode"]:
        argv.append("-u")
    case = {"argv": argv, "cmd": cmd, "label": label, "expr": expr_text, "doc_ok": doc_ok, "opts": opts, "doc_text": doc_text}
    ctx.case(h(cmd, expr_text, doc_text, sorted(opts.items()), use_subprocess))
    want = library_outcome(cmd, expr_text, doc_text, opts)
    if want[0] == "foreign":
        # the library raised something outside its own families.  For an input class the
        # statement lists as rejected the tool must still reject it cleanly; otherwise the
        # case says nothing about the front end (that is C06's concern) and is skipped.
        must_reject = (not doc_ok) or (label in REJECT_LABELS and not (label == "type" and opts["no_type_checks"]))
        if not must_reject:
            ctx.count("skipped_library_raised_foreign")
            return
        want = ("reject", "foreign:" + want[1])
    if use_subprocess:
        status, out, err, exc = run_cli_subprocess(argv, stdin_text, repo, c_locale=bool(opts.get("c_locale")))
        ctx.count("subprocess_invocations")
    else:
        status, out, err, exc = run_cli_inprocess(argv, stdin_text)
        ctx.count("inprocess_invocations")
    if outfile is not None and os.path.exists(outfile):
        with open(outfile, encoding="utf-8") as f:
            produced = f.read()
    else:
        produced = out
    mode = "subprocess" if use_subprocess else "inprocess"
    ctx.cell("cmd_x_label_x_outcome", "%s %s doc=%s -> %s" % (cmd, label, "ok" if doc_ok else "bad", want[0] if want[0] != "reject" else want[1]))
    detail = {"argv": argv, "status": status, "stdout": out[:300], "stderr": err[:500], "mode": mode, "library": repr(want)[:200]}
    if want[0] == "ok":
        if exc is not None and not use_subprocess:
            ctx.violation("cli-raised-on-valid-input:%s:%s" % (cmd, type(exc).__name__), case, dict(detail, error="%s: %s" % (type(exc).__name__, exc)))
            return
        if status != 0:
            ctx.violation("cli-nonzero-exit-on-valid-input:%s" % cmd, case, detail)
            return
        try:
            val = json.loads(produced)
        except Exception:  # noqa: BLE001
            ctx.violation("cli-output-is-not-json:%s" % cmd, case, dict(detail, produced=produced[:300]))
            return
        if not strict_eq(val, want[1]):
            ctx.violation("cli-output-differs-from-library:%s" % cmd, case, dict(detail, produced=produced[:300], expected=json.dumps(want[1])[:300]))
            return
        expected_text = json.dumps(want[1], indent=2 if opts["pretty"] else None)
        if produced != expected_text:
            ctx.violation("cli-output-shape-wrong:%s:%s" % (cmd, "pretty" if opts["pretty"] else "compact"), case, dict(detail, produced=produced[:300], expected=expected_text[:300]))
            return
        if outfile is not None and out.strip():
            ctx.violation("cli-wrote-to-stdout-despite-output-file", case, detail)
            return
        ctx.count("valid_outputs_compared")
    else:
        if opts["debug"]:
            # with --debug a traceback is expected; the exit status must still be non-zero
            if status == 0:
                ctx.violation("cli-exit-zero-on-rejected-input-with-debug:%s" % cmd, case, detail)
            else:
                ctx.count("rejected_with_debug")
            return
        if exc is not None:
            ctx.violation("cli-traceback-without-debug:%s:%s" % (cmd, exc if isinstance(exc, str) else type(exc).__name__), case, dict(detail, error=str(exc)[:200]))
            return
        if status != 1:
            ctx.violation("cli-exit-status-not-1-on-rejected-input:%s:%s" % (cmd, want[1]), case, detail)
            return
        lines = [ln for ln in err.split("\n") if ln.strip()]
        if len(lines) != 1 or "Traceback" in err:
            ctx.violation("cli-stderr-not-a-one-line-message:%s:%s" % (cmd, want[1]), case, detail)
            return
        if out.strip():
            ctx.violation("cli-wrote-output-for-rejected-input:%s" % cmd, case, detail)
            return
        ctx.count("rejections_checked")
    if len(ctx.samples) < 4 or ctx.rng.random() < 0.002:
        ctx.sample({"argv": argv, "exit": status, "stdout": out[:80], "stderr": err[:100], "mode": mode})


def run_cli_on_a_terminal(argv, stdin_text, repo):
    """The tool as a child process whose standard output is a (pseudo-)terminal, as when a person runs it in a shell.
    Returns (exit status, what appeared on the terminal with the line discipline's CR-LF undone, stderr text)."""
    import pty

    env = dict(os.environ)
    env["PYTHONPATH"] = repo
    master, slave = pty.openpty()
    try:
        p = subprocess.Popen([sys.executable, "-B", "-m", "jsonpath"] + argv, stdin=subprocess.PIPE, stdout=slave, stderr=subprocess.PIPE, env=env, cwd=repo)
    finally:
        os.close(slave)
    chunks = []
    import threading

    def pump():
        while True:
            try:
                b = os.read(master, 65536)
            except OSError:
                break
            if not b:
                break
            chunks.append(b)
    t = threading.Thread(target=pump, daemon=True)
    t.start()
    try:
        _o, err = p.communicate((stdin_text or "").encode("utf-8"), timeout=60)
    finally:
        t.join(10)
        os.close(master)
    out = b"".join(chunks).decode("utf-8", "replace").replace("\r\n", "\n")
    return p.returncode, out, err.decode("utf-8", "replace")


def run_terminal(ctx):
    """Results with non-ASCII text, astral characters and a lone surrogate, printed to a terminal: the tool must write the
    same JSON serialisation it writes anywhere else."""
    from rt.harness import REPO, VERIF

    try:
        import pty

        a_, b_ = pty.openpty()
        os.close(a_)
        os.close(b_)
    except Exception as e:  # noqa: BLE001
        ctx.notes.append("no pseudo-terminal available here (%s): the terminal class did not run" % type(e).__name__)
        ctx.count("terminal_class_skipped_no_pty")
        return
    tmp = os.path.join(VERIF, "out", "C18", "tmp-terminal")
    shutil.rmtree(tmp, ignore_errors=True)
    files = Files(tmp)
    try:
        docs = ['{"a": "caf\u00e9", "b": ["\u65e5\u672c", "\ud83d\ude00"], "n": 1}', '{"a": "plain", "b": [1, 2], "n": 1}', '{"a": "\ud83d", "b": ["x"], "n": 1}', json.dumps({"a": "é", "b": ["日本"], "n": 1}, ensure_ascii=False)]
        for dt in docs:
            for cmd, expr in (("path", "$..*"), ("path", "$.a"), ("pointer", "/a"), ("pointer", ""), ("pointer", "/b/0"), ("patch", [{"op": "add", "path": "/new", "value": "\u00fc"}]), ("patch", [])):
                for pretty in (False, True):
                    opts = {"debug": False, "pretty": pretty, "no_unicode_escape": False, "expr_file": False, "doc_stdin": False, "out_file": False, "no_type_checks": False, "uri_decode": False}
                    expr_text = expr if isinstance(expr, str) else json.dumps(expr)
                    want = library_outcome(cmd, expr_text, dt, opts)
                    if want[0] != "ok":
                        continue
                    argv = (["--pretty"] if pretty else []) + [cmd] + ([files.write(expr_text)] if cmd == "patch" else ["-q" if cmd == "path" else "-p", expr_text]) + ["-f", files.write(dt)]
                    status, out, err = run_cli_on_a_terminal(argv, None, REPO)
                    ctx.evaluation()
                    ctx.case(h("terminal", cmd, expr_text, dt, pretty), True)
                    ctx.count("invocations_with_standard_output_on_a_terminal")
                    expected = json.dumps(want[1], indent=2 if pretty else None)
                    if status != 0 or out != expected:
                        ctx.violation("cli-on-a-terminal-differs-from-the-library's-serialisation:%s" % cmd, {"kind": "terminal"}, {"argv": [a if not a.startswith(tmp) else "<file>" for a in argv], "document": dt[:120], "status": status, "terminal": out[:300], "expected": expected[:300], "stderr": err[-300:]})
                        return
    finally:
        shutil.rmtree(tmp, ignore_errors=True)


def run_positioned_stdin(ctx):
    """The document on standard input where standard input is a regular file that the caller has already read a header
    from (`{ read header; json path ...; } < records.txt`): the document is what is LEFT on the stream, and the tool must
    answer for that."""
    import jsonpath
    from rt.harness import REPO, VERIF

    tmp = os.path.join(VERIF, "out", "C18", "tmp-positioned")
    shutil.rmtree(tmp, ignore_errors=True)
    files = Files(tmp)
    try:
        for header in ("# header line\n", "{\"meta\": true}\n", "x" * 5000 + "\n", "[1, 2]\n"):
            for dt in (DOC_TEXT, '[1, {"a": [2, 3]}, "s"]', '{"a": "caf\u00e9"}'):
                path = files.write(header + dt)
                for cmd, expr in (("path", "$..*"), ("pointer", ""), ("patch", [])):
                    opts = {"debug": False, "pretty": False, "no_unicode_escape": False, "expr_file": False, "doc_stdin": True, "out_file": False, "no_type_checks": False, "uri_decode": False}
                    expr_text = expr if isinstance(expr, str) else json.dumps(expr)
                    want = library_outcome(cmd, expr_text, dt, opts)
                    if want[0] != "ok":
                        continue
                    for dash in (False, True):
                        argv = [cmd] + ([files.write(expr_text)] if cmd == "patch" else ["-q" if cmd == "path" else "-p", expr_text]) + (["-f", "-"] if dash else [])
                        env = dict(os.environ)
                        env["PYTHONPATH"] = REPO
                        fd = os.open(path, os.O_RDONLY)
                        try:
                            os.lseek(fd, len(header.encode("utf-8")), os.SEEK_SET)
                            p = subprocess.run([sys.executable, "-B", "-m", "jsonpath"] + argv, stdin=fd, capture_output=True, timeout=60, env=env, cwd=REPO)
                        finally:
                            os.close(fd)
                        ctx.evaluation()
                        ctx.case(h("positioned", header[:10], dt, cmd, dash), True)
                        ctx.count("invocations_with_standard_input_positioned_past_a_header")
                        out = p.stdout.decode("utf-8", "replace")
                        if p.returncode != 0 or out != json.dumps(want[1]):
                            ctx.violation("cli-does-not-read-what-is-left-on-standard-input:%s" % cmd, {"kind": "positioned-stdin"}, {"argv": [a if not a.startswith(tmp) else "<file>" for a in argv], "header": header[:40], "status": p.returncode, "stdout": out[:200], "stderr": p.stderr.decode("utf-8", "replace")[-300:], "expected": json.dumps(want[1])[:200]})
                            return
    finally:
        shutil.rmtree(tmp, ignore_errors=True)


def run_undecodable(ctx):
    """Document and patch files whose bytes are not text in any of the encodings JSON allows (a stray 0xFF, a truncated
    UTF-8 sequence, an odd number of bytes after a UTF-16 byte-order mark, a lone continuation byte): the statement lists
    the undecodable document among the inputs that end in a one-line message, exit status 1 and no traceback."""
    from rt.harness import REPO, VERIF

    tmp = os.path.join(VERIF, "out", "C18", "tmp-undecodable")
    shutil.rmtree(tmp, ignore_errors=True)
    os.makedirs(tmp, exist_ok=True)
    files = Files(tmp)
    try:
        blobs = [b'{"a": "\xff"}', b'{"a": "caf\xc3"}', b'\xff\xfe{\x00"', b'\x80', b'[1, 2, "\xc0\xaf"]', b'{"a": 1}\xff', b'\xfe\xff\x00{\x00', b'{"\xed\xa0": 1}']
        good_doc = files.write('{"a": [1, 2], "b": "x"}')
        good_patch = files.write('[{"op": "add", "path": "/c", "value": 1}]')
        n = 0
        for blob in blobs:
            n += 1
            bad = os.path.join(tmp, "bad%d" % n)
            with open(bad, "wb") as f:
                f.write(blob)
            cases = [("path", ["path", "-q", "$.a", "-f", bad], None), ("pointer", ["pointer", "-p", "/a", "-f", bad], None), ("patch", ["patch", good_patch, "-f", bad], None), ("patch-file", ["patch", bad, "-f", good_doc], None),
                     ("path --pretty", ["--pretty", "path", "-q", "$..*", "-f", bad], None), ("pointer --uri-decode", ["pointer", "-p", "/a", "-u", "-f", bad], None)]
            # (standard input is a text stream whose decoding - strict, or with surrogateescape under the C locale - is the
            # interpreter's, before the tool sees anything: not part of this class)
            for label, argv, stdin_bytes in cases:
                env = dict(os.environ)
                env["PYTHONPATH"] = REPO
                p = subprocess.run([sys.executable, "-B", "-m", "jsonpath"] + argv, input=stdin_bytes if stdin_bytes is not None else b"", capture_output=True, timeout=60, env=env, cwd=REPO)
                err = p.stderr.decode("utf-8", "replace")
                ctx.evaluation()
                ctx.case(h("undecodable", blob, label), True)
                ctx.count("invocations_on_undecodable_documents")
                lines = [ln for ln in err.split("\n") if ln.strip()]
                if p.returncode != 1 or "Traceback" in err or len(lines) != 1 or p.stdout.strip():
                    ctx.violation("cli-does-not-reject-an-undecodable-document-cleanly:%s" % label.split(" ")[0], {"kind": "undecodable"}, {"argv": [a if not a.startswith(tmp) else "<file>" for a in argv], "bytes": repr(blob), "status": p.returncode, "stdout": p.stdout[:100].decode("utf-8", "replace"), "stderr_tail": err[-300:]})
                    return
    finally:
        shutil.rmtree(tmp, ignore_errors=True)


def run_threads(ctx, rounds):
    """Invocations of the three sub-commands running at the same time in one process (a server or a test runner driving
    the tool's own parser and handlers from several threads), with injected yields inside the tool and the library.
    Every invocation has its own files; its exit status and output file must be what the same invocation gives alone,
    i.e. what the library call with ITS options returns. Invocations differ in exactly the options that change what an
    expression means (type checks, escape decoding, URI decoding)."""
    import threading

    import jsonpath.cli as cli
    from rt import threads
    from rt.harness import VERIF

    tmp = os.path.join(VERIF, "out", "C18", "tmp-threads")
    shutil.rmtree(tmp, ignore_errors=True)
    files = Files(tmp)
    lock = threading.Lock()
    pdoc = json.dumps({"a": [1, 2, 3], "b": {"c": 1}, "A": "decoded", "\\u0041": "raw", "items": [{"v": 1}, {"v": 12}]})
    qdoc = json.dumps({"a b": "decoded", "a%20b": "raw", "A": "decoded-u", "\\u0041": "raw-u", "list": [1, 2]})
    pool = []
    for expr in ("$[?count(@..*)]", "$.items[?length(@.*) > 1]", "$.a[?@ == true || count(@) == 1]", '$["\\u0041"]', "$..[?@.v > 1 && @.v < 100].v", "$.a[*]", "$.b[?@.c == 1]", "$["):
        for ntc in (False, True):
            for nue in (False, True):
                pool.append(("path", expr, pdoc, {"no_type_checks": ntc, "no_unicode_escape": nue, "uri_decode": False, "doc_stdin": False}))
    for expr in ("/a%20b", "/\\u0041", "/a b", "/list/1", "/zz", "/A"):
        for ud in (False, True):
            for nue in (False, True):
                pool.append(("pointer", expr, qdoc, {"no_type_checks": False, "no_unicode_escape": nue, "uri_decode": ud, "doc_stdin": False}))
    for ops in ([{"op": "replace", "path": "/a%20b", "value": 9}], [{"op": "remove", "path": "/\\u0041"}], [{"op": "add", "path": "/list/-", "value": 3}, {"op": "test", "path": "/a b", "value": "decoded"}], [{"op": "remove", "path": "/zz"}]):
        for ud in (False, True):
            for nue in (False, True):
                pool.append(("patch", json.dumps(ops), qdoc, {"no_type_checks": False, "no_unicode_escape": nue, "uri_decode": ud, "doc_stdin": False}))
    wants = [library_outcome(cmd, expr, doc, opts) for cmd, expr, doc, opts in pool]
    docfiles = {pdoc: files.write(pdoc), qdoc: files.write(qdoc)}
    patchfiles = {expr: files.write(expr) for cmd, expr, _d, _o in pool if cmd == "patch"}
    ctx.count("distinct_invocations_in_the_thread_pool", len(pool))
    ctx.cell("thread_pool_outcomes", "accepted", sum(1 for w in wants if w[0] == "ok"))
    ctx.cell("thread_pool_outcomes", "rejected", sum(1 for w in wants if w[0] != "ok"))
    for rnd in range(rounds):
        errors = []

        def worker(wid, rng):
            for k in range(12):
                i = rng.randrange(len(pool))
                cmd, expr, doc, opts = pool[i]
                want = wants[i]
                with lock:
                    outfile = files.out()
                argv = (["--no-unicode-escape"] if opts["no_unicode_escape"] else []) + [cmd]
                argv += [patchfiles[expr]] if cmd == "patch" else (["-q" if cmd == "path" else "-p", expr])
                argv += ["-f", docfiles[doc], "-o", outfile]
                if opts["no_type_checks"]:
                    argv.append("--no-type-checks")
                if opts["uri_decode"]:
                    argv.append("-u")
                status, exc, args = 0, None, None
                try:
                    args = cli.setup_parser().parse_args(argv)
                    args.func(args)
                except SystemExit as e:
                    status = e.code if isinstance(e.code, int) else (0 if e.code is None else 1)
                except BaseException as e:  # noqa: BLE001
                    exc, status = e, 1
                finally:
                    for f_ in (vars(args).values() if args is not None else ()):
                        if hasattr(f_, "close") and f_ not in (sys.stdin, sys.stdout, sys.stderr, sys.__stdout__, sys.__stdin__):
                            try:
                                f_.close()
                            except Exception:  # noqa: BLE001
                                pass
                produced = open(outfile, encoding="utf-8").read() if os.path.exists(outfile) else ""
                bad = None
                if exc is not None:
                    bad = "raised %s: %s" % (type(exc).__name__, str(exc)[:120])
                elif want[0] == "ok":
                    try:
                        if status != 0 or not strict_eq(json.loads(produced), want[1]):
                            bad = "exit %d, output %s" % (status, produced[:160])
                    except Exception:  # noqa: BLE001
                        bad = "exit %d, output is not JSON: %s" % (status, produced[:160])
                elif status != 1 or produced.strip():
                    bad = "exit %d (the library rejects this input: %s), output %s" % (status, want[1], produced[:160])
                if bad:
                    errors.append({"argv": [a if not a.startswith(tmp) else "<file>" for a in argv], "alone": repr(want)[:200], "among_other_invocations": bad})
                    return
        st = threads.stress(worker, nthreads=6, files=("cli.py", "env.py", "parse.py", "lex.py", "pointer.py", "patch.py", "path.py"), seed=ctx.seed * 1000 + rnd, prob=0.06)
        ctx.evaluation(6 * 12)
        ctx.case(h("threads", st["signature"]), True)
        ctx.count("concurrent_invocations", 6 * 12)
        ctx.count("injected_yields", st["yields"])
        ctx.count("thread_switches_at_injected_yields", st["switches"])
        if st["timed_out"]:
            ctx.notes.append("a thread round timed out (inconclusive)")
        if errors:
            ctx.violation("invocation-among-concurrent-invocations-differs-from-the-invocation-alone", {"kind": "threads"}, errors[0])
            break
    shutil.rmtree(tmp, ignore_errors=True)


def option_product(cmd):
    keys = ["debug", "pretty", "no_unicode_escape", "expr_file", "doc_stdin", "out_file"]
    keys += ["no_type_checks"] if cmd == "path" else ["uri_decode"]
    for vals in itertools.product([False, True], repeat=len(keys)):
        o = dict(zip(keys, vals))
        o.setdefault("no_type_checks", False)
        o.setdefault("uri_decode", False)
        if cmd == "patch":
            if o["expr_file"]:
                continue
        yield o


def run(spec, ctx):
    from rt.harness import REPO, VERIF

    r = ctx.rng
    if spec.get("kind") == "threads":
        run_threads(ctx, spec["rounds"])
        return
    if spec.get("kind") == "terminal":
        run_terminal(ctx)
        run_positioned_stdin(ctx)
        run_undecodable(ctx)
        return
    cmd = spec["cmd"]
    tmp = os.path.join(VERIF, "out", "C18", "tmp-%s-%d" % (cmd, spec["part"]))
    shutil.rmtree(tmp, ignore_errors=True)
    files = Files(tmp)
    exprs = {"path": PATH_EXPRS, "pointer": POINTER_EXPRS, "patch": PATCHES}[cmd]
    sub_share = 0.05 if ctx.tier == "quick" else 0.25
    n = 0
    try:
        if spec.get("hyphens"):
            # the documented hyphen forms: `-f -`, `-o -` / `--output -`, `patch -`
            exprs_ = {"path": [("valid", "$.a[*]"), ("syntax", "$.a[")], "pointer": [("valid", "/a/2/b"), ("unresolvable", "/zz")], "patch": [("valid", [{"op": "add", "path": "/new", "value": 1}]), ("failing", [{"op": "remove", "path": "/zz"}])]}[cmd]
            for label, expr in exprs_:
                for doc_ok in (True, False):
                    for pretty in (False, True):
                        for dash_out in (False, True):
                            for how in ("doc-file", "doc-dash", "doc-stdin") + (("patch-dash",) if cmd == "patch" else ()):
                                opts = {"debug": False, "pretty": pretty, "no_unicode_escape": False, "expr_file": False, "doc_stdin": how in ("doc-dash", "doc-stdin"), "out_file": False, "no_type_checks": False, "uri_decode": False,
                                        "dash_out": dash_out, "dash_doc": how == "doc-dash", "dash_patch": how == "patch-dash"}
                                for sub in (False, True):
                                    check(ctx, files, cmd, label, expr, doc_ok, opts, sub, REPO)
                                    ctx.cell("hyphen_forms", "%s %s out=%s" % (cmd, how, "-" if dash_out else "default"))
                                    n += 1
                shutil.rmtree(tmp, ignore_errors=True)
                files = Files(tmp)
            ctx.count("invocations", n)
            return
        if spec.get("scale"):
            # documents and results of 1 KiB .. 2 MiB (output sizes on either side of 4 KiB, 64 KiB, 1 MiB buffers)
            # results of exactly 1024 / 4096 / 8192 / 65536 values and one more or less (where a writer that works in blocks ends
            # a block), compact and pretty, to standard output and to a file
            if cmd == "path":
                for count in (1023, 1024, 1025, 4095, 4096, 4097, 8191, 8192, 8193, 65536):
                    dt = json.dumps({"a": list(range(count)), "g": [[i, i] for i in range(count // 2)]})
                    for expr in ("$.a[*]", "$.a.*", "$.g[*][*]", "$..[?@ >= 0]"):
                        if count > 10000 and expr != "$.a[*]":
                            continue
                        for pretty, out_file in ((False, False), (True, True), (True, False), (False, True)):
                            opts = {"debug": False, "pretty": pretty, "no_unicode_escape": False, "expr_file": False, "doc_stdin": False, "out_file": out_file, "no_type_checks": False, "uri_decode": False}
                            check(ctx, files, cmd, "valid", expr, True, opts, count in (4096, 8192), REPO, doc_text=dt)
                            ctx.count("results_with_counts_around_powers_of_two")
                            n += 1
                    shutil.rmtree(tmp, ignore_errors=True)
                    files = Files(tmp)
            for n_items in (20, 80, 1200, 1400, 6000, 24000):
                big = {"items": [{"id": i, "name": "item-%d" % i, "tags": ["t%d" % (i % 7), "é"]} for i in range(n_items)], "s": "x" * (n_items * 3)}
                dt = json.dumps(big)
                exprs_ = {"path": ["$.items[*]", "$..name", "$.s"], "pointer": ["/items", "", "/s"], "patch": [[{"op": "add", "path": "/new", "value": 1}], [{"op": "copy", "from": "/items", "path": "/again"}]]}[cmd]
                for expr in exprs_:
                    for pretty, out_file, stdin_ in ((False, False, False), (True, True, False), (True, False, True), (False, True, True)):
                        opts = {"debug": False, "pretty": pretty, "no_unicode_escape": False, "expr_file": cmd == "path" and pretty, "doc_stdin": stdin_, "out_file": out_file, "no_type_checks": False, "uri_decode": False}
                        if cmd == "patch":
                            opts["expr_file"] = False
                        for sub in (False, True):
                            check(ctx, files, cmd, "valid", expr, True, opts, sub, REPO, doc_text=dt)
                            n += 1
                    shutil.rmtree(tmp, ignore_errors=True)
                    files = Files(tmp)
                ctx.cell("document_sizes", "about %d KiB" % (len(dt) // 1024))
            ctx.count("invocations", n)
            return
        if spec.get("encodings"):
            # document (and patch) files in every Unicode encoding a JSON file may arrive in, raw non-ASCII content, also under the C locale
            small = {"path": ["$.a[*]", "$..b", "$.s"], "pointer": ["/a/2/b", "/s", "/a/2"], "patch": [[{"op": "add", "path": "/new", "value": [1, {"k": "v"}]}], [], [{"op": "copy", "from": "/s", "path": "/t"}]]}[cmd]
            for expr in small:
                lone = dict(DOC, s="lone \ud800 surrogate", list=["\udfff", "y"])
                for dt in (DOC_TEXT, json.dumps(DOC, ensure_ascii=False), json.dumps(lone, ensure_ascii=False), BAD_DOC_TEXT):
                    for enc in ("utf-8", "utf-8-sig", "utf-16", "utf-16-le", "utf-16-be", "utf-32", "utf-32-le", "utf-32-be"):
                        for mode in ("inprocess", "subprocess", "subprocess-c-locale"):
                            for pretty, out_file in ((False, False), (True, True)):
                                opts = {"debug": False, "pretty": pretty, "no_unicode_escape": False, "expr_file": False, "doc_stdin": False, "out_file": out_file, "no_type_checks": False, "uri_decode": False,
                                        "doc_encoding": enc, "c_locale": mode.endswith("c-locale")}
                                if cmd == "patch" and pretty:
                                    opts["patch_encoding"] = enc
                                check(ctx, files, cmd, "valid", expr, dt != BAD_DOC_TEXT, opts, mode != "inprocess", REPO, doc_text=dt)
                                ctx.cell("document_file_encodings", "%s %s %s" % (cmd, enc, mode))
                                n += 1
                    shutil.rmtree(tmp, ignore_errors=True)
                    files = Files(tmp)
            ctx.count("invocations", n)
            return
        for i, (label, expr) in enumerate(exprs):
            if i % spec["parts"] != spec["part"]:
                continue
            if cmd == "patch" and label == "malformed-json":
                expr = '[{"op": "add", '
            for doc_ok in (True, False):
                for opts in option_product(cmd):
                    check(ctx, files, cmd, label, expr, doc_ok, opts, r.random() < sub_share, REPO)
                    n += 1
                    if files.n > 400:
                        shutil.rmtree(tmp, ignore_errors=True)
                        files = Files(tmp)
        if spec["part"] == 1:
            small = {"path": [("valid", "$..*"), ("valid", "$.readings[*]"), ("valid", "$.ok"), ("valid", "$[?@ > 1e308]")], "pointer": [("valid", ""), ("valid", "/readings/1"), ("unresolvable", "/zz")],
                     "patch": [("valid", []), ("valid", [{"op": "add", "path": "/new", "value": 1}]), ("valid", [{"op": "copy", "from": "/readings", "path": "/again"}]), ("failing", [{"op": "remove", "path": "/zz"}])]}[cmd]
            for label, expr in small:
                for dt in OVERFLOW_DOCS:
                    for opts in option_product(cmd):
                        if opts["debug"] or opts["no_unicode_escape"] or opts["expr_file"] or opts["no_type_checks"] or opts["uri_decode"]:
                            continue
                        check(ctx, files, cmd, label, expr, True, opts, r.random() < max(sub_share, 0.2), REPO, doc_text=dt)
                        ctx.count("documents_with_overflowing_numbers")
                        n += 1
        # documents whose root is a JSON string (possibly looking like JSON itself), a number, null
        if spec["part"] == 0:
            small = {"path": [("valid", "$"), ("valid", "$[0]"), ("valid", "$..*")], "pointer": [("valid", ""), ("unresolvable", "/0"), ("unresolvable", "/a")],
                     "patch": [("valid", []), ("valid", [{"op": "test", "path": "", "value": "[1, 2]"}]), ("failing", [{"op": "add", "path": "/a", "value": 1}]), ("valid", [{"op": "replace", "path": "", "value": {"r": 1}}])]}[cmd]
            for label, expr in small:
                for dt in STRING_ROOT_DOCS:
                    for opts in option_product(cmd):
                        if opts["debug"] or opts["no_unicode_escape"] or opts["expr_file"] or opts["no_type_checks"] or opts["uri_decode"]:
                            continue
                        lab = label
                        if cmd == "patch" and label == "valid" and expr and expr[0]["op"] == "test" and dt != '"[1, 2]"':
                            lab = "failed-test"
                        check(ctx, files, cmd, lab, expr, True, opts, r.random() < sub_share, REPO, doc_text=dt)
                        ctx.count("string_or_scalar_root_documents")
                        n += 1
    finally:
        shutil.rmtree(tmp, ignore_errors=True)
    ctx.count("invocations", n)


def finalize(m, tier):
    inc = []
    c = m["counters"]
    if c.get("subprocess_invocations", 0) < 50:
        inc.append("too few subprocess invocations")
    if c.get("valid_outputs_compared", 0) < 500 or c.get("rejections_checked", 0) < 500:
        inc.append("too few outputs/rejections compared")
    cells = m["matrices"].get("cmd_x_label_x_outcome", {})
    for need in ("path syntax", "path type", "path name", "path index", "pointer unresolvable", "patch failing", "patch failed-test", "JSONDecodeError"):
        if not any(need in k for k in cells):
            inc.append("class never exercised: %s" % need)
    return {"inconclusive": inc}


def replay(case, ctx):
    from rt.harness import REPO, VERIF

    if case.get("kind") == "threads":
        run_threads(ctx, 20)
        return
    if case.get("kind") == "terminal":
        run_terminal(ctx)
        return
    if case.get("kind") == "positioned-stdin":
        run_positioned_stdin(ctx)
        return
    if case.get("kind") == "undecodable":
        run_undecodable(ctx)
        return
    tmp = os.path.join(VERIF, "out", "C18", "tmp-replay")
    files = Files(tmp)
    try:
        expr = case["expr"]
        if case["cmd"] == "patch":
            try:
                expr = json.loads(expr)
            except Exception:  # noqa: BLE001
                pass
        for sub in (False, True):
            check(ctx, files, case["cmd"], case["label"], expr, case["doc_ok"], case["opts"], sub, REPO, doc_text=case.get("doc_text"))
    finally:
        shutil.rmtree(tmp, ignore_errors=True)
