"""C01 - RFC 9535 segments and selectors yield exactly the specified nodelist.

Oracle: rt.ref_jsonpath evaluates the query AST; the library gets only the rendered
text.  Compared through finditer (locations, identity/strict values), findall and
compile().findall.  Monitors: H1 selector x value-kind matrix, H2 local location
invariant, T1 anchor lines.
"""
from __future__ import annotations

import copy

import itertools

from rt import gen, hooks
from rt.jp_oracle import check_query_case, equivalent_envs
from rt.render import Renderer

ID = "C01"
LEVEL = "exploration"
RULE = (
    "query ASTs (name/index/slice/wildcard selectors, lists, child/descendant segments) generated from a seeded RNG, "
    "each rendered in several RFC 9535 spellings and evaluated on generated documents; plus complete enumerations "
    "(slices {-7..7,omitted}^3 on arrays of length 0..6; every selector kind x every value kind at child and descendant "
    "positions; every hostile member name in every spelling). A case is (query text, document); it is non-trivial when "
    "the reference nodelist is non-empty or a selector met a value of the wrong kind; distinct by hash(text, document)."
)
ASSUMPTIONS = [
    "reference evaluator rt/ref_jsonpath.py (validated against the RFC 9535 example tables by setup)",
    "documents are plain dict/list/str/int/float/bool/None (other Mapping/Sequence types and shared containers in their own classes), depth <= 6 (<= 60 in the depth class, 99..300 in the scale class), lengths up to 65537 in the scale class, no NaN/inf",
    "descendant order: document-order pre-order; a breadth-first order that satisfies the RFC constraints is also accepted",
]
SHARD_TIMEOUT = {"quick": 900, "thorough": 3600}

VALUE_KINDS = {
    "object": {"a": 1, "0": 2, "1": 3, "-1": 4, "b": {"a": 5}},
    "array": [10, 11, [12], {"a": 13}],
    "string": "hello",
    "number": 42,
    "float": 1.5,
    "boolean": True,
    "null": None,
    "empty-object": {},
    "empty-array": [],
    "empty-string": "",
}
SEL_KINDS = {
    "name": ["name", "a"], "name0": ["name", "0"], "index0": ["index", 0], "index-1": ["index", -1], "index1": ["index", 1],
    "slice": ["slice", 0, 2, None], "slice-all": ["slice", None, None, None], "slice-rev": ["slice", None, None, -1],
    "wild": ["wild"],
}


def plan(tier, seed):
    specs = []
    lens = list(range(7))
    specs.append({"kind": "slices", "lens": lens[:4]})
    specs.append({"kind": "slices", "lens": lens[4:]})
    specs.append({"kind": "matrix"})
    specs.append({"kind": "names"})
    specs.append({"kind": "scale", "part": "deep"})
    specs.append({"kind": "scale", "part": "long"})
    specs.append({"kind": "recursion-limit", "limit": None})
    specs.append({"kind": "recursion-limit", "limit": 320})
    n_rand = 12 if tier == "quick" else 44
    per = 1200 if tier == "quick" else 6000
    for i in range(n_rand):
        specs.append({"kind": "random", "n": per, "spellings": 3 if tier == "quick" else 8, "profile": ["unique", "mixed", "lookalike"][i % 3], "deep": i % 6 == 5})
    return specs


def install():
    hooks.install_h1()
    hooks.install_h2()


def check_case(ctx, ast, doc, text, cls):
    check_query_case(ctx, ast, doc, text, cls, nontrivial=True if cls in ("matrix", "names") else None)


def run(spec, ctx):
    install()
    r = ctx.rng
    kind = spec["kind"]
    if kind == "slices":
        vals = [None] + list(range(-7, 8))
        for n in spec["lens"]:
            doc = [100 + i for i in range(n)]
            for a, b, c in itertools.product(vals, vals, vals):
                ast = ["q", "$", [["child", [["slice", a, b, c]]]]]
                text = "$[%s:%s%s]" % ("" if a is None else a, "" if b is None else b, "" if c is None else ":%d" % c)
                check_case(ctx, ast, doc, text, "slices")
        ctx.count("slice_space_enumerated", len(spec["lens"]) * len(vals) ** 3)
        # every index in -15..15 against every array length, alone, in lists, after a descendant segment
        for n in spec["lens"]:
            arr = [100 + i for i in range(n)]
            for i in range(-15, 16):
                for doc, ast, text in (
                    (arr, ["q", "$", [["child", [["index", i]]]]], "$[%d]" % i),
                    ({"a": arr}, ["q", "$", [["child", [["name", "a"]]], ["child", [["index", i], ["index", 0]]]]], "$.a[%d, 0]" % i),
                    ([arr, [arr]], ["q", "$", [["desc", [["index", i]]]]], "$..[%d]" % i),
                    ({str(i): "member", "k": arr}, ["q", "$", [["child", [["index", i]]]]], "$[ %d ]" % i),
                ):
                    check_case(ctx, ast, doc, text, "indices")
        ctx.count("index_space_enumerated", len(spec["lens"]) * 31 * 4)
        if 0 in spec["lens"]:
            # long arrays, many matches, wide objects
            big = [{"i": i, "r": [i, [i]]} for i in range(400)]
            wide = {"k%d" % i: i for i in range(300)}
            for ast, doc, text in (
                (["q", "$", [["child", [["slice", 3, None, 7]]]]], big, "$[3::7]"), (["q", "$", [["child", [["slice", None, None, -1]]], ["child", [["name", "i"]]]]], big, "$[::-1].i"),
                (["q", "$", [["desc", [["index", 0]]]]], big, "$..[0]"), (["q", "$", [["desc", [["wild"]]]]], big[:120], "$..*"), (["q", "$", [["child", [["index", -400], ["index", 399], ["index", 400], ["index", -401]]]]], big, "$[-400,399,400,-401]"),
                (["q", "$", [["child", [["wild"]]]]], wide, "$.*"), (["q", "$", [["child", [["name", "k299"], ["name", "k0"], ["name", "k300"]]]]], wide, "$['k299','k0','k300']"),
                (["q", "$", [["child", [["slice", -5, None, None]]], ["child", [["name", "r"]]], ["desc", [["slice", None, 1, None]]]]], big, "$[-5:].r..[:1]"),
            ):
                check_case(ctx, ast, doc, text, "large")
    elif kind == "recursion-limit":
        # nesting on either side of where the interpreter stops recursing (the process default, and a lowered limit):
        # a refusal (RecursionError) is the interpreter's, but a nodelist that IS returned must be exact
        import sys

        import jsonpath
        from rt import deep, impl

        if spec["limit"]:
            sys.setrecursionlimit(spec["limit"])
        lim = sys.getrecursionlimit()
        for depth in sorted({lim // 2 - 3, lim // 2 + 3, lim - 60, lim - 30, lim - 20, lim - 14, lim - 10, lim - 8, lim - 6, lim - 4, lim - 2, lim, lim + 4, lim + 50, 2 * lim}):
            for shape, text, expect in (
                ("objects", "$..a", lambda lv: [x["a"] for x in lv if "a" in x]),
                ("objects", "$..['x','a']", lambda lv: [y for x in lv for y in ([x["x"]] + ([x["a"]] if "a" in x else []))]),
                ("arrays", "$..[0]", lambda lv: [x[0] for x in lv]),
                ("objects", "$..id", lambda lv: [x["id"] for x in lv]),
                ("objects", "$..*", None), ("arrays", "$..*", None),
            ):
                doc, levels = deep.chain(depth, shape)
                for api in ("findall", "finditer", "findall_async"):
                    if api == "findall":
                        o = impl.call(lambda: jsonpath.findall(text, doc))
                    elif api == "finditer":
                        o = impl.call(lambda: [m.obj for m in jsonpath.finditer(text, doc)])
                    else:
                        import asyncio

                        o = impl.call(lambda: asyncio.run(jsonpath.findall_async(text, doc)))
                    ctx.evaluation()
                    key = "limit=%s depth=limit%+d %s" % ("default" if not spec["limit"] else spec["limit"], depth - lim, "refused" if not o.ok else "answered")
                    ctx.cell("recursion_limit_outcomes", key)
                    if not o.ok:
                        if not isinstance(o.exc, RecursionError):
                            ctx.violation("deep-document-raised:%s" % type(o.exc).__name__, {"class": "recursion-limit", "limit": spec["limit"], "depth": depth, "shape": shape, "text": text}, {"error": o.desc(), "depth": depth})
                            return
                        continue
                    if expect is not None:
                        want = expect(levels)
                        ok = len(o.value) == len(want) and all(a is b or (not isinstance(b, (dict, list)) and a == b) for a, b in zip(o.value, want))
                    else:
                        ok = len(o.value) == deep.count_nodes(doc)
                        want = [None] * deep.count_nodes(doc)
                    if not ok:
                        ctx.violation("nodelist-differs-on-a-document-nested-near-the-recursion-limit", {"class": "recursion-limit", "limit": spec["limit"], "depth": depth, "shape": shape, "text": text},
                                      {"text": text, "api": api, "depth": depth, "recursion_limit": lim, "returned": len(o.value), "expected": len(want)})
                        return
        # a bush (nodes with several container children, all holding selected content) at the bottom of a chain of
        # one-element arrays, at depths from an eighth of the limit upwards: order and duplicates below any depth at which
        # an implementation might change its way of walking. Expected: the chain's levels in order, then the model's
        # nodelist for the bush alone.
        from rt import ref_jsonpath as ref_

        for depth in sorted({lim // 8, lim // 5, lim // 4 - 2, lim // 4 + 8, lim // 3, lim // 2 - 5, lim // 2 + 40, lim - 70}):
            for text, chain_hit in (("$..[0]", True), ("$..*", True), ("$..[0, 1]", True), ("$..k", False), ("$..[1:]", False), ("$..[?@[0]]", True)):
                bush = [[1, [2, [21]]], [3, [4], {"k": [5], "j": [6, [61]]}], {"k": [7, {"k": 8}], "j": [[9]]}, "s"]
                levels = [bush]
                for _ in range(depth):
                    levels.append([levels[-1]])
                levels.reverse()
                doc = levels[0]
                ast_ = {"$..[0]": ["q", "$", [["desc", [["index", 0]]]]], "$..*": ["q", "$", [["desc", [["wild"]]]]], "$..[0, 1]": ["q", "$", [["desc", [["index", 0], ["index", 1]]]]], "$..k": ["q", "$", [["desc", [["name", "k"]]]]],
                        "$..[1:]": ["q", "$", [["desc", [["slice", 1, None, None]]]]], "$..[?@[0]]": ["q", "$", [["desc", [["filter", ["test", ["q", "@", [["child", [["index", 0]]]]]]]]]]]}[text]
                tail = [v for _p, v in ref_.eval_query(ast_, bush)]
                want = (levels[1:] if chain_hit else []) + tail
                for api in ("findall", "finditer"):
                    o = impl.call((lambda: jsonpath.findall(text, doc)) if api == "findall" else (lambda: [m.obj for m in jsonpath.finditer(text, doc)]))
                    ctx.evaluation()
                    ctx.cell("recursion_limit_outcomes", "limit=%s bush at depth=limit*%.2f %s" % ("default" if not spec["limit"] else spec["limit"], depth / lim, "refused" if not o.ok else "answered"))
                    if not o.ok:
                        if not isinstance(o.exc, RecursionError):
                            ctx.violation("deep-document-raised:%s" % type(o.exc).__name__, {"class": "recursion-limit", "limit": spec["limit"]}, {"error": o.desc(), "depth": depth})
                            return
                        continue
                    ok = len(o.value) == len(want) and all(a is b or (not isinstance(b, (dict, list)) and a == b) for a, b in zip(o.value, want))
                    if not ok:
                        first = next((i for i, (a, b) in enumerate(zip(o.value, want)) if not (a is b or (not isinstance(b, (dict, list)) and a == b))), min(len(o.value), len(want)))
                        ctx.violation("nodelist-differs-below-a-deep-chain:%s" % ("length" if len(o.value) != len(want) else "order"), {"class": "recursion-limit", "limit": spec["limit"]},
                                      {"text": text, "api": api, "chain_depth": depth, "recursion_limit": lim, "returned": len(o.value), "expected": len(want), "first_difference_at": first, "got": repr(o.value[first])[:80] if first < len(o.value) else None, "want": repr(want[first])[:80] if first < len(want) else None})
                        return
        return
    elif kind == "scale":
        # sizes on either side of round thresholds: nesting 99..300, arrays and objects around 2^8, 2^10, 2^14, 2^16
        if spec["part"] == "deep":
            for depth in (99, 100, 101, 102, 128, 140, 257, 300):
                for shape in ("objects", "arrays", "mixed"):
                    v = {"n": depth, "l": [0, depth]}
                    for i in range(depth):
                        v = {"n": i, "c": v} if shape == "objects" or (shape == "mixed" and i % 2) else [v, i]
                    for ast, text in (
                        (["q", "$", [["desc", [["name", "n"]]]]], "$..n"), (["q", "$", [["desc", [["index", 1]]]]], "$..[1]"), (["q", "$", [["desc", [["wild"]]]]], "$..*"),
                        (["q", "$", [["desc", [["name", "l"]]], ["child", [["slice", 1, None, None]]]]], "$..l[1:]"), (["q", "$", [["desc", [["slice", None, None, -1]]]]], "$..[::-1]"),
                    ):
                        check_case(ctx, ast, v, text, "scale:deep")
                    ctx.cell("scale", "depth=%d %s" % (depth, shape))
        else:
            for n in (255, 256, 257, 1023, 1025, 4097, 16383, 16384, 16385, 20000, 65535, 65537):
                arr = [[i] for i in range(n)]
                obj = {"k%d" % i: [i] for i in range(n)}
                for ast, doc, text in (
                    (["q", "$", [["child", [["wild"]]]]], arr, "$[*]"), (["q", "$", [["child", [["slice", -3, None, None]]], ["child", [["index", 0]]]]], arr, "$[-3:][0]"),
                    (["q", "$", [["child", [["index", n - 1], ["index", -n], ["index", n], ["index", -n - 1]]]]], arr, "$[%d,%d,%d,%d]" % (n - 1, -n, n, -n - 1)),
                    (["q", "$", [["child", [["slice", None, None, -(n // 3)]]]]], arr, "$[::%d]" % -(n // 3)), (["q", "$", [["desc", [["index", 0]]]]], {"a": arr}, "$..[0]"),
                    (["q", "$", [["child", [["wild"]]]]], obj, "$.*"), (["q", "$", [["desc", [["wild"]]]]], obj, "$..*"), (["q", "$", [["child", [["name", "k%d" % (n - 1)], ["name", "k%d" % n]]]]], obj, "$['k%d','k%d']" % (n - 1, n)),
                ):
                    check_case(ctx, ast, doc, text, "scale:long")
                ctx.cell("scale", "length=%d" % n)
    elif kind == "matrix":
        rr = Renderer(r)
        for (vk, v), (sk, sel) in itertools.product(VALUE_KINDS.items(), SEL_KINDS.items()):
            for pos in ("child", "desc", "list", "nested"):
                if pos == "child":
                    doc, ast = {"t": v}, ["q", "$", [["child", [["name", "t"]]], ["child", [sel]]]]
                elif pos == "desc":
                    doc, ast = {"t": v, "u": [v]}, ["q", "$", [["desc", [sel]]]]
                elif pos == "list":
                    doc, ast = [v, {"t": v}], ["q", "$", [["child", [["wild"]]], ["child", [sel, ["wild"], sel]]]]
                else:
                    doc, ast = [[v], v], ["q", "$", [["desc", [["index", 0]]], ["child", [sel]]]]
                for _ in range(3):
                    check_case(ctx, ast, doc, rr.top(ast), "matrix")
                ctx.cell("value_kind_x_selector", "%s|%s|%s" % (vk, sk, pos))
        # descendant order on mixed nestings
        for _ in range(300):
            doc = gen.gen_doc(r, profile="unique", hostile=0.2, max_depth=5, fan=3)
            for ast in (["q", "$", [["desc", [["wild"]]]]], ["q", "$", [["desc", [["wild"]]], ["desc", [["index", 0], ["wild"]]]]]):
                check_case(ctx, ast, doc, rr.top(ast), "descent-order")
    elif kind == "names":
        for name in gen.ALL_NAMES:
            doc = {name: {"x": 1, name: [2, {name: 3}]}, "other": 0}
            asts = [
                ["q", "$", [["child", [["name", name]]]]],
                ["q", "$", [["desc", [["name", name]]]]],
                ["q", "$", [["child", [["name", name]]], ["child", [["name", name], ["name", "x"]]]]],
                ["q", "$", [["child", [["name", name]]], ["child", [["name", name]]], ["child", [["index", 1]]], ["child", [["name", name]]]]],
            ]
            for ast in asts:
                for i in range(12):
                    rr = Renderer(r, blanks=0.3 if i % 2 else 0.0)
                    check_case(ctx, ast, doc, rr.top(ast), "names")
            ctx.cell("name_class", gen.name_class(name))
    elif kind == "random":
        for i in range(spec["n"]):
            if spec.get("deep") and i % 10 == 0:
                doc = gen.deep_doc(r, r.randint(20, 60))
            else:
                doc = gen.gen_doc(r, profile=spec["profile"], hostile=r.choice([0.1, 0.5, 0.9]), max_depth=r.randint(2, 5), fan=r.randint(2, 5), alias=0.25 if i % 5 == 4 else 0.0)
                if i % 5 == 4:
                    ctx.count("documents_with_shared_containers")
            for _q in range(3):
                ast = gen.gen_std_query(r, doc, max_segs=4, desc=0.3)
                seen = set()
                for _s in range(spec["spellings"]):
                    text = Renderer(r, blanks=r.choice([0.0, 0.25, 0.5])).top(ast)
                    if text in seen:
                        continue
                    seen.add(text)
                    if r.random() < 0.1 and not (i % 5 == 4):
                        check_query_case(ctx, ast, doc, text, "random:other-container-types", impl_doc=gen.exotic(doc, r))
                    elif r.random() < 0.25:
                        # (a text without any backslash has no escape sequence to decode: it means the same where decoding is off)
                        name, env = r.choice(equivalent_envs() + ([escapes_off()] * 3 if "\\" not in text else []))
                        check_query_case(ctx, ast, doc, text, "random:" + name, env=env)
                        ctx.cell("configurations", name)
                    else:
                        check_case(ctx, ast, doc, text, "random")
                if r.random() < 0.06:
                    # ONE compiled query evaluated over several documents at once (lazy iterators advanced in turn, async
                    # tasks, threads): every evaluation must list exactly its own document's nodelist
                    from rt.jp_oracle import check_interleaved

                    others = [gen.gen_doc(r, profile=spec["profile"], hostile=0.3, max_depth=3, fan=r.randint(2, 4)) for _ in range(2)]
                    same_kind = [d_ for d_ in others if type(d_) is type(doc)]
                    check_interleaved(ctx, ast, Renderer(r, blanks=0.0).top(ast), [(doc, None)] + [(d_, None) for d_ in same_kind] + [(copy.deepcopy(doc), None)], "interleaved")
                    ctx.count("queries_evaluated_over_several_documents_at_once")
    for k, v in hooks.STATE.sel_matrix.items():
        ctx.cell("H1_selector_x_kind", "|".join(k), v)
    ctx.count("H2_matches_checked", hooks.STATE.h2_checked)


_ESC_OFF = []


def escapes_off():
    if not _ESC_OFF:
        import jsonpath

        _ESC_OFF.append(("escape-decoding-off", jsonpath.JSONPathEnvironment(unicode_escape=False)))
    return _ESC_OFF[0]


REQUIRED_H1 = [
    (s, k) for s in ("PropertySelector", "IndexSelector", "SliceSelector", "WildSelector")
    for k in ("object", "array", "string", "number", "boolean", "null")
] + [("RecursiveDescentSelector", "object"), ("RecursiveDescentSelector", "array")]


def finalize(m, tier):
    inc = []
    h1 = m["matrices"].get("H1_selector_x_kind", {})
    for s, k in REQUIRED_H1:
        if not h1.get("%s|%s|sync" % (s, k)):
            inc.append("H1 cell never observed: %s on %s" % (s, k))
    if m["counters"].get("H2_matches_checked", 0) < 1000:
        inc.append("H2 checked too few matches")
    if m["counters"].get("cases_with_matches", 0) < 2000:
        inc.append("too few cases with a non-empty nodelist")
    return {"inconclusive": inc, "exhaustive": False,
            "coverage": {"exhaustive_subspaces": ["slices {-7..7,omitted}^3 x array lengths 0..6 (%d evaluations)" % m["counters"].get("slice_space_enumerated", 0)]}}


def replay(case, ctx):
    install()
    if case.get("class") == "recursion-limit":
        run({"kind": "recursion-limit", "limit": case.get("limit")}, ctx)
        return
    if case.get("interleaved"):
        from rt.jp_oracle import check_interleaved

        for _ in range(6):
            check_interleaved(ctx, case["ast"], case["text"], [tuple(x) for x in case["runs"]], case.get("class", "replay"))
        return
    check_case(ctx, case["ast"], case["doc"], case["text"], case.get("class", "replay"))
