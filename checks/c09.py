"""C09 - evaluation is pure: read-only, repeatable, unaffected by caching or interleaving.

Reference result: the solo, cache-off execution of freshly compiled text.  Histories:
one compiled object x a sequence of documents/contexts x repetitions, sync and async;
interleaved lazy iterators from one compiled query; threads sharing compiled queries
under sys.monitoring yield injection (T4); gathered tasks.  Online monitor H4: every
cache cell is evaluated under exactly one (root, context) and every cache hit is
re-computed and compared.
"""
from __future__ import annotations

import asyncio
import itertools
import random
import sys
import threading
import time

from rt import gen, impl
from rt.jsonval import Snapshot, canon, h
from rt.render import Renderer

ID = "C09"
LEVEL = "exploration"
RULE = (
    "queries mixing cacheable sub-expressions ($- and _-rooted queries, constant comparisons, functions of them, list literals) "
    "with per-node ones (@, #) at nesting depth 1-3; each compiled once and driven through a history of 3-8 documents/contexts "
    "with repetitions (sync and async), interleaved lazy iterators (all orders for tiny cases, sampled otherwise), 8 threads with "
    "injected yields, and gathered tasks; {caching on, off}. A case is (query text, history); non-trivial when some evaluation in "
    "the history matches something; distinct by hash."
)
ASSUMPTIONS = ["CPython 3.12 threads under the GIL with sys.setswitchinterval(1e-6) and LINE-event yield injection; asyncio tasks on one loop"]
SHARD_TIMEOUT = {"quick": 900, "thorough": 3600}


class H4:
    """Cache-cell monitor (strong refs keep ids unique for the duration of a case)."""

    def __init__(self):
        self.cells = {}
        self.hits = 0
        self.violations = []
        self.lock = threading.Lock()

    def reset(self):
        self.cells.clear()

    @staticmethod
    def ckey(context):
        ex = context.extra_context
        return (id(context.root), id(ex) if ex else "empty")

    @staticmethod
    def same(a, b):
        from jsonpath.match import NodeList

        if isinstance(a, NodeList) or isinstance(b, NodeList):
            if not (isinstance(a, NodeList) and isinstance(b, NodeList)):
                return False
            return [(tuple(m.parts), canon(m.obj)) for m in a] == [(tuple(m.parts), canon(m.obj)) for m in b]
        try:
            return canon(a) == canon(b)
        except Exception:  # noqa: BLE001
            return a is b or a == b

    def observe(self, cell, context, was_set, res, shadow):
        with self.lock:
            ent = self.cells.setdefault(id(cell), [cell, set(), 0])
            ent[1].add(self.ckey(context))
            if len(ent[1]) > 1 and len(self.violations) < 10:
                self.violations.append("cache cell evaluated under %d different (root, context) pairs" % len(ent[1]))
            if was_set:
                ent[2] += 1
                self.hits += 1
                if not self.same(res, shadow) and len(self.violations) < 10:
                    self.violations.append("cached value differs from recomputation: %r vs %r" % (str(res)[:100], str(shadow)[:100]))


MON = H4()
_installed = []


def install():
    if _installed:
        return
    import jsonpath.filter as F

    C = F.CachingFilterExpression
    orig, orig_a = C.__dict__["evaluate"], C.__dict__["evaluate_async"]

    def evaluate(self, context):
        was = self._cached is not self._UNSET
        res = orig(self, context)
        shadow = self._expr.evaluate(context) if was else None
        MON.observe(self, context, was, res, shadow)
        return res

    async def evaluate_async(self, context):
        was = self._cached is not self._UNSET
        res = await orig_a(self, context)
        shadow = (await self._expr.evaluate_async(context)) if was else None
        MON.observe(self, context, was, res, shadow)
        return res

    C.evaluate = evaluate
    C.evaluate_async = evaluate_async
    _installed.append(1)


def fingerprint(obj, depth=0, seen=None):
    """Structural fingerprint of a compiled query's object graph (env excluded)."""
    from jsonpath.env import JSONPathEnvironment

    if seen is None:
        seen = set()
    if isinstance(obj, JSONPathEnvironment):
        return "<env>"
    if isinstance(obj, (str, int, float, bool, type(None))):
        return repr(obj)
    if id(obj) in seen or depth > 40:
        return "<seen>"
    if isinstance(obj, (list, tuple)):
        return "[" + ",".join(fingerprint(x, depth + 1, seen) for x in obj) + "]"
    if isinstance(obj, dict):
        return "{" + ",".join("%r:%s" % (k, fingerprint(v, depth + 1, seen)) for k, v in obj.items()) + "}"
    if hasattr(obj, "pattern") and hasattr(obj, "flags"):
        return "re(%r,%d)" % (obj.pattern, obj.flags)
    seen.add(id(obj))
    names = []
    for cls in type(obj).__mro__:
        for s in getattr(cls, "__slots__", ()):
            if s not in names:
                names.append(s)
    if hasattr(obj, "__dict__"):
        names += [k for k in vars(obj) if k not in names]
    parts = []
    for n in names:
        if n in ("env", "token") or n.startswith("__"):
            continue
        try:
            v = getattr(obj, n)
        except AttributeError:
            continue
        if callable(v) and not hasattr(v, "__slots__") and not hasattr(v, "__dict__"):
            continue
        parts.append("%s=%s" % (n, fingerprint(v, depth + 1, seen)))
    return "%s(%s)" % (type(obj).__name__, ";".join(parts))


def records(matches):
    return [(tuple(m.parts), canon(m.obj)) for m in matches]


def outcome(fn):
    o = impl.call(fn)
    return ("ok", o.value) if o.ok else ("raise", type(o.exc).__name__)


def gen_case(r):
    names = r.sample(["a", "b", "c", "k", "v", "0"], r.randint(2, 4))
    fg = gen.ExtFilterGen(r, names, max_depth=r.randint(1, 3), nest=2)

    def one():
        e = fg.logical()
        if r.random() < 0.6:
            # force a cacheable sub-expression next to a per-node one
            def seg(n):
                return ["child", [["name", n]]]

            def sq(root, *ns):
                return ["sq", ["q", root, [seg(n) for n in ns]]]
            inner = ["filter", ["cmp", "==", sq("@", "k"), sq("_", "k")]]
            cache = r.choice([
                ["cmp", "==", sq("$", r.choice(names)), sq("@", r.choice(names))],
                ["cmp", ">=", ["call", "count", [["nodes", ["q", "$", [["desc", [["name", r.choice(names)]]]]]]]], ["call", "length", [sq("@")]]],
                ["cmp", "in", sq("@", r.choice(names)), sq("_", "list")],
                ["test", ["q", "$", [["child", [inner]]]]],
                ["cmp", "==", ["key"], sq("$", "k")],
                ["cmp", "<", ["lit", 1], ["lit", 2]],
            ])
            e = [r.choice(["and", "or"]), cache, e]
        seg = [r.choice(["child", "desc"]), [["filter", e]]]
        return ["q", "$", [seg] if r.random() < 0.6 else [["child", [["wild"]]], seg]]
    comp = [one()]
    if r.random() < 0.2:
        comp.append([r.choice("|&"), one()])
    text = Renderer(r, blanks=0.1).compound(comp)
    hist = []
    for _ in range(r.randint(3, 8)):
        doc = gen.ext_doc(r, names + ["k"], extra=fg.witnesses)
        ex = r.choice([None, gen.CTX_DEFAULT, {"k": r.choice([2, "a", None]), "list": [r.choice(gen.MEM_LEAVES) for _ in range(3)], "o": {n: 1 for n in names}, "s": "ab", "names": names}])
        hist.append([doc, ex])
    return text, hist


def plan(tier, seed):
    q = tier == "quick"
    specs = [{"kind": "history", "n": 120 if q else 700, "reps": 20 if q else 100} for _ in range(7 if q else 22)]
    specs += [{"kind": "stack-depth", "n": 25 if q else 250}]
    specs += [{"kind": "iterators", "n": 120 if q else 700} for _ in range(4 if q else 10)]
    specs += [{"kind": "threads", "n": 12 if q else 60} for _ in range(3 if q else 10)]
    specs += [{"kind": "tasks", "n": 80 if q else 400} for _ in range(2 if q else 6)]
    return specs


_PN = []
_WRITES = [0]


def per_node_envs():
    """Environments whose match class exposes per-node data through filter_context() (the
    documented match_class hook), with caching on and off."""
    if _PN:
        return _PN
    import jsonpath

    class NodeMatch(jsonpath.JSONPathMatch):
        def filter_context(self):
            d = dict(self._filter_context)
            d["key"] = self.parts[-1] if self.parts else None
            d["depth"] = len(self.parts)
            return d

    class On(jsonpath.JSONPathEnvironment):
        match_class = NodeMatch

    _PN.extend([On(filter_caching=True), On(filter_caching=False)])
    return _PN


def per_node_context_case(ctx, r):
    """Caching on vs off under a match class whose filter context varies per node."""
    on, off = per_node_envs()
    names = ["a", "b", "k", "v"]
    doc = {n: {m: {"team": r.choice(names), "level": r.randint(1, 3), "v": r.choice([1, 2])} for m in r.sample(names, 3)} for n in r.sample(names, 3)}
    doc["kids"] = [{"level": r.randint(1, 4), "id": i, "kids": [{"level": r.randint(2, 5), "id": 10 + i}]} for i in range(3)]
    texts = ["$.*[?@.team == _.key]", "$.*.*[?@ == _.depth]", "$..kids[?@.level == _.depth].id", "$..[?@.team == _.key].v", "$.*[?_.key in ['a', 'k']]", "$..*[?@.level >= _.depth]"]
    for text in texts:
        ctx.evaluation()
        a = outcome(lambda: records(on.compile(text).finditer(doc)))
        b = outcome(lambda: records(off.compile(text).finditer(doc)))
        ctx.count("per_node_context_cases")
        if a != b:
            ctx.violation("caching-changes-the-result-under-a-per-node-filter-context", {"kind": "per-node-context", "text": text, "doc": doc}, {"text": text, "caching_on": repr(a)[:300], "caching_off": repr(b)[:300]})
            return


_RE = []


def reentrant_envs():
    """Environments with a function extension that calls back into the library while a query is being evaluated
    (counts the descendants of its argument with a nested query on the same environment, or re-enters the compiled
    query that is running), next to twins whose extension computes the same number in plain Python."""
    if _RE:
        return _RE
    import jsonpath
    from jsonpath.function_extensions import ExpressionType, FilterFunction

    def plain_count(v):
        n = 0
        stack = [v]
        while stack:
            x = stack.pop()
            kids = list(x.values()) if isinstance(x, dict) else (list(x) if isinstance(x, list) else [])
            n += len(kids)
            stack.extend(kids)
        return n

    def make(caching, reentrant):
        env = jsonpath.JSONPathEnvironment(filter_caching=caching)
        inner = {}

        class Desc(FilterFunction):
            arg_types = [ExpressionType.VALUE]
            return_type = ExpressionType.VALUE

            def __call__(self, v):
                if not isinstance(v, (dict, list)):
                    return 0
                if not reentrant:
                    return plain_count(v)
                if "p" not in inner:
                    inner["p"] = env.compile("$..*")
                return len(inner["p"].findall(v)) if len(v) % 2 else len(list(env.finditer("$..*", v)))

        class Big(FilterFunction):
            """How many children of the argument have more than one descendant: re-enters with a FILTER query."""
            arg_types = [ExpressionType.VALUE]
            return_type = ExpressionType.VALUE

            def __call__(self, v):
                if not isinstance(v, (dict, list)):
                    return 0
                if not reentrant:
                    return sum(1 for x in (v.values() if isinstance(v, dict) else v) if plain_count(x) > 1)
                return len(env.findall("$[?desc(@) > 1]", v))

        env.function_extensions["desc"] = Desc()
        env.function_extensions["big"] = Big()
        return env

    _RE.extend([make(True, True), make(False, True), make(True, False), make(False, False)])
    return _RE


def reentrant_case(ctx, r):
    envs = reentrant_envs()
    doc = gen.gen_doc(r, profile=r.choice(["unique", "mixed"]), hostile=0.1, max_depth=r.randint(3, 5), fan=r.randint(2, 4))
    texts = ["$..[?desc(@) > 1]", "$[?desc(@) == desc($)]", "$..[?big(@) >= 1]", "$..[?desc(@) > 2 && big(@) < desc(@)]", "$..[?desc(@.*) == 0]", "$[?big($) > 0]", "$..[?desc(@) > big($)]"]
    for text in texts:
        ctx.evaluation()
        outs = [outcome(lambda e=e: records(e.compile(text).finditer(doc))) for e in envs]
        ctx.count("reentrant_function_cases")
        if any(o != outs[3] for o in outs[:3]):
            ctx.violation("result-changes-when-a-function-extension-calls-back-into-the-library", {"kind": "reentrant", "text": text, "doc": doc},
                          {"text": text, "reentrant_caching_on": repr(outs[0])[:250], "reentrant_caching_off": repr(outs[1])[:250], "plain_caching_on": repr(outs[2])[:250], "plain_caching_off": repr(outs[3])[:250]})
            return
        if outs[3][0] == "ok" and outs[3][1]:
            ctx.count("reentrant_function_cases_with_matches")


_SAME = {}


def same_query_envs():
    """Environments whose function extension `again(v)` evaluates THE VERY compiled query that is being evaluated (held
    in a box) over its argument, through a lazy entry point - next to a twin that computes the same number by hand."""
    if _SAME:
        return _SAME
    import jsonpath
    from jsonpath.function_extensions import ExpressionType, FilterFunction

    text = "$.items[?@.price <= $.limit || again(@.included) > 0]"

    def by_hand(v):
        if not isinstance(v, dict) or not isinstance(v.get("items"), list):
            return 0
        lim = v.get("limit")
        n = 0
        for it in v["items"]:
            if not isinstance(it, dict):
                continue
            p_ = it.get("price")
            ok = isinstance(p_, (int, float)) and not isinstance(p_, bool) and isinstance(lim, (int, float)) and not isinstance(lim, bool) and p_ <= lim
            if ok or ("included" in it and by_hand(it["included"]) > 0):
                n += 1
        return n

    def make(caching, how):
        env = jsonpath.JSONPathEnvironment(filter_caching=caching)
        box = {}

        class Again(FilterFunction):
            arg_types = [ExpressionType.VALUE]
            return_type = ExpressionType.VALUE

            def __call__(self, v):
                if not isinstance(v, (dict, list)):
                    return 0
                if how == "by-hand":
                    return by_hand(v)
                q = box["q"]
                if how == "finditer":
                    return len(list(q.finditer(v)))
                if how == "query":
                    return len(list(q.query(v).limit(1000).values()))
                return 1 if q.match(v) is not None else 0   # "match": only > 0 matters to the query

        env.function_extensions["again"] = Again()
        box["q"] = env.compile(text)
        return env, box["q"]

    for caching in (True, False):
        for how in ("finditer", "query", "match", "by-hand"):
            _SAME[(caching, how)] = make(caching, how)
    _SAME["by_hand"] = by_hand
    return _SAME


def same_query_case(ctx, r):
    envs = same_query_envs()

    def shop(depth):
        d = {"limit": r.choice([0, 5, 50]), "items": []}
        for i in range(r.randint(1, 4)):
            it = {"price": r.choice([1, 7, 30, 99]), "id": "%d-%d" % (depth, i)}
            if depth < 3 and r.random() < 0.6:
                it["included"] = shop(depth + 1)
            d["items"].append(it)
        return d
    doc = shop(0)
    ctx.evaluation()
    outs = {}
    for key, val in envs.items():
        if key == "by_hand":
            continue
        _env, q = val
        for ep in ("findall", "finditer"):
            o = impl.call(lambda: [canon(v) for v in q.findall(doc)] if ep == "findall" else [canon(m.obj) for m in q.finditer(doc)])
            outs[(key, ep)] = ("ok", o.value) if o.ok else ("raise", type(o.exc).__name__)
    ctx.count("same_query_reentrant_cases")
    ref = outs[((False, "by-hand"), "finditer")]
    for key, got in outs.items():
        if got != ref:
            ctx.violation("result-changes-when-a-function-extension-re-enters-the-query-being-evaluated", {"kind": "same-query", "doc": doc},
                          {"caching": key[0][0], "re-entry through": key[0][1], "outer entry point": key[1], "got": repr(got)[:300], "by_hand_caching_off": repr(ref)[:300]})
            return
    if ref[0] == "ok" and ref[1]:
        ctx.count("same_query_reentrant_cases_with_matches")


def stack_depth_case(ctx, r):
    """The same compiled query, document and context evaluated from callers at very different stack depths (and from a
    fresh thread): the answer may be refused (RecursionError is the interpreter's) but, when given, must be the same."""
    import sys
    import threading

    import jsonpath

    depth = r.choice([60, 150, 220])
    shape = r.choice(["arrays", "objects"])

    def nest(leaf):
        v = leaf
        for _ in range(depth):
            v = [v] if shape == "arrays" else {"k": v}
        return v
    doc = {"want": nest(1), "items": [nest(2), nest(1), nest(True), nest(1.0)]}
    text = r.choice(["$.items[?@ == $.want]", "$.items[?@ != $.want]", "$.items[?@ == _.want]", "$.items[?$.want == $.items[1] || # == 0]", "$.items[?@ <= $.want]"])
    ex = {"want": nest(1)}
    q = jsonpath.compile(text)

    def run_():
        return [m.path for m in q.finditer(doc, filter_context=ex)]
    box = {}
    t = threading.Thread(target=lambda: box.setdefault("ref", impl.call(run_)))
    t.start()
    t.join()
    ref_ = box["ref"]
    if not ref_.ok:
        return
    lim = sys.getrecursionlimit()

    def at_depth(n):
        if n <= 0:
            return impl.call(run_)
        return at_depth(n - 1)
    for extra_frames in (0, lim // 4, lim // 2, (5 * lim) // 8, (3 * lim) // 4, (7 * lim) // 8, lim - 60):
        try:
            o = at_depth(extra_frames)
        except RecursionError:
            continue
        ctx.evaluation()
        ctx.count("evaluations_from_deep_callers")
        if not o.ok:
            if isinstance(o.exc, RecursionError):
                ctx.count("deep_caller_refusals")
                continue
            ctx.violation("evaluation-raised-from-a-deep-caller:%s" % type(o.exc).__name__, {"kind": "stack-depth"}, {"text": text, "error": o.desc()})
            return
        if o.value != ref_.value:
            ctx.violation("result-depends-on-how-deep-the-caller's-stack-is", {"kind": "stack-depth"}, {"text": text, "nesting_of_compared_values": depth, "caller_frames": extra_frames, "from_a_fresh_thread": ref_.value, "from_the_deep_caller": o.value})
            return


def threads_over_one_document(ctx, r):
    """Several threads evaluate queries that compare deeply nested containers (40..90 levels, equal down to the bottom or
    differing only there) over ONE shared document object and one shared context object, through one environment, with
    yields injected inside the comparison code: every evaluation must give what it gives alone."""
    import jsonpath
    from rt import threads

    def nest(leaf, depth, shape):
        v = leaf
        for i in range(depth):
            v = [v, i] if shape == "arrays" or (shape == "mixed" and i % 2) else {"k": v, "n": i}
        return v
    depth = r.choice([40, 60, 90])
    shape = r.choice(["arrays", "objects", "mixed"])
    doc = {"want": nest(1, depth, shape), "items": [nest(2, depth, shape), nest(1, depth, shape), nest(True, depth, shape), nest(1.0, depth, shape), nest([1], depth, shape), nest(1, depth, shape)]}
    ex = {"want": nest(2, depth, shape)}
    texts = ["$.items[?@ == $.want]", "$.items[?@ != $.want]", "$.items[?@ == _.want]", "$.items[?@ <= $.want]", "$.items[?$.want == @ || _.want == @]", "$.items[?@ == $.items[1]]"]
    qs = [(t, jsonpath.compile(t)) for t in texts]
    refs = {t: [m.path for m in q.finditer(doc, filter_context=ex)] for t, q in qs}
    errors = []

    def worker(wid, rr):
        try:
            for _ in range(10):
                t, q = rr.choice(qs)
                route = rr.choice(["compiled", "fresh compile", "module"])
                if route == "compiled":
                    got = [m.path for m in q.finditer(doc, filter_context=ex)]
                elif route == "fresh compile":
                    got = [m.path for m in jsonpath.compile(t).finditer(doc, filter_context=ex)]
                else:
                    got = [m.path for m in jsonpath.finditer(t, doc, filter_context=ex)]
                if got != refs[t]:
                    errors.append({"text": t, "route": route, "nesting": depth, "shape": shape, "alone": refs[t], "among_other_threads": got})
                    return
        except RecursionError:
            return
        except Exception as e:  # noqa: BLE001
            errors.append({"thread": wid, "raised": "%s: %s" % (type(e).__name__, e)})
    st = threads.stress(worker, nthreads=6, files=("env.py", "filter.py"), seed=r.random(), prob=0.03)
    ctx.evaluation(60)
    ctx.count("deep_comparisons_over_one_shared_document_from_threads", 60)
    ctx.count("yields_injected", st["yields"])
    if errors:
        ctx.violation("result-depends-on-what-other-threads-are-evaluating", {"kind": "stack-depth"}, errors[0])
        return False
    return True


def patterns_the_regex_engine_remarks_on(ctx, r):
    """match() / search() with patterns about which `re` has something to say the first time it compiles them (sets that
    look nested or like set operations: `[[a]`, `[a&&b]`, `[a--b]`, `[a||b]`, `[a~~b]`), every pattern never seen before
    by this process: the first evaluation, the second, one after unrelated compilations, one after other code in the
    process compiled the very same pattern text, and one after `re.purge()` must
    all select the same nodes."""
    import re
    import warnings

    import jsonpath

    for i in range(40):
        u = "%d%d" % (r.randrange(10**6), i)
        shape = r.choice(["[[%s]", "[%s&&x]", "[x--%s]", "[%s||y]", "[~~%s]", "[[:%s:]]"])
        pat = shape % u
        fn = r.choice(["match", "search"])
        doc = [{"s": u[0], "p": pat}, {"s": "zzz", "p": pat}, {"s": u[-1] + ("" if fn == "match" else "!"), "p": pat}, {"s": 7, "p": pat}]
        text = r.choice(["$[?%s(@.s, '%s')]" % (fn, pat), "$[?%s(@.s, @.p)]" % fn, "$[?%s(@.s, $[0].p)]" % fn])
        with warnings.catch_warnings():
            warnings.simplefilter("ignore", FutureWarning)
            q = jsonpath.compile(text)
            runs = []
            for stage in ("first", "second", "after unrelated compilations", "after other code compiled the same pattern text", "after re.purge()", "once more"):
                if stage == "after unrelated compilations":
                    for k in range(5):
                        re.compile("unrelated%s%d" % (u, k))
                if stage == "after other code compiled the same pattern text":
                    try:
                        re.compile(pat)
                    except re.error:
                        pass
                if stage == "after re.purge()":
                    re.purge()
                runs.append((stage, [m.path for m in q.finditer(doc)]))
        ctx.evaluation(len(runs))
        ctx.case(h("remarked", shape, fn, text.replace(u, "U")), bool(runs[0][1]))
        ctx.count("evaluations_with_patterns_the_regex_engine_remarks_on", len(runs))
        if any(got != runs[0][1] for _, got in runs):
            ctx.violation("result-depends-on-what-the-regex-engine-has-compiled-before", {"kind": "stack-depth"}, {"text": text, "document": doc, "runs": runs})
            return False
    return True


def literals_read_under_both_escape_settings(ctx, r):
    """The same filter text, holding a string literal with an escape sequence, compiled by an environment that decodes
    escapes and by one that does not, in both orders, every literal text new to the process: each environment's result is
    the one its own setting defines, whichever environment read the text first."""
    import jsonpath

    for i in range(40):
        n = "%d%d" % (r.randrange(10 ** 6), i)
        quote = r.choice("'\"")
        text = "$[?@.s == %sx\\u0041%s%s]" % (quote, n, quote)
        doc = [{"s": "xA" + n}, {"s": "x\\u0041" + n}, {"s": "x"}]
        envs = {"decoding": jsonpath.JSONPathEnvironment(), "raw": jsonpath.JSONPathEnvironment(unicode_escape=False)}
        want = {"decoding": ["$[0]"], "raw": ["$[1]"]}
        order = r.choice([["decoding", "raw", "decoding"], ["raw", "decoding", "raw"]])
        for which in order:
            got = impl.call(lambda: [m.path for m in envs[which].finditer(text, doc)])
            ctx.evaluation()
            ctx.count("literals_read_under_both_escape_settings")
            if not got.ok or got.value != want[which]:
                ctx.violation("literal-means-what-another-environment-read-it-as", {"kind": "stack-depth"}, {"text": text, "environment": which, "order": order, "got": got.desc() if not got.ok else got.value, "expected": want[which]})
                return False
        ctx.case(h("both-settings", quote, order), True)
    return True


def solo(text, doc, ex):
    """Reference: fresh environment with caching off, freshly compiled, fresh deep copy."""
    import jsonpath

    env = jsonpath.JSONPathEnvironment(filter_caching=False)
    kw = {"filter_context": impl.fresh(ex)} if ex is not None else {}
    return outcome(lambda: records(env.compile(text).finditer(impl.fresh(doc), **kw)))


def check_mon(ctx, case, where):
    if MON.violations:
        ctx.violation("H4-cache-cell:%s" % MON.violations[0].split(":")[0][:40], case, {"h4": list(MON.violations), "where": where})
        MON.violations.clear()
        return True
    return False


def run_history(ctx, text, hist, reps, case):
    import jsonpath

    r = ctx.rng
    c = impl.call(jsonpath.compile, text)
    if not c.ok:
        ctx.count("generated_query_rejected")
        return
    ctx.evaluation()
    p = c.value
    p2 = jsonpath.compile(text)
    if not (p == p2) or str(p) != str(p2):
        ctx.violation("recompiled-query-not-equal", case, {"text": text})
        return
    fp = fingerprint(p)
    refs = [solo(text, d, ex) for d, ex in hist]
    nontrivial = any(rf[0] == "ok" and rf[1] for rf in refs)
    ctx.case(h(text, canon(hist)), nontrivial)
    docs = [(impl.fresh(d), impl.fresh(ex) if ex is not None else None) for d, ex in hist]
    snaps = [(Snapshot(d), Snapshot(ex) if ex is not None else None) for d, ex in docs]
    order = list(range(len(docs))) * max(1, reps // len(docs))
    r.shuffle(order)
    for n, i in enumerate(order):
        d, ex = docs[i]
        kw = {"filter_context": ex} if ex is not None else {}
        use_async = n % 3 == 2
        MON.reset()
        if use_async:
            async def go():
                return records([m async for m in await p.finditer_async(d, **kw)])
            got = outcome(lambda: asyncio.run(go()))
        else:
            got = outcome(lambda: records(p.finditer(d, **kw)))
        if got != refs[i]:
            ctx.violation("result-depends-on-history-or-caching:%s" % ("async" if use_async else "sync"), case,
                          {"text": text, "use": n, "doc_index": i, "got": repr(got)[:400], "solo_cache_off": repr(refs[i])[:400]})
            return
        if check_mon(ctx, case, "history use %d" % n):
            return
        if n % 7 == 0:
            got2 = outcome(lambda: records(p2.finditer(d, **kw)))
            if got2 != refs[i]:
                ctx.violation("recompiled-query-behaves-differently", case, {"text": text, "got": repr(got2)[:300], "ref": repr(refs[i])[:300]})
                return
    ctx.count("evaluations_in_histories", len(order))
    # the same document object under different contexts, consecutively; then updated in place by the caller
    d0 = impl.fresh(hist[0][0])
    contexts = [ex for _, ex in hist] + [gen.CTX_DEFAULT, None, {"k": "a", "list": [3], "o": {}, "s": "", "names": []}]
    for j, ex in enumerate(contexts):
        kw = {"filter_context": impl.fresh(ex)} if ex is not None else {}
        got = outcome(lambda: records(p.finditer(d0, **kw)))
        want = solo(text, d0, ex)
        ctx.count("same_document_other_context_evaluations")
        if got != want:
            ctx.violation("result-depends-on-earlier-context-for-the-same-document", case, {"text": text, "step": j, "got": repr(got)[:300], "solo_cache_off": repr(want)[:300]})
            return
    # the caller rebinds entries of ITS filter-context mapping in place between two evaluations
    live = {"k": 2, "list": ["a", 2], "o": {"a": 1}, "s": "ab", "names": ["a"], "limit": 1}
    for step in range(3):
        got = outcome(lambda: records(p.finditer(d0, filter_context=live)))
        want = solo(text, d0, live)
        ctx.count("evaluations_after_in_place_context_update")
        if got != want:
            ctx.violation("result-ignores-in-place-update-of-the-filter-context", case, {"text": text, "step": step, "context": canon(live), "got": repr(got)[:300], "solo_cache_off": repr(want)[:300]})
            return
        live["k"] = r.choice([3, "a", None, 2])
        live["list"] = [r.choice(gen.MEM_LEAVES) for _ in range(3)]
        live["o"] = {n: 1 for n in r.sample(["a", "b", "c", "k", "v"], 2)}
        live["names"] = r.sample(["a", "b", "c"], 2)
    # the caller writes into the mappings that results hand out (match.filter_context()) after context-free evaluations
    want_none = solo(text, d0, None)
    handed = 0
    for q, kw in ((p, {}), (p, {"filter_context": {}}), (jsonpath.compile("$"), {}), (jsonpath.compile("$..*"), {}), (jsonpath.compile("$[?@]"), {})):
        o = impl.call(lambda: list(q.finditer(d0, **kw))[:3])
        for m in (o.value if o.ok else []):
            fc = m.filter_context()
            if isinstance(fc, dict):
                # alternate between filling and emptying, so that what is written differs from whatever an earlier case left behind
                if _WRITES[0] % 2:
                    fc.clear()
                else:
                    fc.update(impl.fresh(gen.CTX_DEFAULT))
                    fc["k"] = r.choice([2, "a", 3])
                handed += 1
    _WRITES[0] += 1
    ctx.count("mappings_handed_out_by_results_written_to", handed)
    for kw, label in (({}, "no context"), ({"filter_context": {}}, "empty context")):
        got = outcome(lambda: records(p.finditer(d0, **kw)))
        if got != want_none:
            ctx.violation("result-depends-on-writes-to-a-mapping-handed-out-by-an-earlier-result", case, {"text": text, "evaluated_with": label, "got": repr(got)[:300], "solo_before_the_writes": repr(want_none)[:300]})
            return
    # the document supplied as JSON text: what results hand out is the caller's, who may change it; evaluating the same
    # text again (same compiled query, a recompiled one, another environment) must give what the parsed value gives
    d_text_src = impl.fresh(hist[0][0])
    if isinstance(d_text_src, (dict, list)) and hist[0][1] is None:
        import json

        try:
            jtext = json.dumps(d_text_src)
        except (TypeError, ValueError):
            jtext = None
        if jtext is not None and json.loads(jtext) == d_text_src:
            want_text = solo(text, json.loads(jtext), None)
            for k, q in enumerate((p, p, p2, jsonpath.JSONPathEnvironment(filter_caching=False).compile(text), p)):
                o = impl.call(lambda: list(q.finditer(jtext)))
                got = ("ok", records(o.value)) if o.ok else ("raise", type(o.exc).__name__)
                ctx.count("text_document_evaluations")
                if got != want_text:
                    ctx.violation("result-for-a-json-text-document-depends-on-what-the-caller-did-with-earlier-results", case,
                                  {"text": text, "use": k, "got": repr(got)[:300], "parsed_value_solo": repr(want_text)[:300]})
                    return
                for m in (o.value if o.ok else []):
                    scribble_value(m.obj)
                    scribble_value(getattr(m, "root", None))
    # one compiled query, ONE document object and ONE non-empty context object: a pass left unfinished (match, first_one,
    # an iterator closed or abandoned, a consumer that raises), an in-place change, then a full evaluation
    from rt.jp_oracle import _mutate

    d1 = impl.fresh(hist[0][0])
    live2 = impl.fresh(hist[0][1]) if hist[0][1] else {"k": 2, "list": ["a", 2], "o": {"a": 1}, "s": "ab", "names": ["a"]}
    if isinstance(d1, (dict, list)):
        for step in range(4):
            how = r.choice(["match", "first_one", "closed-iterator", "abandoned-iterator", "consumer-raises", "async-aclose"])
            try:
                if how == "match":
                    p.match(d1, filter_context=live2)
                elif how == "first_one":
                    p.query(d1, filter_context=live2).first_one()
                elif how == "closed-iterator":
                    it_ = iter(p.finditer(d1, filter_context=live2))
                    next(it_, None)
                    getattr(it_, "close", lambda: None)()
                elif how == "abandoned-iterator":
                    it_ = iter(p.finditer(d1, filter_context=live2))
                    next(it_, None)
                    del it_
                elif how == "consumer-raises":
                    for _m in p.finditer(d1, filter_context=live2):
                        raise KeyError("stop")
                else:
                    async def part():
                        ait = await p.finditer_async(d1, filter_context=live2)
                        async for _m in ait:
                            break
                        await ait.aclose()
                    asyncio.run(part())
            except Exception:  # noqa: BLE001
                pass
            _mutate(r, d1, list(gen.MEM_LEAVES) + [[], {}, ["a"], {"a": 2}])
            if r.random() < 0.5:
                live2["k"] = r.choice([3, "a", None, 2])
                live2["list"] = [r.choice(gen.MEM_LEAVES) for _ in range(3)]
            got = outcome(lambda: records(p.finditer(d1, filter_context=live2)))
            want = solo(text, d1, live2)
            ctx.count("evaluations_after_an_unfinished_pass_and_an_in_place_change")
            if got != want:
                ctx.violation("stale-result-after-an-unfinished-pass-and-an-in-place-change", case, {"text": text, "step": step, "unfinished_pass": how, "got": repr(got)[:300], "solo_cache_off": repr(want)[:300]})
                return
    if mutate_in_place(r, d0):
        ex = hist[0][1]
        kw = {"filter_context": impl.fresh(ex)} if ex is not None else {}
        got = outcome(lambda: records(p.finditer(d0, **kw)))
        want = solo(text, d0, ex)
        ctx.count("evaluations_after_in_place_update")
        if got != want:
            ctx.violation("result-ignores-in-place-update-of-the-document", case, {"text": text, "got": repr(got)[:300], "solo_cache_off": repr(want)[:300]})
            return
    for (sd, sx), (_d, _ex) in zip(snaps, docs):
        ch = sd.changed() + (sx.changed() if sx is not None else [])
        if ch:
            ctx.violation("document-or-context-modified", case, {"text": text, "changes": ch})
            return
    if fingerprint(p) != fp:
        ctx.violation("compiled-query-modified-by-evaluation", case, {"text": text, "before": fp[:600], "after": fingerprint(p)[:600]})
        return
    if len(ctx.samples) < 3 or r.random() < 0.01:
        ctx.sample({"text": text, "history_len": len(hist), "uses": len(order), "matches_per_doc": [len(x[1]) if x[0] == "ok" else x[1] for x in refs]})


def scribble_value(v):
    if isinstance(v, dict):
        v["scribbled-by-the-caller"] = [1]
    elif isinstance(v, list):
        v.append("scribbled-by-the-caller")
        if len(v) > 1:
            v[0] = {"scribbled": True}


def mutate_in_place(r, doc):
    """The caller updates its own document between two evaluations."""
    conts = [c for _, c in __import__("rt.jsonval", fromlist=["containers"]).containers(doc)]
    r.shuffle(conts)
    for c in conts:
        if isinstance(c, dict) and c:
            k = r.choice(list(c))
            c[k] = r.choice([2, "a", "ab", None, 3, "v1", [2], {"k": 2}])
            c["k"] = r.choice([2, 3, "a"])
            return True
        if isinstance(c, list):
            c.append(r.choice([2, "a", {"k": 2, "v": 2}, "xaby"]))
            if len(c) > 1:
                c[0] = r.choice([2, "a", None])
            return True
    return False


def schedules(r, lens, limit=60):
    """Interleavings of advancing k iterators, each lens[i]+1 steps: all for tiny, sampled otherwise."""
    total = sum(n + 1 for n in lens)
    seq = [i for i, n in enumerate(lens) for _ in range(n + 1)]
    if total <= 7:
        out = set(itertools.permutations(seq))
        return list(out)[:limit * 4]
    out = set()
    for _ in range(limit):
        s = list(seq)
        r.shuffle(s)
        out.add(tuple(s))
    return list(out)


def run_iterators(ctx, text, hist, case):
    import jsonpath

    r = ctx.rng
    c = impl.call(jsonpath.compile, text)
    if not c.ok:
        return
    ctx.evaluation()
    p = c.value
    k = min(len(hist), r.randint(2, 4))
    hist = hist[:k]
    refs = [solo(text, d, ex) for d, ex in hist]
    if any(rf[0] != "ok" for rf in refs):
        ctx.count("iterators_skipped_error_case")
        return
    ctx.case(h("it", text, canon(hist)), any(rf[1] for rf in refs))
    lens = [len(rf[1]) for rf in refs]
    sched = schedules(r, lens, limit=12)
    for s in sched:
        MON.reset()
        docs = [(impl.fresh(d), impl.fresh(ex) if ex is not None else None) for d, ex in hist]
        its = [iter(p.finditer(d, **({"filter_context": ex} if ex is not None else {}))) for d, ex in docs]
        got = [[] for _ in its]
        try:
            for i in s:
                m = next(its[i], None)
                if m is not None:
                    got[i].append((tuple(m.parts), canon(m.obj)))
        except Exception as e:  # noqa: BLE001
            ctx.violation("interleaved-iterators-raised:%s" % type(e).__name__, case, {"text": text, "schedule": list(s)})
            return
        ctx.count("iterator_schedules_run")
        for i, g in enumerate(got):
            if g != refs[i][1]:
                ctx.violation("interleaved-iterators-differ-from-solo", case, {"text": text, "schedule": list(s), "iterator": i, "got": repr(g)[:300], "solo": repr(refs[i][1])[:300]})
                return
        if check_mon(ctx, case, "iterators"):
            return
    ctx.cell("iterator_schedule_space", "exhaustive" if sum(n + 1 for n in lens) <= 7 else "sampled")


T4 = 4
INJECT_FILES = ("filter.py", "selectors.py", "path.py", "env.py", "match.py")


def run_threads(ctx, cases):
    """8 threads share compiled queries; LINE-event callbacks inject yields."""
    import jsonpath

    r = ctx.rng
    compiled = []
    for text, hist in cases:
        c = impl.call(jsonpath.compile, text)
        if c.ok:
            refs = [solo(text, d, ex) for d, ex in hist]
            compiled.append((text, hist, c.value, refs))
    if not compiled:
        return
    mon = sys.monitoring
    ring = []
    workers = set()
    rnd = random.Random(r.random())
    state = {"yields": 0}

    def on_line(code, line):
        if threading.get_ident() in workers and code.co_filename.endswith(INJECT_FILES):
            if rnd.random() < 0.08:
                state["yields"] += 1
                ring.append(threading.get_ident())
                time.sleep(0)

    mon.use_tool_id(T4, "verif-t4")
    mon.register_callback(T4, mon.events.LINE, on_line)
    old = sys.getswitchinterval()
    errors = []

    def worker(wid, seed):
        workers.add(threading.get_ident())
        rr = random.Random(seed)
        for _ in range(25):
            text, hist, p, refs = rr.choice(compiled)
            i = rr.randrange(len(hist))
            d, ex = hist[i]
            d2 = impl.fresh(d)
            kw = {"filter_context": impl.fresh(ex)} if ex is not None else {}
            got = outcome(lambda: records(p.finditer(d2, **kw)))
            if got != refs[i]:
                errors.append({"text": text, "doc": d, "extra": ex, "got": repr(got)[:300], "solo": repr(refs[i])[:300]})

    try:
        sys.setswitchinterval(1e-6)
        mon.set_events(T4, mon.events.LINE)
        threads = [threading.Thread(target=worker, args=(i, r.random())) for i in range(8)]
        for t in threads:
            t.start()
        for t in threads:
            t.join(120)
    finally:
        mon.set_events(T4, 0)
        mon.free_tool_id(T4)
        sys.setswitchinterval(old)
    ctx.evaluation(200)
    ctx.count("thread_evaluations", 200)
    ctx.count("yields_injected", state["yields"])
    switches = sum(1 for a, b in zip(ring, ring[1:]) if a != b)
    ctx.count("thread_switches_at_yield_points", switches)
    sig = h(tuple(ring[:400]))
    ctx.hashes.add("thr-" + sig)
    ctx.count("thread_runs")
    ctx.cell("thread_interleaving_signatures", sig)
    for e in errors[:3]:
        ctx.violation("concurrent-threads-differ-from-solo", {"text": e["text"], "hist": [[e["doc"], e["extra"]]], "kind": "threads"}, e)
    if MON.violations:
        ctx.violation("H4-cache-cell:threads", {"text": compiled[0][0], "hist": compiled[0][1], "kind": "threads"}, {"h4": list(MON.violations)})
        MON.violations.clear()


def run_tasks(ctx, cases):
    import jsonpath

    compiled = []
    for text, hist in cases:
        c = impl.call(jsonpath.compile, text)
        if c.ok:
            compiled.append((text, hist, c.value, [solo(text, d, ex) for d, ex in hist]))

    async def one(p, d, ex):
        kw = {"filter_context": ex} if ex is not None else {}
        out = []
        async for m in await p.finditer_async(d, **kw):
            out.append((tuple(m.parts), canon(m.obj)))
            await asyncio.sleep(0)
        return out

    async def main():
        jobs = []
        meta = []
        for text, hist, p, refs in compiled:
            for i, (d, ex) in enumerate(hist):
                jobs.append(one(p, impl.fresh(d), impl.fresh(ex) if ex is not None else None))
                meta.append((text, hist, i, refs[i]))
        res = await asyncio.gather(*jobs, return_exceptions=True)
        return res, meta

    res, meta = asyncio.run(main())
    for got, (text, hist, i, ref) in zip(res, meta):
        ctx.evaluation()
        g = ("raise", type(got).__name__) if isinstance(got, Exception) else ("ok", got)
        if g != ref:
            ctx.violation("concurrent-tasks-differ-from-solo", {"text": text, "hist": hist, "kind": "tasks"}, {"text": text, "doc_index": i, "got": repr(g)[:300], "solo": repr(ref)[:300]})
    ctx.count("task_evaluations", len(res))
    if MON.violations:
        ctx.violation("H4-cache-cell:tasks", {"text": compiled[0][0], "hist": compiled[0][1], "kind": "tasks"}, {"h4": list(MON.violations)})
        MON.violations.clear()


def run(spec, ctx):
    if spec["kind"] == "stack-depth":
        # (without the H4 hook: its shadow re-evaluation would itself run out of stack and turn every deep case into a refusal)
        for _ in range(spec["n"]):
            stack_depth_case(ctx, ctx.rng)
        for _ in range(3):
            if not threads_over_one_document(ctx, ctx.rng):
                break
        patterns_the_regex_engine_remarks_on(ctx, ctx.rng)
        literals_read_under_both_escape_settings(ctx, ctx.rng)
        return
    install()
    r = ctx.rng
    kind = spec["kind"]
    if kind == "history":
        for _ in range(20):
            per_node_context_case(ctx, r)
        for _ in range(25):
            reentrant_case(ctx, r)
        for _ in range(40):
            same_query_case(ctx, r)

        # (H4's one-context-per-cell rule assumes the stock match class, whose filter context is one
        # object per evaluation; the per-node class hands out a new mapping per node by design)
        MON.violations.clear()
        MON.reset()
        # constant sub-expressions that are twins under Python's == (1 / 1.0 / true, 0 / 0.0 / false, "1" no) next to each
        # other in one filter: a cache keyed by equality of the expressions would give both the same answer
        for a, b in ((1, "true"), ("true", 1), (0, "false"), ("false", 0.0), (1.0, "true"), (1, 1.0), ("null", 0), ("'1'", 1)):
            for tmpl in ("$.items[?(@.kind == 'a' && $.flag == %s) || (@.kind == 'b' && $.flag == %s)]", "$.items[?(@.kind == 'a' && _.k == %s) || (@.kind == 'b' && _.k == %s)]",
                         "$.items[?(@.kind == 'a' && count($.flags[*]) == %s) || (@.kind == 'b' && count($.flags[*]) < %s)]", "$.items[?($.flag != %s && @.kind == 'a') || ($.flag != %s && @.kind == 'b')]",
                         "$.items[?@.kind == 'a' && $.pair == [%s] || @.kind == 'b' && $.pair == [%s]]"):
                text = tmpl % (a, b)
                hist = [[{"flag": f, "pair": [f], "flags": [1] * n, "items": [{"kind": "a"}, {"kind": "b"}, {"kind": "c"}]}, {"k": f}] for f, n in ((True, 1), (1, 0), (0, 1), (False, 0), (1.0, 2), (None, 1), ("1", 1))]
                run_history(ctx, text, hist, 14, {"text": text, "hist": hist, "kind": "history", "reps": 14})
                ctx.count("twin_constant_subexpression_cases")
        for _ in range(spec["n"]):
            text, hist = gen_case(r)
            run_history(ctx, text, hist, spec["reps"], {"text": text, "hist": hist, "kind": "history", "reps": spec["reps"]})
    elif kind == "iterators":
        for _ in range(spec["n"]):
            text, hist = gen_case(r)
            run_iterators(ctx, text, hist, {"text": text, "hist": hist, "kind": "iterators"})
    elif kind == "threads":
        for _ in range(spec["n"]):
            MON.reset()
            run_threads(ctx, [gen_case(r) for _ in range(6)])
    elif kind == "tasks":
        for _ in range(spec["n"]):
            MON.reset()
            run_tasks(ctx, [gen_case(r) for _ in range(4)])
    ctx.count("H4_cache_hits", MON.hits)
    ctx.count("H4_cells_seen_last_case", len(MON.cells))


def finalize(m, tier):
    inc = []
    c = m["counters"]
    if c.get("H4_cache_hits", 0) < 1000:
        inc.append("H4 saw fewer than 1000 cache hits (%d)" % c.get("H4_cache_hits", 0))
    if c.get("iterator_schedules_run", 0) < 200:
        inc.append("too few iterator schedules")
    if c.get("thread_switches_at_yield_points", 0) < 500:
        inc.append("too few thread switches at injected yield points")
    sigs = len(m["matrices"].get("thread_interleaving_signatures", {}))
    m["matrices"].pop("thread_interleaving_signatures", None)
    if sigs < 5:
        inc.append("too few distinct thread interleavings")
    return {"inconclusive": inc, "coverage": {"interleavings_distinct": sigs, "H4_cache_hits": c.get("H4_cache_hits", 0)}}


def replay(case, ctx):
    if case.get("kind") == "stack-depth":
        for _ in range(40):
            stack_depth_case(ctx, ctx.rng)
        for _ in range(6):
            if not threads_over_one_document(ctx, ctx.rng):
                break
        patterns_the_regex_engine_remarks_on(ctx, ctx.rng)
        literals_read_under_both_escape_settings(ctx, ctx.rng)
        return
    install()
    kind = case.get("kind", "history")
    if kind == "per-node-context":
        on, off = per_node_envs()
        a = outcome(lambda: records(on.compile(case["text"]).finditer(case["doc"])))
        b = outcome(lambda: records(off.compile(case["text"]).finditer(case["doc"])))
        ctx.evaluation()
        if a != b:
            ctx.violation("caching-changes-the-result-under-a-per-node-filter-context", case, {"caching_on": repr(a)[:300], "caching_off": repr(b)[:300]})
        return
    if kind == "same-query":
        for _ in range(60):
            same_query_case(ctx, ctx.rng)
        return
    if kind == "reentrant":
        envs = reentrant_envs()
        ctx.evaluation()
        outs = [outcome(lambda e=e: records(e.compile(case["text"]).finditer(case["doc"]))) for e in envs]
        if any(o != outs[3] for o in outs[:3]):
            ctx.violation("result-changes-when-a-function-extension-calls-back-into-the-library", case, {"outcomes": [repr(o)[:200] for o in outs]})
        return
    if kind == "iterators":
        run_iterators(ctx, case["text"], case["hist"], case)
    elif kind == "tasks":
        run_tasks(ctx, [(case["text"], case["hist"])])
    elif kind == "threads":
        run_threads(ctx, [(case["text"], case["hist"])])
    else:
        run_history(ctx, case["text"], case["hist"], case.get("reps", 20), case)
