"""C03 - every match location (path, parts, pointer, parent) identifies exactly that node.

Boundary oracle per match: the path equals the harness's RFC 9535 2.7 normalized path of
the parts and satisfies the normalized-path grammar; re-evaluating the path returns exactly
that node (same object); parts, pointer and re-parsed pointer text resolve to it; the
parent is the one-step-shorter match; equal paths <=> same node.  Online monitor H2 checks
the local location invariant on every match object the library constructs.
"""
from __future__ import annotations

import os
import re

from rt import gen, hooks, impl
from rt.jsonval import canon, h
from rt.render import Renderer, normalized_path

ID = "C03"
LEVEL = "exploration"
RULE = (
    "$-rooted queries without the keys selector (names, indices incl. negative, slices incl. negative step, wildcards, descendant "
    "segments, lists, simple filters) over documents whose member names come from the hostile pool (empty, quotes, backslashes, "
    "control characters, '/', '~', digits-only, signed look-alikes, non-BMP); every match (up to 40 per result) is put through the "
    "location laws. A case is (query text, document); non-trivial when it has at least one match with a non-empty location; "
    "distinct by hash."
)
ASSUMPTIONS = [
    "pointer text is re-parsed with escape decoding off when it contains a backslash (decoding backslash sequences is the documented meaning of the option) and with the default otherwise",
    "documents never alias a container at two locations, so `is` identifies a node",
]

NP_RE = re.compile(r"""^\$(?:\[(?:0|[1-9][0-9]*)\]|\['(?:[\x20-\x26\x28-\x5b\x5d-\U0010ffff]|\\[bfnrt'\\]|\\u00[01][0-9a-f])*'\])*$""")


def plan(tier, seed):
    n = 15 if tier == "quick" else 46
    return [{"kind": "w0"}, {"kind": "scale"}, {"kind": "recursion-limit", "limit": None}, {"kind": "recursion-limit", "limit": 320}, {"kind": "threads", "rounds": 9 if tier == "quick" else 30}] + [{"n": 500 if tier == "quick" else 10000, "profile": ["unique", "mixed"][i % 2]} for i in range(n)]


def install():
    hooks.install_h2()


def same_node(a, b):
    if isinstance(b, (list, dict)) or not isinstance(b, (str, int, float, bool, type(None))):
        return a is b
    return type(a) is type(b) and a == b


def check_match(ctx, case, doc, m, cls_cell):
    """Location laws for one match; returns a violation (mechanism, detail) or None."""
    import jsonpath
    from jsonpath import JSONPointer

    parts = tuple(m.parts)
    want_path = normalized_path(parts)
    if m.path != want_path:
        return "path-is-not-the-normalized-path-of-parts", {"path": m.path, "parts": list(parts), "expected": want_path}
    if not NP_RE.match(m.path) or re.search(r"\\u00(?:08|09|0a|0c|0d)", m.path):
        return "path-violates-normalized-path-grammar", {"path": m.path}
    o = impl.call(lambda: list(jsonpath.finditer(m.path, doc)))
    if not o.ok:
        return "normalized-path-does-not-compile-or-evaluate:%s" % type(o.exc).__name__, {"path": m.path, "error": o.desc()}
    if len(o.value) != 1 or tuple(o.value[0].parts) != parts or not same_node(o.value[0].obj, m.obj):
        return "normalized-path-does-not-return-exactly-that-node", {"path": m.path, "got": [[list(x.parts), canon(x.obj)[:60]] for x in o.value[:4]]}
    o2 = impl.call(jsonpath.findall, m.path, doc)
    if not o2.ok or len(o2.value) != 1 or not same_node(o2.value[0], m.obj):
        return "findall-of-normalized-path-differs", {"path": m.path}
    ctx.cell(cls_cell, "re-query")
    # parts walk
    cur = doc
    try:
        for p in parts:
            cur = cur[p]
    except Exception as e:  # noqa: BLE001
        return "parts-do-not-walk-the-document:%s" % type(e).__name__, {"parts": list(parts)}
    if not same_node(cur, m.obj):
        return "parts-lead-to-another-node", {"parts": list(parts)}
    # pointer
    ptr = impl.call(m.pointer)
    if not ptr.ok:
        return "pointer()-raised:%s" % type(ptr.exc).__name__, {"parts": list(parts), "error": ptr.desc()}
    r1 = impl.call(ptr.value.resolve, doc)
    if not r1.ok or not same_node(r1.value, m.obj):
        return "pointer-does-not-resolve-to-the-node", {"parts": list(parts), "pointer": str(ptr.value), "outcome": r1.desc()}
    ctx.cell(cls_cell, "pointer")
    text = str(ptr.value)
    kw = {"unicode_escape": False} if "\\" in text else {}
    if any(gen.over_limit(p) for p in parts):
        # integers beyond the index limit are rejected when pointer text is parsed: a
        # documented (and unit-tested) extension, outside the re-parse clause as in C04
        ctx.count("reparse_skipped_over_limit_integer_name")
        r2 = None
    else:
        r2 = impl.call(lambda: JSONPointer(text, **kw).resolve(doc))
    if r2 is not None and (not r2.ok or not same_node(r2.value, m.obj)):
        return "re-parsed-pointer-text-does-not-resolve-to-the-node", {"parts": list(parts), "pointer": text, "outcome": r2.desc() if not r2.ok else canon(r2.value)[:80]}
    ctx.cell(cls_cell, "re-parsed pointer")
    # parent
    if not parts:
        if m.parent is not None:
            return "root-match-has-a-parent", {}
    else:
        par = m.parent
        if par is None or tuple(par.parts) != parts[:-1]:
            return "parent-is-not-one-step-shorter", {"parts": list(parts), "parent": None if par is None else list(par.parts)}
        try:
            child = par.obj[parts[-1]]
        except Exception as e:  # noqa: BLE001
            return "parent-does-not-contain-the-last-step:%s" % type(e).__name__, {"parts": list(parts)}
        if not same_node(child, m.obj):
            return "parent-step-leads-to-another-node", {"parts": list(parts)}
        if par.path != normalized_path(parts[:-1]):
            return "parent-path-wrong", {"parent_path": par.path}
    return None


def check_case(ctx, text, doc, cls, exotic_seed=None):
    import random

    import jsonpath
    from rt.jp_oracle import equivalent_envs

    ctx.evaluation()
    case = {"text": text, "doc": doc, "class": cls} if cls not in ("surrogates", "flags-history") else {"kind": cls}
    plain_doc = doc
    if exotic_seed is not None:
        # the same JSON value held in other Mapping/Sequence implementations and subclasses of str/int/float (keys too);
        # every law is about the document as given, so the laws are checked on that object
        doc = gen.exotic(doc, random.Random(exotic_seed), p=0.5)
        case["exotic_seed"] = exotic_seed
        ctx.count("documents_of_other_container_and_scalar_types")
    hooks.STATE.h2_violations.clear()
    env = jsonpath.DEFAULT_ENV
    if cls == "random" and ctx.rng.random() < 0.2:
        name, env = ctx.rng.choice(equivalent_envs())
        ctx.cell("configurations", name)
    o = impl.call(lambda: list(env.finditer(text, doc)))
    if not o.ok:
        ctx.count("query_raised")
        return
    ms = o.value
    ctx.case(h(text, canon(plain_doc), exotic_seed), any(m.parts for m in ms))
    sel = ms if len(ms) <= 40 else ms[:20] + ctx.rng.sample(ms[20:], 20)
    for m in sel:
        classes = {gen.name_class(p) if isinstance(p, str) else "index" for p in m.parts} or {"root"}
        cell = "name_class:" + "+".join(sorted(classes))[:40]
        v = check_match(ctx, case, doc, m, "laws_by_" + ("index" if classes == {"index"} else "names"))
        for c in classes:
            ctx.cell("part_classes_checked", c)
        ctx.count("matches_checked")
        if v:
            ctx.violation(v[0], case, dict(v[1], text=text, cell=cell))
            return
    # equal paths <=> same node, over all matches of the result
    by_path = {}
    for m in ms:
        by_path.setdefault(m.path, set()).add(tuple(("name" if isinstance(p, str) else "index", p) for p in m.parts))
    if any(len(v) > 1 for v in by_path.values()):
        ctx.violation("two-nodes-share-a-path", case, {"text": text})
        return
    by_parts = {}
    for m in ms:
        by_parts.setdefault(tuple(("name" if isinstance(p, str) else "index", p) for p in m.parts), set()).add(m.path)
    if any(len(v) > 1 for v in by_parts.values()):
        ctx.violation("one-node-has-two-paths", case, {"text": text})
        return
    # views
    paths = [m.path for m in ms]
    nl = impl.call(lambda: jsonpath.NodeList(jsonpath.finditer(text, doc)).paths())
    ql = impl.call(lambda: list(jsonpath.query(text, doc).locations()))
    qp = impl.call(lambda: [str(p) for p in jsonpath.query(text, doc).pointers()])
    want_ptrs = [str(m.pointer()) for m in ms]
    if not nl.ok or nl.value != paths or not ql.ok or ql.value != paths or not qp.ok or qp.value != want_ptrs:
        ctx.violation("location-views-disagree", case, {"text": text})
        return
    if hooks.STATE.h2_violations:
        ctx.violation("H2-local-location-invariant", case, {"text": text, "h2": list(hooks.STATE.h2_violations)})
        return
    if cls == "random" and ctx.rng.random() < 0.2:
        # the async route over lazily loaded containers must report the same locations, in normalized form
        import asyncio

        from .c08 import Plan, wrap

        async def amatches():
            return [(tuple(m.parts), m.path) async for m in await jsonpath.finditer_async(text, wrap(doc, Plan({}, None, None)))]
        am = impl.call(lambda: asyncio.run(amatches()))
        ctx.count("async_route_cases")
        if not am.ok:
            ctx.violation("async-route-raised:%s" % type(am.exc).__name__, case, {"text": text, "error": am.desc()})
            return
        for parts, path in am.value:
            if path != normalized_path(parts) or not NP_RE.match(path):
                ctx.violation("async-route-reports-a-location-that-is-not-a-normalized-path", case, {"text": text, "path": path, "parts": list(parts)})
                return
        if am.value != [(tuple(m.parts), m.path) for m in ms]:
            ctx.violation("async-route-reports-other-locations-than-sync", case, {"text": text, "async": repr(am.value)[:300], "sync": repr([(tuple(m.parts), m.path) for m in ms])[:300]})
            return
    if ms and (len(ctx.samples) < 3 or ctx.rng.random() < 0.003):
        ctx.sample({"text": text, "matches": len(ms), "paths": paths[:3], "pointers": want_ptrs[:3]})


def run_w0(ctx, only=None):
    """W0: the repository's own tests run under the H2 monitor (someone else's workload)."""
    import json
    import subprocess
    import sys

    from rt.harness import REPO, VERIF

    out = os.path.join(VERIF, "out", "C03", "w0-%d.json" % os.getpid())
    env = dict(os.environ)
    env.update({"VERIF_W0_OUT": out, "PYTHONPATH": os.pathsep.join([REPO, VERIF, os.path.join(VERIF, ".deps")])})
    cmd = [sys.executable, "-B", "-m", "pytest", "-p", "rt.verif_pytest_plugin", "-q", "-p", "no:cacheprovider", "--continue-on-collection-errors"] + ([only] if only else [])
    try:
        subprocess.run(cmd, cwd=REPO, env=env, capture_output=True, timeout=600)
    except subprocess.TimeoutExpired:
        ctx.notes.append("W0 timed out")
        return
    if not os.path.exists(out):
        ctx.notes.append("W0 produced no result file")
        return
    with open(out) as f:
        res = json.load(f)
    os.unlink(out)
    ctx.count("W0_tests_run_under_monitors", res.get("tests", 0))
    ctx.count("W0_H2_matches_checked", res.get("h2_matches_checked", 0))
    ctx.count("W0_H6_contract_evaluations", res.get("h6_contract_evaluations", 0))
    for v in res.get("h2", [])[:3]:
        ctx.violation("W0:H2-local-location-invariant-under-the-repository's-own-tests", {"w0_test": v["test"]}, v)


def run_threads(ctx, rounds):
    """8 threads evaluate shared compiled queries at once, each over its own array of distinct objects; the arrays are
    longer in every round, so that indices the process has never produced before are produced concurrently (yields
    injected at statement starts in selectors.py / serialize.py / match.py).  Every match: path is the normalized path
    of its parts, and the parts lead to the matched object in that thread's own document."""
    import jsonpath

    from rt.threads import stress

    r = ctx.rng
    qs = [jsonpath.compile(t) for t in ("$[*]", "$[-1]", "$.*[0]", "$[?@.id >= 0]", "$..[0]", "$[1::7]")]
    size = 40
    for rnd in range(rounds):
        size = int(size * r.choice([2.1, 2.3, 3.1])) + r.randint(1, 9)
        errors = []
        checked = [0]
        import threading

        barrier = threading.Barrier(8)

        def worker(wid, rr):
            try:
                _work(wid, rr)
            except Exception as e:  # noqa: BLE001
                errors.append({"thread": wid, "raised": "%s: %s" % (type(e).__name__, e)})

        def _work(wid, rr):
            n = size + wid
            doc = [{"id": i, "w": wid} for i in range(n)]
            try:
                barrier.wait(20)   # all threads ask for never-produced indices at the same moment
            except threading.BrokenBarrierError:
                pass
            for q in [qs[1]] + (rr.sample(qs, 3) if size < 5000 else [qs[5]]):
                for m in q.finditer(doc):
                    parts = tuple(m.parts)
                    checked[0] += 1
                    cur = doc
                    try:
                        for p_ in parts:
                            cur = cur[p_]
                    except Exception as e:  # noqa: BLE001
                        cur = e
                    if m.path != normalized_path(parts) or cur is not m.obj:
                        errors.append({"query": str(q), "parts": list(parts), "path": m.path, "expected_path": normalized_path(parts), "thread": wid, "array_length": n})
                        return

        st = stress(worker, nthreads=8, files=("selectors.py", "serialize.py", "match.py", "path.py"), seed=r.random(), prob=0.2 if (rnd % 2 == 0 and size < 3000) else 0.01)
        ctx.evaluation(checked[0])
        ctx.count("matches_checked_under_threads", checked[0])
        ctx.count("yields_injected", st["yields"])
        ctx.count("thread_switches_at_yield_points", st["switches"])
        ctx.cell("thread_interleaving_signatures", st["signature"])
        ctx.cell("thread_round_array_lengths", "about %d" % (10 ** len(str(size))))
        for e in errors[:2]:
            ctx.violation("match-location-wrong-under-concurrent-evaluations", {"kind": "threads"}, e)
        if errors or size > 60000:
            return


def run_surrogates(ctx):
    """Member names holding surrogate code points as such: a high and a low one next to each other are TWO characters,
    a different name from the astral character the pair would encode in UTF-16. Only Python-built documents can have
    them, and a replay file cannot hold them, so the class is replayed as a whole."""
    split, astral = "\ud83d\ude00", "\U0001f600"
    docs = [{split: "split", astral: "astral", "a": {"x\ud800": 1, "\udfff": [2], "\ude00\ud83d": 3}}, {astral: "astral-only", "b": [1]}, {split: "split-only", "\ud800": {"\udc00": 4}},
            {"a" + split + "b": [5], "a" + astral + "b": [6]}, [{split: {astral: {split: 7}}}]]
    for doc in docs:
        for text in ("$..*", "$.*", "$..[0]", "$[?@]", "$..[?@ != 0]"):
            check_case(ctx, text, doc, "surrogates")
        ctx.count("documents_with_surrogate_code_points_in_names")
    import jsonpath

    # written in the query itself: literally (two code points) and as escapes (the RFC reads an escaped pair as the one character)
    d = docs[0]
    for text, want in (("$['%s']" % split, ["split"]), ('$["%s"]' % split, ["split"]), ("$['%s']" % astral, ["astral"]), ("$['\\ud83d\\ude00']", ["astral"]), ("$.a['\ude00\ud83d']", [3]), ("$.a['x\ud800']", [1])):
        o = impl.call(jsonpath.findall, text, d)
        ctx.evaluation()
        if not o.ok or o.value != want:
            ctx.violation("name-with-surrogate-code-points-selects-another-member", {"kind": "surrogates"}, {"text": ascii(text), "got": o.desc() if not o.ok else ascii(o.value), "want": ascii(want)})
            return


def run_flags_history(ctx):
    """Matches of members whose names contain %XX or backslash-u sequences, checked AFTER the same pointer texts were read
    by differently configured pointer / patch calls in this process (URI decoding, escape decoding): the default
    re-parse of a match's pointer text must not depend on what other calls did with the same text."""
    import jsonpath
    from rt import ref_pointer as rp

    doc = {"menu": {"caf%C3%A9": "u1", "café": "u2", "100%25": {"x%2Fy": "u3", "x/y": "u4"}, "100%": "u5", "x%41": ["u6"], "xA": ["u7"]}, "a%20b": "u8", "a b": "u9", "items": [{"%7E": "u10", "~": "u11", "%2F": "u12", "/": "u13"}]}
    ms = list(jsonpath.finditer("$..*", doc))
    for order in (rp.FLAG_SETTINGS[1:], rp.FLAG_SETTINGS[:0:-1]):
        for m in ms:
            text = str(m.pointer())
            for ue, ud in order:
                impl.call(lambda: jsonpath.JSONPointer(text, unicode_escape=ue, uri_decode=ud).resolve(doc))
                impl.call(lambda: jsonpath.pointer.resolve(text, doc, default=None, unicode_escape=ue, uri_decode=ud))
                impl.call(lambda: jsonpath.JSONPatch(unicode_escape=ue, uri_decode=ud).test(text, 0))
                impl.call(lambda: jsonpath.JSONPointer("/q").to("1" + text, unicode_escape=ue, uri_decode=ud))
                ctx.count("pointer_texts_first_read_under_other_decoding_options")
        for text in ("$..*", "$.menu.*", "$.items[0].*", "$..[0]"):
            check_case(ctx, text, doc, "flags-history")
    # the same for the environment's own flags: the normalized paths of matches whose member names need escapes are first
    # read by the default environment while its escape decoding is switched off (what a caller does who retries a refused
    # query "raw"), the flag is put back, and then every law is checked - through that same environment
    doc2 = {"C:\\dir": {"a\\b": 1, "q'\"": [2, {"\n": 3}]}, "t\tab": {"\u0001": 4, "\\u0041": 5, "A": 6, "\\\\": 7, "\\": 8}, "plain": [9]}
    env = jsonpath.DEFAULT_ENV
    for flag_first in (False, True):
        paths = [m.path for m in jsonpath.finditer("$..*", doc2)]
        saved = env.unicode_escape
        try:
            env.unicode_escape = flag_first
            for p_ in paths:
                impl.call(env.findall, p_, doc2)
                impl.call(env.compile, p_)
                ctx.count("normalized_paths_first_read_under_another_escape_setting")
        finally:
            env.unicode_escape = saved
        for text in ("$..*", "$.*.*", "$..[0,1]", "$['C:\\\\dir'].*"):
            check_case(ctx, text, doc2, "flags-history")


def run_async_interleaved(ctx):
    """ONE compiled query (bracketed lists of several selectors, slices, descendants, filters) evaluated through the async
    API over several documents whose result iterators are advanced in turn inside one task, and as gathered tasks over
    lazily loaded containers: every match must carry the root, the value, the location and the parent of ITS document."""
    import asyncio
    import random

    import jsonpath

    from .c08 import Plan, unwrap, wrap

    r = ctx.rng
    texts = ["$['a','b']", "$.x[0,-1]", "$..['k',0]", "$[*,'a']", "$.x[1:,0]", "$..[0,1]", "$.x[?@.k >= 0, 0]", "$['b','a'].k", "$..[?@.k]['k',0]"]
    for text in texts:
        q = jsonpath.compile(text)
        docs = [{"a": {"k": i, "0": "z"}, "b": {"k": 10 + i}, "x": [{"k": i}, {"k": 20 + i}, [i, {"k": 30 + i}]][: 2 + i % 2]} for i in range(3)]

        async def lockstep():
            its = [await q.finditer_async(d) for d in docs]
            out = [[] for _ in docs]
            live = list(range(len(docs)))
            while live:
                for i in list(live):
                    try:
                        m = await its[i].__anext__()
                    except StopAsyncIteration:
                        live.remove(i)
                        continue
                    out[i].append(m)
            return out
        o = impl.call(lambda: asyncio.run(lockstep()))
        ctx.evaluation()
        ctx.count("async_iterators_of_one_query_advanced_in_turn", len(docs))
        case = {"kind": "async-interleaved"}
        if not o.ok:
            ctx.violation("async-iterators-advanced-in-turn-raised:%s" % type(o.exc).__name__, case, {"text": text, "error": o.desc()})
            return
        for i, ms in enumerate(o.value):
            want = [(tuple(m.parts), m.path) for m in q.finditer(docs[i])]
            if [(tuple(m.parts), m.path) for m in ms] != want:
                ctx.violation("match-location-wrong-when-async-iterators-of-one-query-are-advanced-in-turn", case, {"text": text, "document": i, "got": repr([(tuple(m.parts), m.path) for m in ms])[:300], "alone": repr(want)[:300]})
                return
            for m in ms:
                cur = docs[i]
                try:
                    for p_ in m.parts:
                        cur = cur[p_]
                    par = docs[i]
                    for p_ in tuple(m.parts)[:-1]:
                        par = par[p_]
                except Exception:  # noqa: BLE001
                    cur = par = impl
                if not same_node(m.obj, cur) or m.root is not docs[i] or m.path != normalized_path(tuple(m.parts)) or (m.parts and (m.parent is None or m.parent.obj is not par)):
                    ctx.violation("match-belongs-to-another-document-when-async-iterators-of-one-query-are-advanced-in-turn", case, {"text": text, "document": i, "parts": list(m.parts), "value": canon(m.obj)[:80], "root_is_own_document": m.root is docs[i]})
                    return
        # gathered tasks over lazily loaded containers (getters that really suspend)
        async def one(d):
            plan = Plan({}, random.Random(r.random()), None)
            return [(tuple(m.parts), m.path, canon(unwrap(m.obj)), canon(unwrap(m.root))[:200]) async for m in await q.finditer_async(wrap(d, plan))]

        async def all_():
            return await asyncio.gather(*[one(d) for d in docs])
        g = impl.call(lambda: asyncio.run(all_()))
        ctx.count("gathered_async_evaluations", len(docs))
        for i in range(len(docs)):
            want = [(tuple(m.parts), m.path, canon(m.obj), canon(docs[i])[:200]) for m in q.finditer(docs[i])]
            if not g.ok or sorted(g.value[i]) != sorted(want):
                ctx.violation("match-location-wrong-in-gathered-async-evaluations-of-one-query", case, {"text": text, "document": i, "got": g.desc() if not g.ok else repr(g.value[i])[:300], "alone": repr(want)[:300]})
                return


def run_recursion_limit(ctx, limit):
    """Documents nested from half the interpreter's recursion limit up to beyond it (process default, and a lowered
    limit).  A refusal (RecursionError) is the interpreter's; every match that IS reported must carry the location of the
    node it holds: parts lead to it, the path is the normalized path of the parts, the pointer resolves to it."""
    import sys

    import jsonpath
    from rt import deep

    if limit:
        sys.setrecursionlimit(limit)
    lim = sys.getrecursionlimit()
    for depth in sorted({lim // 4, lim // 2 - 6, lim // 2 + 6, lim // 2 + 40, (3 * lim) // 4, lim - 60, lim - 30, lim - 16, lim - 8, lim + 10, 2 * lim}):
        for shape in ("mixed", "arrays", "objects"):
            doc, _levels = deep.chain(depth, shape)
            for text in ("$..[?@.id]", "$..[1]", "$..id", "$..x[0]"):
                o = impl.call(lambda: list(jsonpath.finditer(text, doc)))
                ctx.evaluation()
                ctx.cell("recursion_limit_outcomes", "limit=%s depth=limit%+d %s" % ("default" if not limit else limit, depth - lim, "refused" if not o.ok else "answered"))
                case = {"kind": "recursion-limit", "limit": limit, "depth": depth, "shape": shape, "text": text}
                if not o.ok:
                    if not isinstance(o.exc, RecursionError):
                        ctx.violation("deep-document-raised:%s" % type(o.exc).__name__, case, {"error": o.desc()})
                        return
                    continue
                ms = o.value
                for m in ms[:40] + ms[-60:] + ms[len(ms) // 2 - 20: len(ms) // 2 + 20]:
                    parts = tuple(m.parts)
                    try:
                        node = deep.walk(doc, parts)
                    except Exception as e:  # noqa: BLE001
                        node = e
                    ptr = impl.call(lambda: m.pointer().resolve(doc))
                    ctx.count("matches_checked")
                    if (node is not m.obj and not (not isinstance(m.obj, (dict, list)) and node == m.obj)) or m.path != normalized_path(parts) or not ptr.ok or (ptr.value is not m.obj and ptr.value != m.obj):
                        ctx.violation("match-location-wrong-on-a-document-nested-near-the-recursion-limit", case, {"text": text, "depth": depth, "recursion_limit": lim, "nesting_of_match": len(parts), "parts_tail": [repr(x) for x in parts[-4:]], "path_tail": m.path[-40:]})
                        return


def run(spec, ctx):
    install()
    if spec.get("kind") == "recursion-limit":
        run_recursion_limit(ctx, spec["limit"])
        return
    if spec.get("kind") == "threads":
        run_threads(ctx, spec["rounds"])
        return
    if spec.get("kind") == "w0":
        run_w0(ctx)
        return
    if spec.get("kind") == "scale":
        # locations far into long arrays and wide objects, and far down deep documents
        for n in (9, 10, 11, 99, 100, 101, 1000, 16383, 16385, 65537):
            doc = {"a": [[i] for i in range(n)], "o": {"k%d" % i: {"v": i} for i in range(min(n, 2000))}}
            for text in ("$.a[-3:]", "$.a[%d,%d,0]" % (n - 1, -n), "$.a[::%d]" % max(1, n // 5), "$.a[-1][0]", "$.o.*.v" if n <= 1000 else "$.o.k7.v", "$.a[?@[0] >= %d]" % (n - 2), "$..[?@.v == %d]" % (min(n, 2000) - 1)):
                check_case(ctx, text, doc, "scale")
            ctx.cell("scale", "length=%d" % n)
        for depth in (50, 99, 101, 150, 300):
            v = {"leaf": [depth]}
            for i in range(depth):
                v = {"c": v} if i % 2 else [v]
            for text in ("$..leaf", "$..leaf[0]", "$..[?@.leaf]"):
                check_case(ctx, text, v, "scale")
            ctx.cell("scale", "depth=%d" % depth)
        run_surrogates(ctx)
        run_flags_history(ctx)
        run_async_interleaved(ctx)
        ctx.count("H2_matches_checked", hooks.STATE.h2_checked)
        return
    r = ctx.rng
    # directed: every hostile name at depth 1-2, as member of objects inside arrays
    if spec["shard"] == 0:
        for name in gen.ALL_NAMES:
            doc = {name: {name: [1, {name: "x"}], "k": 2}, "arr": [{name: 3}]}
            for text in ("$..*", "$.*", "$..[0]", "$..[-1]", "$..[::-1]"):
                check_case(ctx, text, doc, "names")
    for _ in range(spec["n"]):
        doc = gen.gen_doc(r, profile=spec["profile"], hostile=r.choice([0.5, 0.9]), max_depth=r.randint(2, 4), fan=r.randint(2, 4))
        names = gen.doc_names(doc)[:10] or ["a"]
        for _q in range(3):
            k = r.random()
            if k < 0.7:
                ast = gen.gen_std_query(r, doc, max_segs=3, desc=0.35)
            else:
                fg = gen.FilterGen(r, names[:4], max_depth=1)
                ast = ["q", "$", gen.gen_segments(r, names, max_segs=3, filters=lambda: fg.logical())]
            check_case(ctx, Renderer(r, blanks=0.1).top(ast), doc, "random", exotic_seed=r.randrange(10 ** 6) if r.random() < 0.15 else None)
    ctx.count("H2_matches_checked", hooks.STATE.h2_checked)


def finalize(m, tier):
    inc = []
    pc = m["matrices"].get("part_classes_checked", {})
    for c in ("plain", "reserved", "digits", "punct", "quote", "ctrl", "unicode", "index"):
        if not pc.get(c):
            inc.append("no match with a %s step was checked" % c)
    for law in ("re-query", "pointer", "re-parsed pointer"):
        if not m["matrices"].get("laws_by_names", {}).get(law):
            inc.append("law never reached: %s" % law)
    if m["counters"].get("H2_matches_checked", 0) < 1000:
        inc.append("H2 checked too few matches")
    return {"inconclusive": inc}


def replay(case, ctx):
    install()
    if "w0_test" in case:
        run_w0(ctx, only=case["w0_test"])
        return
    if case.get("kind") == "threads":
        run_threads(ctx, 12)
        return
    if case.get("kind") == "surrogates":
        run_surrogates(ctx)
        return
    if case.get("kind") == "flags-history":
        run_flags_history(ctx)
        return
    if case.get("kind") == "async-interleaved":
        run_async_interleaved(ctx)
        return
    if case.get("kind") == "recursion-limit":
        run_recursion_limit(ctx, case.get("limit"))
        return
    check_case(ctx, case["text"], case["doc"], case.get("class", "replay"), exotic_seed=case.get("exotic_seed"))
