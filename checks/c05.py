"""C05 - JSON Patch application conforms to RFC 6902 for every document and patch.

Oracle: rt.ref_pointer.apply_patch (pure, on deep copies; `-`, index == length, own-child
move, strict deep `test` equality).  The library must return a JSON tree strictly equal to
the model's, or fail with a patch error exactly when the model fails (the dedicated
test-failure kind when a test's target exists and differs).  Results must be JSON values
(string member names) and no container may be reachable twice (copies are independent).
"""
from __future__ import annotations

import copy

from rt import impl, ref_pointer as rp
from rt.jsonval import aliased_containers, canon, h, is_json, nodes, strict_eq

ID = "C05"
LEVEL = "exploration"
RULE = (
    "(a) every single operation over a universe of small documents x {add, remove, replace, move, copy, test} x every path in {existing "
    "locations, one-step extensions, '-', index 0/len-1/len/len+1, '01', '+1', '1e0', missing member, under a scalar, root} x values incl. "
    "null/true/1/1.0/'1'/[]/{} and nested look-alikes x from-paths likewise - enumerated completely; (b) sampled sequences of 2-6 operations "
    "where later operations address what earlier ones created, ending sometimes in an invalid one. A case is (document, operation list); every "
    "case is non-trivial; distinct by construction (a) or hash (b)."
)
ASSUMPTIONS = ["negative indices are not generated (documented pointer extension)", "values and documents are plain JSON values without aliasing"]

DOCS = [
    {"a": 1, "1": 2, "01": 3, "-": 4, "": 5, "b": {"a": [1, 2]}},
    [],
    [1],
    [1, [2, 3], {"a": 4}],
    {"a": [], "b": [0, 1, 2], "c": {"d": {"e": 1}}},
    {},
    {"a": True, "b": 1, "c": 1.0, "d": [True], "e": [1], "f": None, "g": {"x": [1.0]}},
    [[[]], [{}], "s", None],
    {"0": "zero", "1": "one", "2": {"0": "nested"}, "10": 10, "+1": "plus"},
    "scalar-root",
    7,
    {"arr": [{"k": [10, 20, 30]}, {"k": []}], "~": 1, "/": 2, "m~n": 3, "é": 4},
]
VALUES = [None, True, 1, 1.0, "1", [], {}, [1], [True], {"a": 1}, {"a": True}, "v", {"n": [None]}]


def plan(tier, seed):
    specs = [{"kind": "flags"}, {"kind": "test-equality"}, {"kind": "scale"}, {"kind": "pointer-subclass"}, {"kind": "move-post-removal"}, {"kind": "tuples"}, {"kind": "threads", "rounds": 20 if tier == "quick" else 150}] + [{"kind": "single", "doc": i, "ops": ops} for i in range(len(DOCS)) for ops in (["add", "replace", "test", "remove"], ["move"], ["copy"])]
    for _ in range(6 if tier == "quick" else 20):
        specs.append({"kind": "sequences", "n": 2500 if tier == "quick" else 60000})
    return specs


def paths_for(doc):
    out = [[]]
    for loc, v in nodes(doc):
        toks = rp.tokens_of(loc)
        if toks and toks not in out:
            out.append(toks)
        if isinstance(v, list):
            n = len(v)
            for t in ("-", "0", str(max(n - 1, 0)), str(n), str(n + 1), "01", "+1", "1e0", "zz", "00"):
                if toks + [t] not in out:
                    out.append(toks + [t])
        elif isinstance(v, dict):
            for t in ("zz", "0", "-", "1", "01"):
                if toks + [t] not in out:
                    out.append(toks + [t])
            if toks + ["zz", "deeper"] not in out:
                out.append(toks + ["zz", "deeper"])
        else:
            for t in ("x", "0", "-"):
                out.append(toks + [t])
    return out


def test_values(doc, toks):
    vals = [None, True, 1, "1", [], {}]
    try:
        v = rp.resolve(doc, toks)
    except rp.Unresolvable:
        return vals
    vals.append(copy.deepcopy(v))

    def flip(x):
        if x is True:
            return 1
        if x is False:
            return 0
        if isinstance(x, int):
            return True if x == 1 else (False if x == 0 else float(x))
        if isinstance(x, float) and x == int(x):
            return int(x)
        if isinstance(x, list):
            return [flip(y) for y in x]
        if isinstance(x, dict):
            return {k: flip(y) for k, y in x.items()}
        return x
    vals.append(flip(copy.deepcopy(v)))
    if isinstance(v, dict) and v:
        w = copy.deepcopy(v)
        w.pop(next(iter(w)))
        vals.append(w)
        vals.append(dict(reversed(list(copy.deepcopy(v).items()))))
    return vals


def check(ctx, doc, ops, cls):
    import jsonpath

    ctx.evaluation()
    case = {"doc": doc, "ops": ops, "class": cls}
    if getattr(ctx, "_force_builder", False):
        case["builder_from_parts"] = True
    try:
        want = rp.apply_patch(doc, ops)
        fail = None
    except rp.PatchFail as e:
        want, fail = None, e
    except rp.Unspecified:
        ctx.count("unspecified_skipped")
        return
    d = copy.deepcopy(doc)
    opsc = copy.deepcopy(ops)
    if isinstance(doc, (dict, list)) and (getattr(ctx, "_force_exotic", False) or ctx.rng.random() < 0.15):
        # the document (and the operations' values) held in mutable dict / list subclasses
        from rt import gen as _gen

        d = _gen.exotic_mutable(d, ctx.rng)
        opsc = [dict(op, value=_gen.exotic_mutable(op["value"], ctx.rng)) if "value" in op else op for op in opsc]
        case["containers"] = "dict/list subclasses"
        ctx.count("documents_in_dict_and_list_subclasses")
    carrier = "list"
    if getattr(ctx, "_force_carrier", None) or ctx.rng.random() < 0.12:
        # the operations handed over in another iterable: a tuple, or a one-shot one (what a generator, map() or a lazy
        # line reader gives) - the documented argument type is any iterable of operation objects
        carrier = getattr(ctx, "_force_carrier", None) or ctx.rng.choice(["tuple", "iter", "generator", "map"])
        case["operations_given_as"] = carrier
        ctx.count("operation_lists_given_as_other_iterables")
    if isinstance(doc, (dict, list)) and "containers" not in case and (getattr(ctx, "_force_stream", None) or ctx.rng.random() < 0.08):
        # the document handed over as JSON text, a text stream or a byte stream in a Unicode encoding (with and without a
        # byte-order mark; json itself recognises utf-8/16/32 from the bytes)
        from .c08 import STREAM_FORMS, stream_of

        form = getattr(ctx, "_force_stream", None) or ctx.rng.choice(STREAM_FORMS)
        raw = ctx.rng.random() < 0.5
        try:
            d = stream_of(doc, form, raw)
            case["document_given_as"] = form
            ctx.count("documents_given_as_text_or_streams")
        except (UnicodeEncodeError, ValueError):
            d = copy.deepcopy(doc)
    given = {"list": lambda: opsc, "tuple": lambda: tuple(opsc), "iter": lambda: iter(opsc), "generator": lambda: (op_ for op_ in opsc), "map": lambda: map(dict, opsc)}[carrier]()
    if carrier != "list" and ctx.rng.random() < 0.5:
        o = impl.call(lambda: jsonpath.JSONPatch(given).apply(d))
    else:
        o = impl.call(jsonpath.patch.apply, given, d)
    opn = "+".join(op["op"] for op in ops) if len(ops) == 1 else "sequence"
    if fail is not None:
        if o.ok:
            ctx.violation("rfc-error-accepted:%s" % opn, case, {"ops": ops, "doc": canon(doc)[:200], "why": str(fail), "result": canon(o.value)[:200]})
            return
        if not isinstance(o.exc, jsonpath.JSONPatchError):
            ctx.violation("failed-with-foreign-exception:%s:%s" % (opn, type(o.exc).__name__), case, {"ops": ops, "doc": canon(doc)[:200], "error": o.desc(), "site": o.site})
            return
        if fail.test_failed and not isinstance(o.exc, jsonpath.JSONPatchTestFailure):
            ctx.violation("failed-test-not-reported-as-test-failure", case, {"ops": ops, "error": o.desc()})
            return
        ctx.cell("outcomes", "%s -> patch error" % opn)
        return
    if not o.ok:
        ctx.violation("valid-operation-failed:%s:%s" % (opn, type(o.exc).__name__), case, {"ops": ops, "doc": canon(doc)[:200], "error": o.desc(), "expected": canon(want)[:200]})
        return
    if not is_json(o.value):
        ctx.violation("result-is-not-a-json-value:%s" % opn, case, {"ops": ops, "doc": canon(doc)[:200], "result": canon(o.value)[:300]})
        return
    if not strict_eq(o.value, want):
        ctx.violation("result-differs-from-rfc:%s" % opn, case, {"ops": ops, "doc": canon(doc)[:200], "result": canon(o.value)[:300], "expected": canon(want)[:300]})
        return
    if len(ops) <= 3 and (case.get("builder_from_parts") or ctx.rng.random() < 0.15):
        # the same operations through the builder API with pointer objects built from tokens
        from jsonpath import JSONPatch, JSONPointer

        def ptr(text):
            return JSONPointer.from_parts(rp.decode(text), unicode_escape=False) if (case.get("builder_from_parts") or ctx.rng.random() < 0.5) else text
        try:
            b = JSONPatch()
            for op in copy.deepcopy(ops):
                if op["op"] in ("add", "replace", "test"):
                    getattr(b, op["op"])(ptr(op["path"]), op["value"])
                elif op["op"] == "remove":
                    b.remove(ptr(op["path"]))
                else:
                    getattr(b, op["op"])(ptr(op["from"]), ptr(op["path"]))
            ob = impl.call(b.apply, copy.deepcopy(doc))
        except Exception as e:  # noqa: BLE001
            ob = impl.Outcome(False, exc=e)
        ctx.count("builder_route_applications")
        if not ob.ok or not strict_eq(ob.value, want):
            ctx.violation("builder-route-differs-from-rfc:%s" % opn, case, {"ops": ops, "doc": canon(doc)[:200], "builder": ob.desc() if not ob.ok else canon(ob.value)[:300], "expected": canon(want)[:300]})
            return
    if aliased_containers(o.value):
        ctx.violation("result-shares-structure:%s" % opn, case, {"ops": ops, "doc": canon(doc)[:200], "result": canon(o.value)[:300]})
        return
    ctx.cell("outcomes", "%s -> document" % opn)


def _with_tuples(doc, tuple_at):
    """The document with the arrays at the given locations held as tuples (what a caller's own loader, a database
    driver or `tuple(...)` gives): arrays that can be read but not changed."""
    def build(v, loc):
        if isinstance(v, dict):
            return {k: build(x, loc + (k,)) for k, x in v.items()}
        if isinstance(v, list):
            items = [build(x, loc + (i,)) for i, x in enumerate(v)]
            return tuple(items) if list(loc) in tuple_at else items
        return v
    return build(doc, ())


def _plain(v):
    if isinstance(v, dict):
        return {k: _plain(x) for k, x in v.items()}
    if isinstance(v, (list, tuple)):
        return [_plain(x) for x in v]
    return v


def check_tuples(ctx, doc, tuple_at, op):
    """One operation on a document some of whose arrays are tuples. An operation that would have to change a tuple
    (insert into it, delete from it, replace one of its elements - as target, or as the source of a move) cannot give
    the document RFC 6902 defines, so it must fail with a patch error (or still return that document by value); every other
    operation (reading through tuples, changing containers inside them) must give the RFC's document."""
    import jsonpath

    ctx.evaluation()
    case = {"tuples": True, "doc": doc, "tuple_at": tuple_at, "op": op}
    try:
        want = rp.apply_patch(doc, [op])
        fail = None
    except rp.PatchFail as e:
        want, fail = None, e
    except rp.Unspecified:
        return
    written = []
    if op["op"] != "test":
        written.append(rp.decode(op["path"])[:-1] if op["path"] else None)
    if op["op"] == "move":
        if op["from"] == op["path"]:
            return
        written.append(rp.decode(op["from"])[:-1] if op["from"] else None)

    def is_tuple_loc(toks):
        if toks is None:
            return False
        cur, loc = doc, []
        try:
            for t in toks:
                nxt = rp.step(cur, t)
                loc.append(int(t) if isinstance(cur, list) else t)
                cur = nxt
        except rp.Unresolvable:
            return False
        return loc in tuple_at
    must_refuse = fail is not None or any(is_tuple_loc(t) for t in written)
    d = _with_tuples(doc, tuple_at)
    o = impl.call(jsonpath.patch.apply, [copy.deepcopy(op)], d)
    ctx.cell("tuple_outcomes", "%s -> %s" % (op["op"], "refused" if must_refuse else "document"))
    if must_refuse and o.ok and fail is None and strict_eq(_plain(o.value), want):
        # (the returned document is the RFC's all the same - e.g. a move to the root, where the tuple is no longer part of the result)
        ctx.count("tuple_operations_answered_with_the_rfc_document_anyway")
        return
    if must_refuse:
        if o.ok:
            ctx.violation("operation-that-must-change-an-immutable-array-reported-success:%s" % op["op"], case, {"op": op, "doc": repr(_with_tuples(doc, tuple_at))[:200], "result": repr(o.value)[:300], "why": str(fail) if fail else "the container to change is a tuple"})
            return
        if not isinstance(o.exc, jsonpath.JSONPatchError):
            ctx.violation("failed-with-foreign-exception:%s:%s" % (op["op"], type(o.exc).__name__), case, {"op": op, "error": o.desc(), "site": o.site})
            return
        return
    if not o.ok:
        ctx.violation("valid-operation-failed:%s:%s" % (op["op"], type(o.exc).__name__), case, {"op": op, "doc": repr(d)[:200], "error": o.desc(), "expected": canon(want)[:200]})
        return
    if not strict_eq(_plain(o.value), want):
        ctx.violation("result-differs-from-rfc:%s" % op["op"], case, {"op": op, "doc": repr(_with_tuples(doc, tuple_at))[:200], "result": repr(o.value)[:300], "expected": canon(want)[:300]})
        return
    ctx.count("operations_on_documents_holding_tuples")


_PTR_CLASSES = {}


def pointer_classes():
    """The stock pointer class and subclasses of it that override the documented `keys_selector` attribute."""
    if not _PTR_CLASSES:
        from jsonpath import JSONPointer

        _PTR_CLASSES["stock"] = JSONPointer
        _PTR_CLASSES["keys_selector='@'"] = type("AtPointer", (JSONPointer,), {"keys_selector": "@"})
        _PTR_CLASSES["keys_selector='key:'"] = type("WordPointer", (JSONPointer,), {"keys_selector": "key:"})
        _PTR_CLASSES["plain subclass"] = type("MyPointer", (JSONPointer,), {})
    return _PTR_CLASSES


def check_builder(ctx, doc, ops, cname):
    """The operations through the builder API with pre-parsed pointer OBJECTS of class `cname`: outcome (document or
    kind of failure) against the RFC model, whose paths are plain token sequences."""
    import jsonpath

    P = pointer_classes()[cname]
    ctx.evaluation()
    case = {"doc": doc, "ops": ops, "class": "pointer-subclass", "pointer_class": cname}
    try:
        want, fail = rp.apply_patch(doc, ops), None
    except rp.PatchFail as e:
        want, fail = None, e
    except rp.Unspecified:
        return
    try:
        b = jsonpath.JSONPatch()
        for op in copy.deepcopy(ops):
            if op["op"] in ("add", "replace", "test"):
                getattr(b, op["op"])(P(op["path"], unicode_escape=False), op["value"])
            elif op["op"] == "remove":
                b.remove(P(op["path"], unicode_escape=False))
            else:
                getattr(b, op["op"])(P(op["from"], unicode_escape=False), P(op["path"], unicode_escape=False))
        ob = impl.call(b.apply, copy.deepcopy(doc))
    except Exception as e:  # noqa: BLE001
        ob = impl.Outcome(False, exc=e)
    ctx.count("builder_route_applications")
    ctx.cell("pointer_classes", cname)
    opn = "+".join(op["op"] for op in ops) if len(ops) == 1 else "sequence"
    if fail is not None:
        if ob.ok:
            ctx.violation("rfc-error-accepted-through-builder:%s" % opn, case, {"ops": ops, "pointer_class": cname, "doc": canon(doc)[:200], "why": str(fail), "result": canon(ob.value)[:200]})
        elif not isinstance(ob.exc, jsonpath.JSONPatchError):
            ctx.violation("failed-with-foreign-exception-through-builder:%s:%s" % (opn, type(ob.exc).__name__), case, {"ops": ops, "pointer_class": cname, "error": ob.desc()})
        elif fail.test_failed and not isinstance(ob.exc, jsonpath.JSONPatchTestFailure):
            ctx.violation("failed-test-not-reported-as-test-failure", case, {"ops": ops, "error": ob.desc()})
        return
    if not ob.ok or not strict_eq(ob.value, want):
        ctx.violation("builder-route-differs-from-rfc:%s" % opn, case, {"ops": ops, "pointer_class": cname, "builder": ob.desc() if not ob.ok else canon(ob.value)[:300], "expected": canon(want)[:300]})


def gen_sequence(r, doc):
    """Operations generated against the model's evolving document, so later ones address what earlier ones made."""
    cur = copy.deepcopy(doc)
    ops = []
    for i in range(r.randint(2, 6)):
        ps = paths_for(cur)
        name = r.choice(["add", "add", "remove", "replace", "move", "copy", "test"])
        p = r.choice(ps)
        op = {"op": name, "path": rp.encode(p)}
        if name in ("add", "replace"):
            op["value"] = copy.deepcopy(r.choice(VALUES + [{"new": [i]}, [i, {"k": i}]]))
        elif name == "test":
            op["value"] = r.choice(test_values(cur, p))
        elif name in ("move", "copy"):
            op["from"] = rp.encode(r.choice(ps))
        ops.append(op)
        try:
            cur = rp.apply_op(cur, copy.deepcopy(op))
        except (rp.PatchFail, rp.Unspecified):
            break
    return ops


def run(spec, ctx):
    r = ctx.rng
    if spec["kind"] == "flags":
        from rt import flag_history

        flag_history.run(ctx)
        return
    if spec["kind"] == "threads":
        # one patch object applied by 8 threads at once to documents whose leaves carry the thread's tag (the workload
        # of C15, judged here against the RFC model of each thread's own document)
        from .c15 import run_threads

        run_threads(ctx, spec["rounds"])
        return
    if spec["kind"] == "move-post-removal":
        # RFC 6902 4.4: a move is a remove followed by an add, so its `path` is read against the document AFTER the source
        # is gone.  Every source x every location (and one- and two-step extension) of the post-removal document.
        extra = [[0, {"x": {}}, {"y": {}}], {"a": [0, [], [1]]}, [[1], [2, [3]], {"k": [4]}, 5], {"a": [{"b": [1, 2]}, {"c": {}}, [[]]], "z": {"a": [0]}}]
        n_ = 0
        for doc in [d for d in DOCS if isinstance(d, (dict, list))] + extra:
            for src in paths_for(doc):
                if not src:
                    continue
                try:
                    after = rp.apply_op(copy.deepcopy(doc), {"op": "remove", "path": rp.encode(src)})
                except (rp.PatchFail, rp.Unspecified):
                    continue
                targets = list(paths_for(after))
                for t in list(targets):
                    try:
                        v_ = rp.resolve(after, t)
                    except rp.Unresolvable:
                        continue
                    if isinstance(v_, dict):
                        targets += [t + ["k"], t + ["k", "k2"]]
                    elif isinstance(v_, list):
                        targets += [t + ["-"], t + [str(len(v_))], t + ["0", "k"]]
                seen_ = set()
                for t in targets:
                    key_ = rp.encode(t)
                    if key_ in seen_:
                        continue
                    seen_.add(key_)
                    for name in ("move", "copy"):
                        check(ctx, doc, [{"op": name, "from": rp.encode(src), "path": key_}], "move-post-removal")
                        n_ += 1
        ctx.bulk(n_)
        ctx.count("post_removal_targets", n_)
        return
    if spec["kind"] == "pointer-subclass":
        # names that begin with what a pointer class treats as its key marker, next to the names they would mark
        docs = [{"a": 1, "b": [1, 2], "@b": "at-b", "#c": 3, "c": {"x": 1}, "key:a": "ka", "~": 0}, {"a": {"a": 1}, "@": 2, "x": ["a", "@a"]}, ["a", "@0", {"0": 1, "@0": 2}]]
        toks = ["a", "@a", "@b", "#a", "#c", "~a", "@zz", "@0", "#0", "key:a", "key:b", "@", "c", "@c", "x", "0", "2", "-"]
        n_ = 0
        for doc in docs:
            paths = ["/" + rp.encode_token(t) for t in toks] + ["/c/" + rp.encode_token(t) for t in ("x", "@x", "#x", "key:x")] + ["/2/" + rp.encode_token(t) for t in ("0", "@0", "#0")]
            for cname in pointer_classes():
                for p_ in paths:
                    for ops in ([{"op": "replace", "path": p_, "value": "R"}], [{"op": "remove", "path": p_}], [{"op": "test", "path": p_, "value": "a"}], [{"op": "test", "path": p_, "value": 1}], [{"op": "add", "path": p_, "value": "A"}],
                                [{"op": "move", "from": p_, "path": "/moved"}], [{"op": "copy", "from": p_, "path": "/copied"}], [{"op": "copy", "from": "/a", "path": p_}] if isinstance(doc, dict) else [{"op": "copy", "from": "/0", "path": p_}]):
                        check_builder(ctx, doc, ops, cname)
                        n_ += 1
        ctx.bulk(n_)
        return
    if spec["kind"] == "scale":
        # operations far into long arrays and wide objects: multi-digit indices, index == length, sizes around powers of two
        n_ops = 0
        for n in (9, 10, 11, 100, 101, 1000, 4097, 16384, 16385, 65537):
            doc = {"a": list(range(n)), "o": {str(i): i for i in range(min(n, 3000))}, "b": []}
            for ops in ([{"op": "add", "path": "/a/%d" % n, "value": "end"}], [{"op": "add", "path": "/a/%d" % (n + 1), "value": "beyond"}], [{"op": "add", "path": "/a/%d" % (n - 1), "value": "before-last"}], [{"op": "remove", "path": "/a/%d" % (n - 1)}],
                        [{"op": "remove", "path": "/a/%d" % n}], [{"op": "replace", "path": "/a/%d" % (n // 2), "value": [n]}], [{"op": "move", "from": "/a/%d" % (n - 1), "path": "/a/0"}], [{"op": "move", "from": "/a/0", "path": "/a/%d" % (n - 1)}],
                        [{"op": "move", "from": "/a/0", "path": "/a/%d" % n}], [{"op": "copy", "from": "/a/%d" % (n - 1), "path": "/a/-"}, {"op": "test", "path": "/a/%d" % n, "value": n - 1}], [{"op": "copy", "from": "/a", "path": "/b/0"}, {"op": "remove", "path": "/b/0/%d" % (n - 1)}, {"op": "test", "path": "/a/%d" % (n - 1), "value": n - 1}],
                        [{"op": "test", "path": "/o/%d" % (min(n, 3000) - 1), "value": min(n, 3000) - 1}, {"op": "add", "path": "/o/%d" % n, "value": "new"}], [{"op": "remove", "path": "/o/10"}, {"op": "add", "path": "/o/10", "value": "back"}] if n > 10 else [{"op": "add", "path": "/o/10", "value": "new"}]):
                check(ctx, doc, ops, "scale")
                n_ops += 1
            ctx.cell("scale", "length=%d" % n)
        ctx.bulk(n_ops)
        return
    if spec["kind"] == "test-equality":
        run_stack_depth(ctx)
        # `test` on pairs of numbers that are close but different, or equal across int/float; bare and nested; then a guarded replace
        from rt.gen import NEAR_NUMBERS

        n = 0
        for x in NEAR_NUMBERS + [True, False, 0, "1"]:
            for y in NEAR_NUMBERS + [True, False, 0, "1"]:
                doc = {"n": x, "arr": [x, [x]], "o": {"k": [{"z": x}]}}
                for ops in ([{"op": "test", "path": "/n", "value": y}], [{"op": "test", "path": "/arr", "value": [y, [y]]}], [{"op": "test", "path": "/o", "value": {"k": [{"z": y}]}}],
                            [{"op": "test", "path": "/arr/1/0", "value": y}, {"op": "replace", "path": "/n", "value": "guarded"}]):
                    check(ctx, doc, ops, "test-equality")
                    n += 1
        for depth in (99, 101, 150, 300):   # equal for `depth` levels, different (or not) only at the bottom
            for shape in ("arrays", "objects"):
                for x, y in ((True, 1), (0, False), (1, 1.0), (2 ** 53, 2 ** 53 + 1), ("a", "a"), ([], {}), (None, None)):
                    def nest(leaf):
                        v = leaf
                        for _ in range(depth):
                            v = [v] if shape == "arrays" else {"k": v}
                        return v
                    check(ctx, {"d": nest(x)}, [{"op": "test", "path": "/d", "value": nest(y)}, {"op": "copy", "from": "/d", "path": "/e"}], "test-equality-deep")
                    n += 1
        ctx.bulk(n)
        ctx.count("test_equality_pairs", n)
        return
    if spec["kind"] == "tuples":
        for di in (3, 4, 7, 11):
            doc = DOCS[di]
            arrays = [list(loc) for loc, v in nodes(doc) if isinstance(v, list)] + ([[]] if isinstance(doc, list) else [])
            ps = paths_for(doc)
            for tuple_at in [[a] for a in arrays] + [arrays]:
                for p in ps:
                    ptxt = rp.encode(p)
                    for v in (1, [1], {"a": 1}):
                        check_tuples(ctx, doc, tuple_at, {"op": "add", "path": ptxt, "value": v})
                        check_tuples(ctx, doc, tuple_at, {"op": "replace", "path": ptxt, "value": v})
                    for v in test_values(doc, p)[-3:]:
                        check_tuples(ctx, doc, tuple_at, {"op": "test", "path": ptxt, "value": v})
                    check_tuples(ctx, doc, tuple_at, {"op": "remove", "path": ptxt})
                    for q in ps:
                        for name in ("move", "copy"):
                            check_tuples(ctx, doc, tuple_at, {"op": name, "from": rp.encode(q), "path": ptxt})
                ctx.case(h("tuples", di, canon(tuple_at)), True)
        return
    if spec["kind"] == "single":
        doc = DOCS[spec["doc"]]
        ps = paths_for(doc)
        n = 0
        for name in spec["ops"]:
            for p in ps:
                ptxt = rp.encode(p)
                if name in ("add", "replace"):
                    for v in VALUES:
                        check(ctx, doc, [{"op": name, "path": ptxt, "value": v}], "single")
                        n += 1
                elif name == "test":
                    for v in test_values(doc, p):
                        check(ctx, doc, [{"op": "test", "path": ptxt, "value": v}], "single")
                        n += 1
                elif name == "remove":
                    check(ctx, doc, [{"op": "remove", "path": ptxt}], "single")
                    n += 1
                else:
                    for q in ps:
                        check(ctx, doc, [{"op": name, "from": rp.encode(q), "path": ptxt}], "single")
                        n += 1
        ctx.bulk(n)
        ctx.count("single_operations_enumerated", n)
        if spec["doc"] == 3 and "move" in spec["ops"]:
            ctx.sample({"doc": canon(doc), "op": {"op": "move", "from": "/1/0", "path": "/-"}, "kind": "enumerated single operation"})
    else:
        for _ in range(spec["n"]):
            doc = copy.deepcopy(r.choice(DOCS))
            ops = gen_sequence(r, doc)
            ctx.case(h(canon(doc), canon(ops)))
            check(ctx, doc, ops, "sequence")
            if len(ctx.samples) < 3:
                ctx.sample({"doc": canon(doc)[:120], "ops": ops})


def finalize(m, tier):
    inc = []
    oc = m["matrices"].get("outcomes", {})
    for op in ("add", "remove", "replace", "move", "copy", "test", "sequence"):
        for res in ("document", "patch error"):
            if not oc.get("%s -> %s" % (op, res)):
                inc.append("outcome never observed: %s -> %s" % (op, res))
    return {"inconclusive": inc, "coverage": {"exhaustive_subspaces": ["single operations over %d documents: %d patches" % (len(DOCS), m["counters"].get("single_operations_enumerated", 0))]}}


def run_stack_depth(ctx):
    """`test` against values nested from an eighth of the interpreter's recursion limit to beyond it, whose only
    difference (if any) is at the very bottom: a refusal with RecursionError is accepted at any depth; an answer must be
    the right one - success for the same JSON value (1 / 1.0, an object written in another order), JSONPatchTestFailure
    for look-alikes (true / 1, 0 / false, "1" / 1, [] / {})."""
    import sys

    import jsonpath

    def nest(leaf, depth, shape):
        v = leaf
        for i in range(depth):
            v = [v] if shape == "arrays" or (shape == "mixed" and i % 2) else {"k": v}
        return v
    limit = sys.getrecursionlimit()
    pairs = [(1, 1.0, True), ({"a": 1, "b": 2}, {"b": 2, "a": 1}, True), ("x", "x", True), (True, 1, False), (0, False, False), ("1", 1, False), ([], {}, False), (None, 0, False), ([True], [1], False)]
    for depth in sorted({limit // 8, limit // 5, limit // 4, limit // 3, limit // 2 - 20, limit // 2, limit // 2 + 20, (2 * limit) // 3, limit - 60, limit + 100}):
        for shape in ("arrays", "objects", "mixed"):
            for a, b, same in pairs:
                doc = {"v": nest(a, depth, shape)}
                patch = jsonpath.JSONPatch().test("/v", nest(b, depth, shape))
                o = impl.call(patch.apply, doc)
                ctx.evaluation()
                ctx.case(h("stack-depth", depth * 1000 // limit, shape, repr(a), repr(b)), True)
                if not o.ok and isinstance(o.exc, RecursionError):
                    ctx.count("deep_tests_refused_with_RecursionError")
                    continue
                ctx.count("deep_tests_answered")
                passed = o.ok
                if not o.ok and not isinstance(o.exc, jsonpath.JSONPatchTestFailure):
                    ctx.violation("deep-test-raised:%s" % type(o.exc).__name__, {"stack_depth": True}, {"nesting": depth, "recursion_limit": limit, "shape": shape, "document_leaf": repr(a), "tested_leaf": repr(b), "error": o.desc()[:300]})
                    return
                if passed != same:
                    ctx.violation("deep-test-answers-wrongly:%s" % ("passes-for-different-values" if passed else "fails-for-the-same-value"), {"stack_depth": True}, {"nesting": depth, "recursion_limit": limit, "shape": shape, "document_leaf": repr(a), "tested_leaf": repr(b), "passed": passed})
                    return


def replay(case, ctx):
    if case.get("stack_depth"):
        run_stack_depth(ctx)
        return
    if case.get("kind") == "threads":
        from .c15 import run_threads

        run_threads(ctx, 40, fixed=(case["template"], case["ops"]))
        return
    if case.get("tuples"):
        check_tuples(ctx, case["doc"], case["tuple_at"], case["op"])
        return
    if case.get("flags"):
        from rt import flag_history

        flag_history.run(ctx)
        return
    if case.get("pointer_class"):
        check_builder(ctx, case["doc"], case["ops"], case["pointer_class"])
        return
    ctx._force_builder = bool(case.get("builder_from_parts"))
    if case.get("document_given_as"):
        ctx._force_stream = case["document_given_as"]
        for _ in range(4):
            check(ctx, case["doc"], case["ops"], case.get("class", "replay"))
        return
    if case.get("operations_given_as"):
        ctx._force_carrier = case["operations_given_as"]
        for _ in range(4):
            check(ctx, case["doc"], case["ops"], case.get("class", "replay"))
        return
    if case.get("containers"):
        ctx._force_exotic = True
        for _ in range(12):
            check(ctx, case["doc"], case["ops"], case.get("class", "replay"))
        return
    check(ctx, case["doc"], case["ops"], case.get("class", "replay"))
