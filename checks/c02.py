"""C02 - RFC 9535 filter expressions select exactly the nodes the RFC makes true.

Oracle: rt.ref_jsonpath filter semantics (Nothing, existence vs comparison, strict deep
equality, ordering only between two numbers or two strings, function typing
conversions) + rt.ref_regex.  Monitors: H3 comparison-cell matrix, H5 function-argument
census, H1/H2.
"""
from __future__ import annotations

import copy
import itertools

from rt import gen, hooks
from rt.jp_oracle import check_query_case, equivalent_envs
from rt.jsonval import NOTHING, canon
from rt.render import Renderer

ID = "C02"
LEVEL = "exploration"
RULE = (
    "(a) the comparison table enumerated completely: every ordered pair of a 24-value universe (absent, null, booleans, "
    "int/float/bool look-alikes, strings, nested containers) x 6 operators x operand forms {query op query, query op literal, "
    "literal op query, literal op literal}; (b) typed random filter trees (existence tests, comparisons, ! && || grouping, "
    "length/count/value/match/search, nested filters mentioning $) over documents built from the names the expression "
    "mentions; (c) directed classes (bare @/$ existence on falsy values, @ on primitives inside functions, $ at three "
    "nesting depths, precedence). A case is (query text, document); non-trivial when the filter both selects and rejects "
    "at least one child across its document, or belongs to an enumerated table; distinct by hash(text, document)."
)
ASSUMPTIONS = [
    "reference evaluator rt/ref_jsonpath.py and mini I-Regexp matcher rt/ref_regex.py (self-tested by setup)",
    "regular expressions restricted to the I-Regexp / Python re common dialect; subjects without CR/LF when the pattern has a dot",
    "number literals within +-(2^53-1) (larger integers only as document values, compared exactly); no NaN/inf",
]
SHARD_TIMEOUT = {"quick": 900, "thorough": 3600}

U = [
    ("absent", NOTHING), ("null", None), ("true", True), ("false", False), ("0", 0), ("1", 1), ("-1", -1), ("1.0", 1.0),
    ("0.5", 0.5), ("''", ""), ("'a'", "a"), ("'b'", "b"), ("'1'", "1"), ("[]", []), ("[1]", [1]), ("[true]", [True]),
    ("[1.0]", [1.0]), ("[[1]]", [[1]]), ("[[true]]", [[True]]), ("{}", {}), ("{a:1}", {"a": 1}), ("{a:true}", {"a": True}),
    ("{a:[1]}", {"a": [1]}), ("{a:[true]}", {"a": [True]}), ("-0.0", -0.0), ("1e308", 1e308), ("2^53-1", 9007199254740991), ("[0]", [0]), ("[-0.0]", [-0.0]),
]
OPS = ["==", "!=", "<", "<=", ">", ">="]
NEAR = gen.NEAR_NUMBERS


def plan(tier, seed):
    specs = [{"kind": "table", "ops": [op]} for op in OPS]
    specs.append({"kind": "directed"})
    specs.append({"kind": "twin-constants"})
    n = 9 if tier == "quick" else 41
    per = 2500 if tier == "quick" else 9000
    for i in range(n):
        specs.append({"kind": "random", "n": per, "depth": (2 + i % 3) if tier == "quick" else (3 + i % 4), "spellings": 2 if tier == "quick" else 4})
    return specs


def install():
    hooks.install_h1()
    hooks.install_h2()
    hooks.install_h3()
    hooks.install_h5()


def is_literal(v):
    return v is not NOTHING and not isinstance(v, (list, dict))


def placements(r, expr):
    """The same filter as a direct child filter, after a descendant segment, in a list."""
    return [
        ["q", "$", [["child", [["filter", expr]]]]],
    ]


def selects_mixed(ast, doc):
    from rt import ref_jsonpath as ref

    n = len(ref.eval_query(ast, doc))
    return n


def run(spec, ctx):
    install()
    r = ctx.rng
    kind = spec["kind"]
    if kind == "twin-constants":
        # two (or three) comparisons side by side in one filter whose constant sides differ only by a literal that Python's ==
        # cannot tell apart (1 / 1.0 / true, 0 / 0.0 / false): each is a comparison of its own - whatever an implementation
        # shares between sub-expressions that look alike, a boolean is never a number
        def sq(root, *ns):
            return ["sq", ["q", root, [["child", [["name", n]]] for n in ns]]]
        pairs = ((1, True), (True, 1), (0, False), (False, 0), (False, 0.0), (1.0, True), (1, 1.0), (None, 0), ("1", 1), (True, "true"), (0, None))
        for la, lb in pairs:
            for op in ("==", "!=", "<=", ">=", "<"):
                for shape in ("or", "and", "or-with-current", "function"):
                    A, B = ["cmp", op, sq("$", "mode"), ["lit", la]], ["cmp", op, sq("$", "mode"), ["lit", lb]]
                    if shape == "or":
                        e = ["or", A, B]
                    elif shape == "and":
                        e = ["and", A, B]
                    elif shape == "or-with-current":
                        e = ["or", ["paren", ["and", A, ["cmp", "==", sq("@", "a"), ["lit", 1]]]], ["paren", ["and", B, ["cmp", "==", sq("@", "a"), ["lit", 2]]]]]
                    else:
                        e = ["or", ["cmp", op, ["call", "value", [["nodes", ["q", "$", [["child", [["name", "mode"]]]]]]]], ["lit", la]], ["cmp", op, ["call", "value", [["nodes", ["q", "$", [["child", [["name", "mode"]]]]]]]], ["lit", lb]]]
                    for seg in ("child", "desc"):
                        ast = ["q", "$", [["child", [["name", "items"]]], [seg, [["filter", e]]]]]
                        for x in (1, True, 0, False, 1.0, 0.0, None, "1", "true", 2):
                            doc = {"mode": x, "items": [{"a": 1}, {"a": 2}, {"a": 3}]}
                            for flip in (False, True):
                                a2 = copy.deepcopy(ast)
                                if flip:
                                    f = a2[2][1][1][0][1]
                                    if f[0] in ("or", "and") and f[1][0] == "cmp":
                                        f[1], f[2] = f[2], f[1]
                                check_query_case(ctx, a2, doc, Renderer(r, blanks=0.1).top(a2), "twin-constants", nontrivial=True)
                    ctx.cell("twin_constants", "%s %s" % (op, shape))
        return
    if kind == "table":
        rr = Renderer(r, blanks=0.2)
        n = 0
        for op in spec["ops"]:
            for (ln, lv), (rn, rv) in itertools.product(U, U):
                el = {}
                if lv is not NOTHING:
                    el["l"] = lv
                if rv is not NOTHING:
                    el["r"] = rv
                L = ["sq", ["q", "@", [["child", [["name", "l"]]]]]]
                R = ["sq", ["q", "@", [["child", [["name", "r"]]]]]]
                forms = [("qq", L, R)]
                if is_literal(rv):
                    forms.append(("ql", L, ["lit", rv]))
                if is_literal(lv):
                    forms.append(("lq", ["lit", lv], R))
                if is_literal(lv) and is_literal(rv):
                    forms.append(("ll", ["lit", lv], ["lit", rv]))
                for form, a, b in forms:
                    # first element only: restrict with a test on position via a conjunction-free query
                    ast = ["q", "$", [["child", [["index", 0]]], ["child", [["filter", ["cmp", op, a, b]]]]]]
                    # wrap so @ is the element: document [[el]]
                    d = [[el]]
                    check_query_case(ctx, ast, d, rr.top(ast), "table", nontrivial=True)
                    ctx.cell("comparison_table", "%s|%s" % (op, form))
                    n += 1
        # the same operator on pairs of near-equal numbers, bare and inside containers
        for lv, rv in itertools.product(NEAR, NEAR):
            L = ["sq", ["q", "@", [["child", [["name", "l"]]]]]]
            R = ["sq", ["q", "@", [["child", [["name", "r"]]]]]]
            small = lambda v: isinstance(v, float) or abs(v) < 2 ** 53  # noqa: E731
            forms = [("qq", L, R, {"l": lv, "r": rv}), ("qq-array", L, R, {"l": [lv], "r": [rv]}), ("qq-object", L, R, {"l": {"k": [lv]}, "r": {"k": [rv]}})]
            if small(rv):
                forms.append(("ql", L, ["lit", rv], {"l": lv}))
            if small(lv):
                forms.append(("lq", ["lit", lv], R, {"r": rv}))
            for form, a, b, el in forms:
                if form != "qq" and spec["ops"][0] not in ("==", "!=", "<="):
                    continue
                ast = ["q", "$", [["child", [["index", 0]]], ["child", [["filter", ["cmp", spec["ops"][0], a, b]]]]]]
                check_query_case(ctx, ast, [[el]], Renderer(r, plain=True).top(ast), "near", nontrivial=True)
                ctx.cell("comparison_table", "%s|near-%s" % (spec["ops"][0], form))
                n += 1
        # deep equality far down: containers identical for 99..300 levels that differ only at the bottom (by a boolean/number
        # twin, a near-equal number, a missing member), and ones that do not differ at all
        if spec["ops"][0] in ("==", "!=", "<=", ">="):
            def nest(leaf, depth, shape):
                v = leaf
                for i in range(depth):
                    v = [v] if shape == "arrays" or (shape == "mixed" and i % 2) else {"k": v}
                return v
            L = ["sq", ["q", "@", [["child", [["name", "l"]]]]]]
            R = ["sq", ["q", "@", [["child", [["name", "r"]]]]]]
            for depth in (3, 99, 100, 101, 102, 150, 300):
                for shape in ("arrays", "objects", "mixed"):
                    for a, b in ((True, 1), (1, True), (False, 0), (0.0, False), (1, 1.0), (0.3, 0.30000000000000004), ("a", "a"), ([1], [1]), ({"a": 1}, {"a": 1, "b": 2}), (None, None), ([], {}), ("1", 1)):
                        ast = ["q", "$", [["child", [["index", 0]]], ["child", [["filter", ["cmp", spec["ops"][0], L, R]]]]]]
                        check_query_case(ctx, ast, [[{"l": nest(a, depth, shape), "r": nest(b, depth, shape)}]], Renderer(r, plain=True).top(ast), "deep-equality", nontrivial=True)
                        n += 1
                    ctx.cell("comparison_table", "%s|depth=%d %s" % (spec["ops"][0], depth, shape))
        ctx.count("table_cells_enumerated", n)
    elif kind == "directed":
        rr = Renderer(r, blanks=0.2)
        falsy = [0, "", False, None, [], {}, 0.0, "0", [0], {"a": None}, 1, "x", True]
        at = ["q", "@", []]
        root = ["q", "$", []]

        def Q(*sels):
            return [["child", [s]] for s in sels]
        cases = []
        # bare @ / $ existence on every (falsy) value, and negations
        for e in (["test", at], ["not", ["test", at]], ["test", root], ["not", ["test", root]],
                  ["or", ["test", at], ["test", ["q", "@", Q(["name", "zz"])]]],
                  ["and", ["test", at], ["not", ["test", ["q", "@", Q(["name", "zz"])]]]]):
            cases.append((["q", "$", [["child", [["filter", e]]]]], list(falsy)))
            cases.append((["q", "$", [["child", [["filter", e]]]]], {"k%d" % i: v for i, v in enumerate(falsy)}))
            cases.append((["q", "$", [["desc", [["filter", e]]]]], [list(falsy), {"z": list(falsy)}]))
        # existence of a member whose value is falsy
        for v in falsy:
            doc = [{"a": v}, {"b": v}, {}]
            for e in (["test", ["q", "@", Q(["name", "a"])]], ["not", ["test", ["q", "@", Q(["name", "a"])]]],
                      ["test", ["q", "@", [["child", [["wild"]]]]]], ["test", ["q", "@", [["desc", [["name", "a"]]]]]]):
                cases.append((["q", "$", [["child", [["filter", e]]]]], doc))
        # functions applied to @ on every value kind
        vals = [0, 1.5, "", "abc", True, None, [], [1, 2], {}, {"a": 1, "b": 2}, "é😀"]
        for fn in ("length", "count", "value"):
            for opn, lit in (("==", 0), ("==", 1), ("==", 2), ("==", 3), (">=", 0), ("!=", 1), ("==", "abc"), ("==", None), ("==", True)):
                arg = ["sq", at] if fn == "length" else ["nodes", at]
                e = ["cmp", opn, ["call", fn, [arg]], ["lit", lit]]
                cases.append((["q", "$", [["child", [["filter", e]]]]], list(vals)))
                arg2 = ["sq", ["q", "@", Q(["name", "a"])]] if fn == "length" else ["nodes", ["q", "@", [["child", [["wild"]]]]]]
                e2 = ["cmp", opn, ["call", fn, [arg2]], ["lit", lit]]
                cases.append((["q", "$", [["child", [["filter", e2]]]]], [{"a": v} for v in vals] + [[v] for v in vals] + [[1, 2], []]))
        # length(value(...)), count of descendants, value of several nodes is Nothing
        e = ["cmp", "==", ["call", "value", [["nodes", ["q", "@", [["child", [["wild"]]]]]]]], ["lit", 1]]
        cases.append((["q", "$", [["child", [["filter", e]]]]], [[1], [1, 1], [], [2], {"a": 1}, {"a": 1, "b": 1}]))
        e = ["cmp", "==", ["call", "value", [["nodes", ["q", "@", [["child", [["wild"]]]]]]]], ["call", "value", [["nodes", ["q", "@", Q(["name", "zz"])]]]]]
        cases.append((["q", "$", [["child", [["filter", e]]]]], [[1], [1, 1], [], [2]]))
        # match / search on every value kind; search must match away from offset 0, match must be anchored at both ends
        subj = ["ab", "xab", "abx", "xabx", "", "a", 1, None, ["ab"], {"a": "ab"}, "AB", "a\nb", "aab"]
        for fn in ("match", "search"):
            for pat in ("ab", "a.", "a.*b", "(ab|x)+", "[a-b]{2}", "a?b", "", "a|b", "[^a]b", "\\.", "(a"):
                if pat == "(a":
                    continue
                e = ["call", fn, [["sq", at], ["lit", pat]]]
                s2 = [s for s in subj if not (isinstance(s, str) and "\n" in s and "." in pat)]
                cases.append((["q", "$", [["child", [["filter", e]]]]], s2))
                cases.append((["q", "$", [["child", [["filter", ["not", e]]]]]], s2))
            # pattern taken from the document; non-string pattern -> false
            e = ["call", fn, [["sq", ["q", "@", Q(["name", "s"])]], ["sq", ["q", "@", Q(["name", "p"])]]]]
            cases.append((["q", "$", [["child", [["filter", e]]]]], [{"s": "xaby", "p": "ab"}, {"s": "ab", "p": "ab"}, {"s": "ab", "p": 1}, {"s": 1, "p": "1"}, {"p": "ab"}, {"s": "ab"}, {"s": "ab", "p": "a."}]))
        # $ at three nesting depths must be the query argument; outer current != root
        for depth in (1, 2, 3):
            inner = ["cmp", "==", ["sq", ["q", "@", Q(["name", "v"])]], ["sq", ["q", "$", Q(["name", "k"])]]]
            e = inner
            for _ in range(depth - 1):
                e = ["test", ["q", "@", [["child", [["name", "c"]]], ["child", [["filter", e]]]]]]
            doc = {"k": 7, "x": build_nested(depth, 7), "y": build_nested(depth, 8), "z": {"k": 8, "v": 8, "c": [{"k": 8, "v": 8, "c": [{"k": 8, "v": 8}]}]}}
            cases.append((["q", "$", [["child", [["filter", e]]]]], doc))
            e2 = ["test", ["q", "$", [["child", [["wild"]]], ["child", [["filter", inner]]]]]] if depth == 1 else e
            cases.append((["q", "$", [["desc", [["filter", e2]]]]], doc))
        # precedence and grouping
        A = ["test", ["q", "@", Q(["name", "a"])]]
        B = ["test", ["q", "@", Q(["name", "b"])]]
        C = ["test", ["q", "@", Q(["name", "c"])]]
        docs_abc = [{k: 1 for k, on in zip("abc", bits) if on} for bits in itertools.product([0, 1], repeat=3)]
        for e in (["or", A, ["and", B, C]], ["and", ["or", A, B], C], ["or", ["and", A, B], C], ["and", A, ["or", B, C]], ["not", ["or", A, B]], ["and", ["not", A], B],
                  ["or", ["not", A], B], ["not", ["and", A, ["not", B]]], ["or", ["or", A, B], C], ["and", ["and", A, B], C], ["not", ["not", A]], ["paren", ["or", A, ["paren", ["and", B, C]]]],
                  ["and", ["paren", ["or", A, B]], ["not", ["paren", ["and", B, C]]]]):
            cases.append((["q", "$", [["child", [["filter", e]]]]], docs_abc))
            cases.append((["q", "$", [["child", [["filter", e], ["index", 0]]]]], docs_abc))
        # absent equals only absent; comparisons with missing members
        for op in OPS:
            e = ["cmp", op, ["sq", ["q", "@", Q(["name", "a"])]], ["sq", ["q", "@", Q(["name", "b"])]]]
            cases.append((["q", "$", [["child", [["filter", e]]]]], [{}, {"a": 1}, {"b": 1}, {"a": 1, "b": 1}, {"a": None}, {"a": None, "b": None}, {"a": 1, "b": 2}, {"a": "x", "b": "y"}, {"a": "x", "b": 1}]))
            e = ["cmp", op, ["sq", ["q", "@", Q(["index", 0])]], ["sq", ["q", "@", Q(["index", -1])]]]
            cases.append((["q", "$", [["child", [["filter", e]]]]], [[], [1], [1, 2], [2, 1], ["a", "b"], [True, 1], [1, True], [[1], [1]], [[1], [True]]]))
        # equal containers held in different Mapping / Sequence implementations on the two sides
        import copy as _copy

        conts = [[1, 2], [], {"k": [1, 2]}, {}, [[1], {"a": None}], {"a": {"b": [True]}}, [1.0, "x"]]
        plain_doc = [{"v": c, "w": _copy.deepcopy(c), "id": i} for i, c in enumerate(conts)] + [{"v": [1, 2], "w": [2, 1], "id": 90}, {"v": {"k": 1}, "w": {"k": True}, "id": 91}]
        for side in ("w", "v"):
            impl_doc = [dict(e, **{side: gen.exotic(e[side], r, p=1.0)}) for e in plain_doc]
            for op in OPS:
                for a, b in (("v", "w"), ("w", "v")):
                    ast = ["q", "$", [["child", [["filter", ["cmp", op, ["sq", ["q", "@", Q(["name", a])]], ["sq", ["q", "@", Q(["name", b])]]]]]]]]
                    check_query_case(ctx, ast, plain_doc, rr.top(ast), "directed:other-container-types", nontrivial=True, impl_doc=impl_doc)
                lhs = ["call", "value", [["nodes", ["q", "@", Q(["name", "v"])]]]]
                rhs = ["sq", ["q", "$", Q(["index", 0], ["name", "w"])]]
                ast = ["q", "$", [["child", [["filter", ["cmp", op, lhs, rhs]]]]]]
                check_query_case(ctx, ast, plain_doc, rr.top(ast), "directed:other-container-types", nontrivial=True, impl_doc=impl_doc)
        for ast, doc in cases:
            for _ in range(3):
                check_query_case(ctx, ast, doc, rr.top(ast), "directed", nontrivial=True)
        ctx.count("directed_templates", len(cases))
    elif kind == "random":
        for i in range(spec["n"]):
            names = r.sample(["a", "b", "c", "d", "1", "k0", "é", "a b", "'", "and"], r.randint(2, 5))
            strings = ["a", "b", "ab", "xaby", "", "v1", "1"]
            if r.random() < 0.3:
                # string literals that need quoting and escaping, and text that merely LOOKS like an escape (a backslash as
                # such followed by u, D, 8 ...): the comparison is between strings, whatever they look like
                strings = strings + r.sample(gen.NAMES_QUOTE + ["\\\\uD83D", "\\uDE00", "\\uD83D\\uDE00x", "\u00e9", "\U0001f600", "a\tb", "\u2028", "\ud83d"], 3)
                ctx.count("cases_with_string_literals_from_the_hostile_pool")
            fg = gen.FilterGen(r, names, max_depth=spec["depth"], strings=strings)
            expr = fg.logical()
            doc = gen.filter_doc(r, names, strings + [w for w in fg.witnesses if "\n" not in w and "\r" not in w])
            k = r.random()
            if k < 0.6:
                ast = ["q", "$", [["child", [["filter", expr]]]]]
            elif k < 0.8:
                ast = ["q", "$", [["desc", [["filter", expr]]]]]
            elif k < 0.9:
                ast = ["q", "$", [["child", [["filter", expr], ["wild"]]]]]
            else:
                ast = ["q", "$", [["child", [["wild"]]], ["child", [["filter", expr]]]]]
            from rt import ref_jsonpath as ref, ref_regex

            try:
                model = ref.eval_query(ast, doc)
            except ref_regex.Unsupported:
                ctx.count("regex_outside_common_dialect_skipped")
                continue
            nch = len(doc) if k < 0.6 else None
            nontrivial = bool(model) and (nch is None or len(model) < nch)
            seen = set()
            for _s in range(spec["spellings"]):
                text = Renderer(r, blanks=r.choice([0.0, 0.2, 0.4])).top(ast)
                if text in seen:
                    continue
                seen.add(text)
                if r.random() < 0.12:
                    check_query_case(ctx, ast, doc, text, "random:other-container-types", nontrivial=nontrivial, model=model, sample_p=0.001, impl_doc=gen.exotic(doc, r))
                elif r.random() < 0.3:
                    name, env = r.choice(equivalent_envs())
                    ctx.cell("configurations", name)
                    check_query_case(ctx, ast, doc, text, "random:" + name, nontrivial=nontrivial, model=model, sample_p=0.001, env=env)
                else:
                    check_query_case(ctx, ast, doc, text, "random", nontrivial=nontrivial, model=model, sample_p=0.001)
            if i % 3 == 0:
                # one compiled object over several documents: `$` must denote each call's own argument
                import jsonpath
                from rt import impl

                comp = impl.call(jsonpath.compile, text)
                if comp.ok and i % 6 == 3:
                    from rt.jp_oracle import check_after_incomplete_passes

                    check_after_incomplete_passes(ctx, ast, text, doc, None, "in-place")
                if comp.ok and i % 6 == 0:
                    from rt.jp_oracle import check_interleaved

                    others = [gen.filter_doc(r, names, strings + [w for w in fg.witnesses if "\n" not in w and "\r" not in w]) for _ in range(2)]
                    check_interleaved(ctx, ast, text, [(doc, None)] + [(d_, None) for d_ in others if isinstance(d_, (dict, list))], "interleaved")
                if comp.ok:
                    for _d in range(3):
                        d2 = gen.filter_doc(r, names, strings + [w for w in fg.witnesses if "\n" not in w and "\r" not in w])
                        try:
                            m2 = ref.eval_query(ast, d2)
                        except ref_regex.Unsupported:
                            continue
                        got = impl.call(lambda: impl.match_records(comp.value.finditer(d2)))
                        ctx.evaluation()
                        ctx.count("reused_compiled_evaluations")
                        diff = got.desc() if not got.ok else impl.nodes_equal(got.value, m2)
                        if diff:
                            ctx.violation("reused-compiled-query-differs-from-model", {"class": "reuse", "ast": ast, "doc": d2, "text": text, "first_doc": doc}, {"text": text, "diff": diff, "first_doc": canon(doc)[:200], "doc": canon(d2)[:200]})
                            break
    for k, v in hooks.STATE.sel_matrix.items():
        ctx.cell("H1_selector_x_kind", "|".join(k), v)
    for k, v in hooks.STATE.cmp_matrix.items():
        ctx.cell("H3_compare_cells", "%s %s %s %s" % k, v)
    for k, v in hooks.STATE.func_census.items():
        ctx.cell("H5_function_args", "|".join(k), v)
    for k, v in hooks.STATE.node_census.items():
        ctx.cell("H5_filter_nodes", "|".join(k), v)
    ctx.count("H2_matches_checked", hooks.STATE.h2_checked)


def build_nested(depth, v):
    node = {"k": 0, "v": v}
    for _ in range(depth - 1):
        node = {"k": 0, "v": 0, "c": [node, {"k": 0, "v": 99}]}
    return node


KINDS7 = ["nothing", "null", "boolean", "number", "string", "array", "object"]


def finalize(m, tier):
    inc = []
    h3 = m["matrices"].get("H3_compare_cells", {})
    seen = set()
    for cell in h3:
        op, lk, rk, _res = cell.split(" ")
        seen.add((op, lk.replace("nodelist0", "nothing"), rk.replace("nodelist0", "nothing")))
    missing = [(op, a, b) for op in OPS for a in KINDS7 for b in KINDS7 if (op, a, b) not in seen]
    if missing:
        inc.append("H3 comparison cells never reached inside env.compare: %d e.g. %s" % (len(missing), missing[:3]))
    f5 = m["matrices"].get("H5_function_args", {})
    for fn in ("length", "count", "value", "match", "search"):
        if not any(k.startswith(fn + "|") for k in f5):
            inc.append("H5 never saw a call of %s" % fn)
    n_table = m["counters"].get("table_cells_enumerated", 0)
    return {"inconclusive": inc, "coverage": {
        "exhaustive_subspaces": ["comparison table: 24x24 ordered pairs x 6 operators x operand forms = %d cells, all evaluated" % n_table],
        "H3_cells_reached": len(seen), "H3_cells_required": len(OPS) * 49}}


def replay(case, ctx):
    install()
    if case.get("class") == "reuse":
        import jsonpath
        from rt import impl, ref_jsonpath as ref

        p = jsonpath.compile(case["text"])
        list(p.finditer(case["first_doc"]))
        ctx.evaluation()
        got = impl.call(lambda: impl.match_records(p.finditer(case["doc"])))
        diff = got.desc() if not got.ok else impl.nodes_equal(got.value, ref.eval_query(case["ast"], case["doc"]))
        if diff:
            ctx.violation("reused-compiled-query-differs-from-model", case, {"diff": diff})
        return
    if case.get("in_place"):
        from rt.jp_oracle import check_after_incomplete_passes

        for _ in range(10):
            check_after_incomplete_passes(ctx, case["ast"], case["text"], case["doc"], case.get("extra"), case.get("class", "replay"))
        return
    if case.get("interleaved"):
        from rt.jp_oracle import check_interleaved

        check_interleaved(ctx, case["ast"], case["text"], [tuple(x) for x in case["runs"]], case.get("class", "replay"))
        return
    check_query_case(ctx, case["ast"], case["doc"], case["text"], case.get("class", "replay"), nontrivial=True)
