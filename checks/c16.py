"""C16 - Relative JSON Pointers are parsed, printed and applied per the draft.

Oracle: rt.ref_pointer.rel_apply (steps up, optional offset on a final canonical index,
suffix tokens appended or the key marker set; errors: steps > depth, negative result,
`#` at the root).  Results compared by printed RFC 6901 form and by equality with the
pointer parsed from that form.
"""
from __future__ import annotations

import itertools
import pickle

from rt import impl, ref_pointer as rp
from rt.foundry import ForeignFailed, foreign
from rt.jsonval import h

ID = "C16"
LEVEL = "exploration"
RULE = (
    "base pointers to depth 3 over a 10-token alphabet x steps 0..depth+1 x offsets {none,+-1,+-2,+-10,+-12} x suffix {empty, '#', pointers with "
    "~0/~1/non-ASCII/empty tokens}: all combinations for depth <= 2, sampled at depth 3; each applied through RelativeJSONPointer.to(pointer), "
    ".to(text), JSONPointer.to(text) and JSONPointer.to(object); print/parse round trip of every relative pointer text; syntax rejects. Offsets are "
    "only generated where the remaining final token is a canonical index (elsewhere the draft leaves it unspecified). A case is (base, relative "
    "text); every case is non-trivial; distinct by construction (enumerated) or hash (sampled)."
)
ASSUMPTIONS = ["escape decoding default (on); backslashes only in the dedicated backslash class (texts, and bases that exist as token lists)"]

ALPHABET = ["a", "0", "1", "10", "~", "/", "é", "", "01", "-", "a\nb"]
OFFSETS = [0, 1, -1, 2, -2, 10, -10, 12, -12]
SUFFIXES = ["", "#", ["a"], ["0"], ["~", "/"], ["é", ""], ["m~n", "a/b", "10"], ["line\nbreak", "x"], ["a\rb\tc d"]]


def plan(tier, seed):
    specs = [{"kind": "exhaustive", "first": t} for t in ALPHABET] + [{"kind": "exhaustive", "first": None}, {"kind": "syntax"}, {"kind": "backslash"}, {"kind": "flags"}, {"kind": "int-digit-limit"}, {"kind": "magnitude"}, {"kind": "digit-lookalikes"}, {"kind": "threads", "rounds": 40 if tier == "quick" else 400}]
    for _ in range(4 if tier == "quick" else 14):
        specs.append({"kind": "depth3", "n": 6000 if tier == "quick" else 200000})
    return specs


def rel_text(steps, offset, suffix):
    s = str(steps)
    if offset:
        s += ("+%d" % offset) if offset > 0 else str(offset)
    return s + ("#" if suffix == "#" else rp.encode(suffix))


def check(ctx, base, steps, offset, suffix, all_routes=False):
    import jsonpath
    from jsonpath import JSONPointer, RelativeJSONPointer

    text = rel_text(steps, offset, suffix)
    base_text = rp.encode(base)
    case = {"base": list(base), "steps": steps, "offset": offset, "suffix": suffix}
    if getattr(ctx, "_int_digit_limit", None) is not None:
        case["int_digit_limit"] = ctx._int_digit_limit
    ctx.evaluation()
    try:
        toks, marker = rp.rel_apply(list(base), steps, offset, suffix)
        want = rp.encode(toks[:-1] + ["#" + toks[-1]]) if marker else rp.encode(toks)
        fail = None
    except rp.RelFail as e:
        want, fail = None, str(e)
    except ValueError:
        # an offset applied to a last token that is not an array index: the draft does not say what happens, so only
        # "a pointer comes back or the application is refused with a pointer error" is demanded
        ctx.count("unspecified_skipped")
        for name, fn in (("rel.to(text)", lambda: RelativeJSONPointer(text).to(base_text)), ("pointer.to(text)", lambda: JSONPointer(base_text).to(text)), ("rel.to(from_parts base)", lambda: RelativeJSONPointer(text).to(JSONPointer.from_parts(list(base))))):
            o = impl.call(fn)
            if not o.ok and not isinstance(o.exc, (jsonpath.RelativeJSONPointerError, jsonpath.JSONPointerError)):
                ctx.violation("application-raised-foreign:%s" % type(o.exc).__name__, case, {"base": base_text, "relative": text, "route": name, "error": o.desc()})
                return
        return
    ctx.cell("census", "steps=%s offset=%s suffix=%s -> %s" % ("0" if steps == 0 else ("<=depth" if steps <= len(base) else ">depth"), "none" if not offset else ("1digit" if abs(offset) < 10 else "2digit") + ("+" if offset > 0 else "-"), "empty" if suffix == "" else ("#" if suffix == "#" else "pointer"), "error" if fail else "pointer"))
    c = impl.call(RelativeJSONPointer, text)
    if not c.ok:
        ctx.violation("valid-relative-pointer-rejected:%s" % type(c.exc).__name__, case, {"text": text, "error": c.desc()})
        return
    if str(c.value) != text:
        ctx.violation("relative-pointer-does-not-print-its-text", case, {"text": text, "printed": str(c.value)})
        return
    ctx.remember("relative-pointer-application", lambda: repr(impl.call(lambda: str(RelativeJSONPointer(text).to(JSONPointer(base_text)))).value), limit=150)
    bp = JSONPointer(base_text)
    routes = {
        "rel.to(from_parts base)": lambda: c.value.to(JSONPointer.from_parts(list(base))),
        "rel.to(from_parts int base)": lambda: c.value.to(JSONPointer.from_parts([int(t) if rp.CANON_INDEX.match(t) and len(t) < 15 else t for t in base])),
        "rel.to(base produced by to)": lambda: c.value.to(bp.to("0")),
        "rel.to(base produced by join)": lambda: c.value.to(JSONPointer("").join(*[rp.encode_token(t) for t in base]) if base and all(t == t.lstrip() for t in base) else bp),
        "rel.to(pointer)": lambda: c.value.to(bp),
        "rel.to(text)": lambda: c.value.to(base_text),
        "pointer.to(text)": lambda: bp.to(text),
        "pointer.to(rel)": lambda: bp.to(c.value),
    }
    if all_routes or ctx.rng.random() < 0.2:
        routes["relative pointer from another interpreter"] = lambda: foreign("relative", text).to(bp)
        routes["base from another interpreter"] = lambda: c.value.to(foreign("pointer", base_text, True, False))
        routes["applied in another interpreter"] = lambda: foreign("relative_to", text, base_text)
        routes["pickled"] = lambda: pickle.loads(pickle.dumps(c.value)).to(pickle.loads(pickle.dumps(bp)))
    for name, fn in routes.items():
        o = impl.call(fn)
        if not o.ok and isinstance(o.exc, ForeignFailed):
            if "applied in another" in name and fail:
                continue
            ctx.count("other_interpreter_could_not_deliver")
            continue
        ctx.cell("routes", name)
        if fail:
            if o.ok:
                ctx.violation("forbidden-application-accepted", case, {"base": base_text, "relative": text, "route": name, "result": str(o.value), "why_forbidden": fail})
                return
            if not isinstance(o.exc, jsonpath.RelativeJSONPointerError):
                ctx.violation("forbidden-application-raised-foreign:%s" % type(o.exc).__name__, case, {"base": base_text, "relative": text, "route": name, "error": o.desc()})
                return
        else:
            if not o.ok:
                ctx.violation("application-raised:%s" % type(o.exc).__name__, case, {"base": base_text, "relative": text, "route": name, "error": o.desc(), "expected": want})
                return
            if str(o.value) != want:
                ctx.violation("application-yields-wrong-pointer", case, {"base": base_text, "relative": text, "route": name, "got": str(o.value), "expected": want})
                return
            parsed = impl.call(JSONPointer, want)   # text with an index beyond the pointer parser's own limit cannot be parsed back
            if not marker and parsed.ok and o.value != parsed.value:
                ctx.violation("result-not-equal-to-parsed-expected", case, {"base": base_text, "relative": text, "got": str(o.value), "expected": want})
                return


def all_params(depth):
    for steps in range(0, depth + 2):
        for offset in OFFSETS:
            for suffix in SUFFIXES:
                yield steps, offset, suffix


def run(spec, ctx):
    import jsonpath
    from jsonpath import RelativeJSONPointer

    r = ctx.rng
    if spec["kind"] == "exhaustive":
        if spec["first"] is None:
            bases = [()]
        else:
            bases = [(spec["first"],)] + [(spec["first"], t) for t in ALPHABET]
        n = 0
        for base in bases:
            for steps, offset, suffix in all_params(len(base)):
                check(ctx, base, steps, offset, suffix)
                n += 1
        ctx.bulk(n)
        ctx.count("exhaustive_combinations", n)
        if spec["first"] == "10":
            ctx.sample({"base": "/10/1", "relative": "0+12/é", "expected": "/10/13/é"})
            ctx.sample({"base": "/a", "relative": "1#", "expected": "RelativeJSONPointerError (# at the root)"})
    elif spec["kind"] == "depth3":
        for _ in range(spec["n"]):
            base = tuple(r.choice(ALPHABET) for _ in range(3))
            steps = r.randint(0, 4)
            offset = r.choice(OFFSETS + [0, 0, r.choice([100, -100, 7, -7, 123456])])
            suffix = r.choice(SUFFIXES)
            ctx.case(h(base, steps, offset, suffix))
            check(ctx, base, steps, offset, suffix)
    elif spec["kind"] == "int-digit-limit":
        # the interpreter's int/str digit limit is process state a host application may have changed (0 = off, 640 = its
        # minimum, a large value): relative pointers parse, print and apply as the draft says all the same
        import sys

        old_limit = sys.get_int_max_str_digits()
        try:
            for limit in (0, 640, 100000, old_limit):
                sys.set_int_max_str_digits(limit)
                ctx._int_digit_limit = limit
                for depth in (1, 2, 3):
                    for base in ([("a", "1", "b")[:depth]] + [tuple(r.choice(ALPHABET) for _ in range(depth)) for _ in range(6)]):
                        for steps, offset, suffix in list(all_params(depth))[::3]:
                            check(ctx, tuple(base), steps, offset, suffix)
                            ctx.count("applications_under_another_int_digit_limit")
                ctx.cell("int_digit_limits", "limit=%s" % limit)
        finally:
            sys.set_int_max_str_digits(old_limit)
            ctx._int_digit_limit = None
    elif spec["kind"] == "magnitude":
        # indices and offsets around and beyond 2^53 and 2^63/2^64: the draft bounds neither
        from jsonpath import JSONPointer

        big = [1, -1, 12, -12, 10 ** 15, -(10 ** 15), 10 ** 16, 2 ** 53, -(2 ** 53), 2 ** 63, 2 ** 64, 90071992547409931234, -90071992547409931234, 10 ** 30, 9007199254740986, -9007199254740986]
        n = 0
        for base in (("items", "9007199254740991"), ("items", "9007199254740980"), ("items", "5"), ("9007199254740991",), ("a", "0"), ("a", "4294967295"), ("a", "2147483647", "k")):
            for steps in range(0, len(base) + 1):
                for offset in big:
                    for suffix in ("", "#", "/x/0"):
                        ctx.case(h("magnitude", base, steps, offset, suffix))
                        check(ctx, base, steps, offset, suffix)
                        n += 1
        # step counts of two and three digits: bases 9 .. 130 tokens deep, steps around every change in the number of digits
        for depth in (9, 10, 11, 12, 20, 21, 99, 100, 101, 130):
            base = tuple(["a", "3", "k", "0"][i % 4] for i in range(depth - 1)) + ("7",)
            for steps in sorted({0, 1, 8, 9, 10, 11, 12, 19, 20, 21, 90, 99, 100, 101, 110, depth - 1, depth, depth + 1, depth + 10}):
                if steps < 0:
                    continue
                for offset in (0, 1, -3, 10, -12):
                    for suffix in ("", "#", "/x/0"):
                        ctx.case(h("deep", depth, steps, offset, suffix))
                        ctx.count("applications_with_step_counts_of_two_or_three_digits", int(steps >= 10))
                        check(ctx, base, steps, offset, suffix)
                        n += 1
        # bases that only exist as token lists (an index beyond what pointer text may hold)
        for idx in (2 ** 53, 2 ** 60, 2 ** 64 + 5, 10 ** 30):
            for offset in (1, -1, 12, -(2 ** 53), 10 ** 20):
                for steps, pre in ((0, ["items", idx]), (1, ["items", idx, "k"])):
                    ctx.evaluation()
                    text = rel_text(steps, offset, "")
                    want = "/items/%d" % (idx + offset)
                    o = impl.call(lambda: RelativeJSONPointer(text).to(JSONPointer.from_parts(pre)))
                    n += 1
                    if idx + offset < 0:
                        if o.ok or not isinstance(o.exc, jsonpath.RelativeJSONPointerError):
                            ctx.violation("forbidden-application-accepted", {"from_parts": [str(x) for x in pre], "text": text}, {"relative": text, "got": o.desc() if not o.ok else str(o.value)})
                    elif not o.ok or str(o.value) != want:
                        ctx.violation("application-yields-wrong-pointer:token-list-base", {"from_parts_index": str(idx), "text": text, "steps": steps}, {"relative": text, "base_tokens": [str(x) for x in pre], "got": o.desc() if not o.ok else str(o.value), "expected": want})
        ctx.count("magnitude_combinations", n)
    elif spec["kind"] == "threads":
        # FRESH relative pointer objects (nothing has asked for their text yet) shared by 8 threads that print, compare,
        # hash and apply them at once, with yields injected inside pointer.py
        from jsonpath import JSONPointer

        from rt.threads import stress

        for _round in range(spec["rounds"]):
            cases = []
            for _ in range(6):
                base = tuple(r.choice(ALPHABET) for _ in range(r.randint(1, 3)))
                steps, offset, suffix = r.randint(0, len(base)), r.choice(OFFSETS + [0, 0]), r.choice(SUFFIXES)
                text = rel_text(steps, offset, suffix)
                try:
                    toks, marker = rp.rel_apply(list(base), steps, offset, suffix)
                    want = rp.encode(toks[:-1] + ["#" + toks[-1]]) if marker else rp.encode(toks)
                except (rp.RelFail, ValueError):
                    want = None
                o = impl.call(RelativeJSONPointer, text)
                if o.ok:
                    cases.append((o.value, text, rp.encode(base), want))
            errors = []

            def worker(wid, rr):
                try:
                    _work(wid, rr)
                except Exception as e:  # noqa: BLE001
                    errors.append({"thread": wid, "raised": "%s: %s" % (type(e).__name__, e)})

            shared = [RelativeJSONPointer("0/x~1y"), RelativeJSONPointer("1+1/z"), RelativeJSONPointer("1#"), RelativeJSONPointer("2-1/\u00e9/0")]

            def _work(wid, rr):
                # the same objects applied by every thread to ITS OWN bases, each base several times in a row
                for rep in range(3):
                    for rel_ in rr.sample(shared, len(shared)):
                        b1, b2 = "/t%d/%d/k%d" % (wid, 3 + wid, rep), "/other%d/%d/m" % (wid, 10 + rep)
                        for base_text_ in (b1, b1, b2, b1, b2, b2):
                            toks_ = rp.decode(base_text_)
                            try:
                                t2, mk = rp.rel_apply(list(toks_), rel_.origin, rel_.index, "#" if rel_.pointer == "#" else [str(x) for x in rel_.pointer.parts])
                                want_ = rp.encode(t2[:-1] + ["#" + t2[-1]]) if mk else rp.encode(t2)
                            except (rp.RelFail, ValueError):
                                continue
                            got_ = impl.call(lambda: str(rel_.to(JSONPointer(base_text_))))
                            if not got_.ok or got_.value != want_:
                                errors.append({"relative": str(rel_), "base": base_text_, "operation": "one object applied by several threads to their own bases", "got": got_.desc() if not got_.ok else got_.value, "expected": want_})
                                return
                for rel, text, base_text, want in rr.sample(cases, len(cases)):
                    what = rr.choice(["str", "eq", "to", "str"])
                    if what == "str":
                        got = str(rel)
                        if got != text:
                            errors.append({"relative": text, "operation": "str", "got": got})
                    elif what == "eq":
                        if not (rel == RelativeJSONPointer(text)):
                            errors.append({"relative": text, "operation": "== a fresh parse of the same text", "got": False})
                    elif want is not None:
                        got = impl.call(lambda: str(rel.to(JSONPointer(base_text))))
                        if not got.ok or got.value != want:
                            errors.append({"relative": text, "base": base_text, "operation": "to", "got": got.desc() if not got.ok else got.value, "expected": want})

            st = stress(worker, nthreads=8, files=("pointer.py",), seed=r.random(), prob=0.3)
            ctx.evaluation(len(cases) * 8)
            ctx.count("concurrent_uses_of_fresh_relative_pointers", len(cases) * 8)
            ctx.count("yields_injected", st["yields"])
            ctx.cell("thread_interleaving_signatures", st["signature"])
            for e in errors[:2]:
                ctx.violation("relative-pointer-shared-by-threads-prints-or-applies-wrongly", {"threads": True}, e)
            if errors:
                return
    elif spec["kind"] == "digit-lookalikes":
        # last tokens made of characters str.isdigit()/isdecimal()/isnumeric() accept but that are not array indices
        n = 0
        for tok in ("\u00b2", "\u2460", "\u2082\u2083", "2\u00b2", "\u0663", "\uff11", "\u0967\u0968", "\u2167", "\u00bd", "\u4e09", "1e0", "0x1", "1_0", " 1", "+1", "-1", "01", "1 ", "1\n"):
            for base in ((tok,), ("a", tok), ("a", tok, "c"), (tok, "0")):
                for steps in range(0, len(base) + 1):
                    for offset in (0, 1, -1, 12):
                        for suffix in ("", "#", "/k"):
                            ctx.case(h("digit-lookalike", base, steps, offset, suffix))
                            check(ctx, base, steps, offset, suffix)
                            n += 1
        ctx.count("digit_lookalike_combinations", n)
    elif spec["kind"] == "flags":
        from rt import flag_history

        flag_history.run(ctx)
    elif spec["kind"] == "backslash":
        # suffix tokens that still contain a backslash sequence after one decoding: the
        # result must append exactly the tokens the suffix pointer itself has (decoded once)
        from jsonpath import JSONPointer

        import warnings

        # backslash sequences that are not escapes, in suffix and base texts, where deprecation warnings raised from the
        # library's modules are errors: parsing and applying must still end in a pointer or a pointer error
        with warnings.catch_warnings():
            for cat in (DeprecationWarning, PendingDeprecationWarning):
                warnings.filterwarnings("error", category=cat, module=r"jsonpath(\.|$)")
            for seq in ("\\8", "\\9", "\\400", "\\777", "\\g", "\\ ", "\\e", "\\8\\9", "x\\8y", "\\1", "\\x41", "\\N{BULLET}"):
                for rtxt, btxt in (("1+12/x%sy" % seq, "/a/3/b"), ("0/%s" % seq, "/a"), ("1#", "/a/%s/b" % seq), ("0-1", "/a%s/5" % seq), ("2/%s/%s" % (seq, seq), "/p/q")):
                    ctx.evaluation()
                    ctx.case(h("bs-warn", rtxt, btxt))
                    for name, fn in (("RelativeJSONPointer()", lambda: RelativeJSONPointer(rtxt)), ("rel.to(text)", lambda: RelativeJSONPointer(rtxt).to(btxt)), ("pointer.to(text)", lambda: JSONPointer(btxt).to(rtxt)), ("str", lambda: str(RelativeJSONPointer(rtxt)))):
                        o = impl.call(fn)
                        ctx.count("backslash_texts_with_warnings_as_errors")
                        if not o.ok and not isinstance(o.exc, (jsonpath.RelativeJSONPointerError, jsonpath.JSONPointerError)):
                            ctx.violation("application-raised-foreign:%s" % type(o.exc).__name__, {"backslash": True, "base": btxt, "text": rtxt}, {"base": btxt, "relative": rtxt, "route": name, "error": o.desc()})
                            return
        # bases whose tokens hold backslashes as such (file paths, a trailing backslash, text that looks like an escape):
        # they exist as token lists (from_parts / a match's pointer, decoding off) - every application and every refusal
        for btoks in (["C:\\Users\\me", "files", "0"], ["D:\\data\\x", "3"], ["a\\", "1", "b\\u0041"], ["\\u00e9", "0"], ["x\\8", "\\400", "2"], ["\\N{BULLET}", "5", "\\"], ["\\g<0>", "0", "0"]):
            bp_ = JSONPointer.from_parts(list(btoks), unicode_escape=False)
            for steps in range(0, len(btoks) + 2):
                for offset in (None, 1, -1, 2, -2, 10, -10, -12):
                    for suffix in ("", "#", "/x", "/0"):
                        ctx.evaluation()
                        ctx.case(h("bs-base", btoks, steps, offset, suffix))
                        text = rel_text(steps, offset, suffix)
                        case = {"backslash": True, "base_tokens": btoks, "text": text}
                        try:
                            toks_, marker_ = rp.rel_apply(list(btoks), steps, offset, suffix)
                            want_, fail_ = (toks_[:-1] + ["#" + toks_[-1]] if marker_ else toks_), None
                        except rp.RelFail as e:
                            want_, fail_ = None, str(e)
                        except ValueError:
                            continue
                        for name, fn in (("rel.to(pointer)", lambda: RelativeJSONPointer(text).to(bp_)), ("pointer.to(text)", lambda: bp_.to(text)), ("pointer.to(rel)", lambda: bp_.to(RelativeJSONPointer(text)))):
                            o = impl.call(fn)
                            ctx.count("applications_to_bases_with_backslash_tokens")
                            if fail_:
                                if o.ok or not isinstance(o.exc, jsonpath.RelativeJSONPointerError):
                                    ctx.violation("forbidden-application-%s" % ("accepted" if o.ok else "raised-foreign:%s" % type(o.exc).__name__), case, {"base_tokens": btoks, "relative": text, "route": name, "outcome": str(o.value) if o.ok else o.desc(), "why_forbidden": fail_})
                                    return
                            elif not o.ok or [str(x) for x in o.value.parts] != want_:
                                ctx.violation("application-%s" % ("raised:%s" % type(o.exc).__name__ if not o.ok else "yields-wrong-pointer"), case, {"base_tokens": btoks, "relative": text, "route": name, "got": o.desc() if not o.ok else [str(x) for x in o.value.parts], "expected": want_})
                                return
        for suffix in ("/\\u005cu0041", "/a/\\u005cn", "/\\u005c\\u005c", "/\\u005cu00e9/x", "/\\u0041", "/\\u00e9", "/\\ud83d\\ude00", "/a\\u002fb"):
            for base in ("/a/b", "/0/1", ""):
                for steps in (0, 1):
                    if steps > len(rp.decode(base)):
                        continue
                    ctx.evaluation()
                    ctx.case(h("bs", suffix, base, steps))
                    text = "%d%s" % (steps, suffix)
                    case = {"backslash": True, "base": base, "text": text}
                    want = impl.call(lambda: str(JSONPointer(rp.encode(rp.decode(base)[: len(rp.decode(base)) - steps]))) + str(JSONPointer(suffix)))
                    if not want.ok:
                        continue
                    for name, fn in (("rel.to(pointer)", lambda: RelativeJSONPointer(text).to(JSONPointer(base))), ("rel.to(text)", lambda: RelativeJSONPointer(text).to(base)), ("pointer.to(text)", lambda: JSONPointer(base).to(text))):
                        o = impl.call(fn)
                        ctx.count("backslash_suffix_applications")
                        if not o.ok or str(o.value) != want.value:
                            ctx.violation("suffix-tokens-differ-from-the-suffix-pointer's-own-tokens", case, {"base": base, "relative": text, "route": name, "got": o.desc() if not o.ok else str(o.value), "expected": want.value})
                            break
    else:
        for text in ("01", "00", "01/a", "0+0", "0-0", "0+01", "0-01", "+1", "-1", "a", "", "0+", "0-", "1.5", "0 1", "#", "/a", "0+1+1", "0++1", "0##", "1#/a", "0+a"):
            ctx.evaluation()
            ctx.case(h("syntax", text))
            o = impl.call(RelativeJSONPointer, text)
            case = {"syntax": text}
            if o.ok:
                back = impl.call(lambda: o.value.to("/a/1"))
                ctx.count("lenient_accept")
                ctx.cell("syntax_accepts", text)
                if text in ("01", "00", "01/a", "0+0", "0-0", "0+01", "0-01", "+1", "-1", "a", ""):
                    ctx.violation("malformed-relative-pointer-accepted", case, {"text": text, "printed": str(o.value), "applied": str(back.value) if back.ok else back.desc()})
            elif not isinstance(o.exc, (jsonpath.RelativeJSONPointerError, jsonpath.JSONPointerError)):
                ctx.violation("malformed-relative-pointer-raised-foreign:%s" % type(o.exc).__name__, case, {"text": text, "error": o.desc()})
            else:
                ctx.count("syntax_rejected")


def finalize(m, tier):
    inc = []
    cen = m["matrices"].get("census", {})
    for need in ("offset=2digit+", "offset=2digit-", "suffix=# -> error", "steps=>depth", "suffix=# -> pointer", "suffix=pointer -> pointer"):
        if not any(need in k for k in cen):
            inc.append("census cell never observed: %s" % need)
    return {"inconclusive": inc, "coverage": {"exhaustive_subspaces": ["all bases of depth <= 2 over 10 tokens x steps x 9 offsets x 7 suffixes: %d combinations" % m["counters"].get("exhaustive_combinations", 0)]}}


def replay(case, ctx):
    if "syntax" in case:
        run({"kind": "syntax"}, ctx)
    elif case.get("flags"):
        run({"kind": "flags"}, ctx)
    elif case.get("backslash"):
        run({"kind": "backslash"}, ctx)
    elif case.get("threads"):
        run({"kind": "threads", "rounds": 150}, ctx)
    elif "from_parts_index" in case or "from_parts" in case:
        run({"kind": "magnitude"}, ctx)
    elif "int_digit_limit" in case:
        import sys

        old_limit = sys.get_int_max_str_digits()
        try:
            sys.set_int_max_str_digits(case["int_digit_limit"])
            check(ctx, tuple(case["base"]), case["steps"], case["offset"], case["suffix"])
        finally:
            sys.set_int_max_str_digits(old_limit)
    else:
        check(ctx, tuple(case["base"]), case["steps"], case["offset"], case["suffix"], all_routes=True)
