"""C13 - documented non-standard syntax means what the documentation says.

Two layers: (i) alias == standard spelling (the same AST rendered with and without the
documented aliases must evaluate identically, and both equal the reference model);
(ii) extension semantics from rt.ref_jsonpath's extension nodes (keys selector, fake
root, current key, filter context at any depth, in/contains, =~ with flags, undefined).
"""
from __future__ import annotations

from rt import gen, hooks, impl, ref_jsonpath as ref, ref_regex
from rt.jp_oracle import check_after_incomplete_passes, check_compound_case, check_interleaved, check_query_case
from rt.jsonval import canon
from rt.render import Renderer

ID = "C13"
LEVEL = "exploration"
RULE = (
    "extension constructs (keys selector in lists and after .., fake root, #, _ at nesting depth 1-3, in/contains on arrays, "
    "strings and object keys, =~ with every flag subset, <>, and/or/not, nil/none/capitalised literals, rootless and bare-name "
    "spellings, ==/!= undefined|missing) generated as ASTs, rendered with the aliases and with the standard spelling, evaluated "
    "on generated documents and filter-context mappings against the reference model; directed templates per construct. A case "
    "is (text, document, context); non-trivial when the reference nodelist is non-empty; distinct by hash."
)
ASSUMPTIONS = [
    "membership operands never mix booleans and numbers (the documentation does not specify it)",
    "=~ subjects contain no CR; patterns are in the I-Regexp/Python common dialect; flags a and m must not change results on anchor-free ASCII patterns",
]


def plan(tier, seed):
    specs = [{"kind": "directed"}]
    n = 11 if tier == "quick" else 45
    for i in range(n):
        specs.append({"kind": "random", "n": 1500 if tier == "quick" else 12000, "depth": 2 + i % 3})
    return specs


def install():
    hooks.install_h1()
    hooks.install_h2()
    hooks.install_h3()


def both_spellings(ctx, ast, doc, extra, cls, n=2):
    """Standard spelling and alias spelling of one AST; both against the model and each other."""
    import jsonpath

    r = ctx.rng
    try:
        model = ref.eval_query(ast, doc, extra=extra)
    except ref_regex.Unsupported:
        ctx.count("regex_outside_common_dialect_skipped")
        return
    t_std = Renderer(r, blanks=r.choice([0.0, 0.25])).top(ast)
    ok = check_query_case(ctx, ast, doc, t_std, cls + ":std", extra=extra, model=model)
    for _ in range(n):
        t_alias = Renderer(r, blanks=r.choice([0.0, 0.25]), alias=True).top(ast)
        ok2 = check_query_case(ctx, ast, doc, t_alias, cls + ":alias", extra=extra, model=model)
        if ok and ok2 and t_alias != t_std:
            a = impl.call(jsonpath.findall, t_std, doc, filter_context=extra)
            b = impl.call(jsonpath.findall, t_alias, doc, filter_context=extra)
            ctx.count("alias_pairs_compared")
            if a.ok != b.ok or (a.ok and canon(a.value) != canon(b.value)):
                ctx.violation("alias-differs-from-standard:%s" % cls, {"class": cls, "ast": ast, "doc": doc, "extra": extra, "text": t_alias, "std": t_std}, {"std": t_std, "alias": t_alias})


def run_non_string_keys(ctx):
    """`in` / `contains` against objects held as Python mappings whose keys are numbers (a stock table keyed by article
    number, positions keyed by index): membership in an object's keys is what the documentation promises, and the
    current-key identifier yields exactly such keys. Expectations are written out by hand; a replay file cannot hold
    such documents, so the class is replayed as a whole."""
    import jsonpath

    doc = {"stock": {10: "a", 20: "b", 2.5: "c"}, "orders": [{"sku": 10}, {"sku": 30}, {"sku": 2.5}, {"sku": "10"}], "list": ["x", "y", "z"]}
    fctx = {"wanted": {10: 1}, "pos": {0: True, 2: True}}
    for text, want in (("$.orders[?@.sku in $.stock]", [{"sku": 10}, {"sku": 2.5}]), ("$.orders[?$.stock contains @.sku]", [{"sku": 10}, {"sku": 2.5}]), ("$.orders[?!(@.sku in $.stock)]", [{"sku": 30}, {"sku": "10"}]),
                       ("$.stock[?# in $.stock]", ["a", "b", "c"]), ("$.orders[?@.sku in _.wanted]", [{"sku": 10}]), ("$.list[?# in _.pos]", ["x", "z"]), ("$.orders[?@.sku in $.stock and not (@.sku in _.wanted)]", [{"sku": 2.5}]),
                       ("$.orders[?@ in $.stock]", []), ("$..[?@.sku in $.stock].sku", [10, 2.5]), ("$.list[?_.pos contains #]", ["x", "z"])):
        for e_name, fn in (("findall", lambda: jsonpath.findall(text, doc, filter_context=fctx)), ("compiled.finditer", lambda: [m.obj for m in jsonpath.compile(text).finditer(doc, filter_context=fctx)]),
                           ("caching off", lambda: jsonpath.JSONPathEnvironment(filter_caching=False).findall(text, doc, filter_context=fctx))):
            o = impl.call(fn)
            ctx.evaluation()
            ctx.count("membership_tests_against_objects_with_number_keys")
            if not o.ok or o.value != want or [type(x) for x in o.value] != [type(x) for x in want]:
                ctx.violation("membership-in-an-object's-keys-wrong-for-keys-that-are-numbers", {"non_string_keys": True}, {"text": text, "entry_point": e_name, "got": o.desc() if not o.ok else repr(o.value), "expected": repr(want)})
                return


def run_long_arrays(ctx):
    """`in` / `contains` against long arrays (lengths around 64, 256, 1000) that come and go: document after document of
    the same shape and length, each dropped and garbage-collected before the next is built (so that the interpreter hands
    out the same addresses again), and one array rewritten in place between queries. Expected: plain Python membership."""
    import gc

    import jsonpath

    queries = [("$.items[?@ in $.allowed]", False), ("$.items[?$.allowed contains @]", False), ("$.items[?@ in _.allowed]", True), ("$..[?@ in $.allowed && @ >= 0]", False), ("^[?# == 0].items[?@ in $.allowed]", False)]
    compiled = {t: jsonpath.compile(t) for t, _c in queries}
    for n in (63, 64, 65, 100, 256, 1000):
        for k in range(12):
            allowed = list(range(k * n, k * n + n))
            items = [k * n + 5, (k + 1) * n + 5, (k - 1) * n + 5, k * n, k * n + n - 1, -1, "x"]
            doc = {"allowed": allowed, "items": items}
            for text, uses_ctx in queries:
                fctx = {"allowed": list(allowed)} if uses_ctx else None
                want = [x for x in items if x in allowed] if "^" not in text and ".." not in text else None
                if text.startswith("$.."):
                    want = [x for x in allowed if x >= 0] + [x for x in items if isinstance(x, int) and x in allowed and x >= 0]
                if text.startswith("^"):
                    want = [x for x in items if x in allowed]
                for route, fn in (("findall(text)", lambda: jsonpath.findall(text, doc, filter_context=fctx)), ("compiled", lambda: compiled[text].findall(doc, filter_context=fctx))):
                    o = impl.call(fn)
                    ctx.evaluation()
                    ctx.count("membership_tests_against_long_arrays_that_come_and_go")
                    if not o.ok or o.value != want:
                        ctx.violation("membership-in-a-long-array-answered-from-another-array", {"long_arrays": True}, {"text": text, "route": route, "array_length": n, "document_number": k, "got": o.desc() if not o.ok else repr(o.value)[:200], "expected": repr(want)[:200]})
                        return
            del doc, allowed, items, fctx
            gc.collect()
        # one array rewritten in place, keeping its length
        doc = {"allowed": list(range(n)), "items": [5, n + 5, 2 * n + 5]}
        for shift in (0, n, 2 * n, 0):
            doc["allowed"][:] = list(range(shift, shift + n))
            want = [x for x in doc["items"] if x in doc["allowed"]]
            for text in ("$.items[?@ in $.allowed]", "$.items[?$.allowed contains @]"):
                o = impl.call(lambda: compiled[text].findall(doc))
                ctx.evaluation()
                if not o.ok or o.value != want:
                    ctx.violation("membership-in-a-long-array-answered-from-its-earlier-contents", {"long_arrays": True}, {"text": text, "array_length": n, "got": o.desc() if not o.ok else repr(o.value), "expected": repr(want)})
                    return
        ctx.cell("long_array_lengths", "length=%d" % n)


def run(spec, ctx):
    install()
    r = ctx.rng
    extra = gen.CTX_DEFAULT
    if spec["kind"] == "directed":
        run_non_string_keys(ctx)
        run_long_arrays(ctx)
    if spec["kind"] == "directed":
        def Q(root, *sels, typ="child"):
            return ["q", root, [[typ, [s]] for s in sels]]
        name = lambda n: ["name", n]  # noqa: E731
        docs = [
            {"a": 1, "b": {"a": 2, "c": [3, {"a": 4}]}, "": 5, "0": 6},
            [{"a": "x", "b": 1}, {"a": "y"}, [], "s", 2, None, {"": 0}],
            {"k": {"k": {"k": 2}}, "list": ["a", 2], "x": [{"v": 2, "c": [{"v": 2}, {"v": 3}]}, {"v": 3, "c": [{"v": 2}]}]},
        ]
        asts = []
        # keys selector: alone, in lists, after descendant, on non-objects, nested in filters
        asts += [
            ["q", "$", [["child", [["keys"]]]]], ["q", "$", [["desc", [["keys"]]]]],
            ["q", "$", [["child", [["keys"], ["name", "a"], ["keys"]]]]], ["q", "$", [["child", [["wild"]]], ["child", [["keys"]]]]],
            ["q", "$", [["child", [["name", "b"]]], ["child", [["keys"], ["index", 0]]]]], ["q", "$", [["desc", [["name", "b"], ["keys"]]]]],
            ["q", "$", [["child", [["filter", ["test", ["q", "@", [["child", [["keys"]]]]]]]]]]],
            ["q", "$", [["child", [["index", 0]]], ["child", [["keys"]]]]],
        ]
        # fake root
        asts += [
            ["q", "^", [["child", [["filter", ["test", Q("@", name("a"))]]]]]], ["q", "^", [["child", [["index", 0]]], ["child", [["name", "a"]]]]],
            ["q", "^", [["child", [["filter", ["cmp", ">", ["call", "length", [["sq", ["q", "@", []]]]], ["lit", 2]]]]]]],
            ["q", "^", [["desc", [["name", "a"]]]]], ["q", "^", [["child", [["wild"]]]]],
            ["q", "^", [["child", [["filter", ["cmp", "==", ["sq", Q("@", name("k"), name("k"), name("k"))], ["sq", Q("_", name("k"))]]]]]]],
        ]
        # current key: names and indices incl. 0 and ""
        for op, v in (("==", 0), ("==", ""), ("==", "a"), ("!=", 0), (">", 0), (">=", 1), ("==", "0"), ("==", 1)):
            asts.append(["q", "$", [["child", [["filter", ["cmp", op, ["key"], ["lit", v]]]]]]])
            asts.append(["q", "$", [["desc", [["filter", ["cmp", op, ["key"], ["lit", v]]]]]]])
        asts.append(["q", "$", [["child", [["filter", ["cmp", "!=", ["key"], ["undef"]]]]]]])
        asts.append(["q", "$", [["child", [["filter", ["cmp", "in", ["key"], ["list", ["a", "", 0]]]]]]]])
        asts.append(["q", "$", [["child", [["filter", ["cmp", "=~", ["key"], ["regex", "[ab]?", ""]]]]]]])
        # filter context at nesting depth 1..3
        inner = ["cmp", "==", ["sq", Q("@", name("v"))], ["sq", Q("_", name("k"))]]
        e = inner
        for _ in range(3):
            asts.append(["q", "$", [["child", [["name", "x"]]], ["child", [["filter", e]]]]])
            asts.append(["q", "$", [["desc", [["filter", e]]]]])
            e = ["test", ["q", "@", [["child", [["name", "c"]]], ["child", [["filter", e]]]]]]
        asts.append(["q", "$", [["child", [["filter", ["test", Q("_", name("zz"))]]]]]])
        asts.append(["q", "$", [["child", [["filter", ["test", Q("_", name("n"))]]]]]])
        asts.append(["q", "$", [["child", [["filter", ["cmp", "in", ["sq", Q("@", name("a"))], ["sq", Q("_", name("names"))]]]]]]])
        # membership on arrays, strings, object keys; literal lists
        for coll in (["list", ["x", 2, None]], ["lit", "xaby"], ["sq", Q("_", name("o"))], ["sq", Q("_", name("list"))], ["sq", Q("$", name("list"))], ["sq", Q("_", name("k"))], ["list", []]):
            for el in (["sq", Q("@", name("a"))], ["lit", "a"], ["lit", "ab"], ["lit", 2], ["lit", None], ["sq", ["q", "@", []]], ["key"]):
                asts.append(["q", "$", [["child", [["filter", ["cmp", "in", el, coll]]]]]])
                asts.append(["q", "$", [["child", [["filter", ["cmp", "contains", coll, el]]]]]])
                asts.append(["q", "$", [["child", [["filter", ["not", ["cmp", "in", el, coll]]]]]]])
        asts.append(["q", "$", [["child", [["filter", ["cmp", "contains", ["sq", ["q", "@", []]], ["lit", "a"]]]]]]])
        asts.append(["q", "$", [["child", [["filter", ["cmp", "contains", ["sq", ["q", "@", []]], ["lit", 2]]]]]]])
        # =~ with every flag subset
        import itertools

        spell = [fl for k in range(5) for fl in itertools.combinations("aims", k)] + [tuple(x) for x in ("mm", "ss", "ii", "aa", "isi", "smi", "mms", "ssi", "am", "ma", "iis")]
        for k in range(1):
            for fl in spell:
                for pat in ("x", "X", "a.b", "[w-y]+", "(x|y)", "x?"):
                    asts.append(["q", "$", [["child", [["filter", ["cmp", "=~", ["sq", Q("@", name("a"))], ["regex", pat, "".join(fl)]]]]]]])
        # <> , undefined / missing, aliases of logical operators and literals
        A = ["test", Q("@", name("a"))]
        B = ["test", Q("@", name("b"))]
        for e in (["cmp", "!=", ["sq", Q("@", name("a"))], ["lit", "x"]], ["cmp", "!=", ["sq", Q("@", name("b"))], ["lit", 1]], ["cmp", "!=", ["lit", None], ["sq", ["q", "@", []]]],
                  ["cmp", "==", ["sq", Q("@", name("a"))], ["undef"]], ["cmp", "!=", ["sq", Q("@", name("a"))], ["undef"]], ["cmp", "==", ["undef"], ["sq", Q("@", name("b"))]],
                  ["cmp", "==", ["sq", ["q", "@", []]], ["lit", None]], ["cmp", "==", ["sq", ["q", "@", []]], ["lit", True]], ["cmp", "!=", ["sq", ["q", "@", []]], ["lit", False]],
                  ["or", A, ["and", B, ["not", A]]], ["and", ["or", A, B], ["not", ["paren", ["and", A, B]]]], ["not", A], ["or", ["not", A], B]):
            asts.append(["q", "$", [["child", [["filter", e]]]]])
            asts.append(["q", "$", [["desc", [["filter", e]]]]])
        # rootless / bare names
        asts += [Q("$", name("a")), Q("$", name("b"), name("a")), ["q", "$", [["child", [["name", "b"], ["name", "a"]]]]], ["q", "$", [["desc", [["name", "a"]]]]], Q("$", name("b"), name("c"), ["index", 1], name("a")), ["q", "$", [["child", [["wild"]]]]], ["q", "$", []]]
        docs2 = docs + [[True, False, None, {"a": None}, {"a": True}], [{"a": "x"}, {"a": "X"}, {"a": "a\nb"}, {"a": "xy"}, {"a": "axb"}, {"a": ""}, {"a": 1}, {"b": "x"}]]
        for ast in asts:
            for doc in docs2:
                both_spellings(ctx, ast, doc, extra, "directed")
        ctx.count("directed_templates", len(asts))
        # the fake root in every operand position of compound queries
        fr = ["q", "^", [["child", [["filter", ["cmp", "==", ["sq", Q("@", name("b"))], ["lit", 1]]]]]]]
        fr2 = ["q", "^", [["child", [["index", 0]]], ["child", [["name", "a"]]]]]
        plain = [Q("$", name("a")), ["q", "$", []], ["q", "$", [["child", [["wild"]]]]]]
        cdocs = [{"a": 5, "b": 1}, {"a": 5, "b": 2}, [{"a": 1, "b": 1}], {"a": {"a": 5, "b": 1}, "b": 1}]
        comps = []
        for p in plain:
            for f in (fr, fr2):
                for op in "|&":
                    comps += [[p, [op, f]], [f, [op, p]], [f, [op, f]], [p, [op, p], [op, f]], [p, [op, f], [op, p]], [f, [op, p], ["|", f]]]
        for comp in comps:
            for doc in cdocs:
                for al in (False, True):
                    check_compound_case(ctx, comp, doc, Renderer(r, blanks=0.1, alias=al).compound(comp), "compound-fake-root", extra=extra)
    else:
        import jsonpath as _jp

        for _ in range(40):
            # one compiled query, one document object, one context mapping object updated in place
            live = {"k": 2, "list": ["a", 2], "o": {"a": 1, "b": {"k": 3}}, "s": "xaby", "names": ["a", "b"], "n": None, "limit": 2}
            doc = gen.ext_doc(r, ["a", "b", "k", "v"])
            fgl = gen.ExtFilterGen(r, ["a", "b", "k", "v"], max_depth=2)
            ctxq = r.choice([["cmp", "==", ["sq", ["q", "@", [["child", [["name", "k"]]]]]], ["sq", ["q", "_", [["child", [["name", "k"]]]]]]],
                             ["cmp", "in", ["key"], ["sq", ["q", "_", [["child", [["name", "names"]]]]]]], ["cmp", "in", ["sq", ["q", "@", []]], ["sq", ["q", "_", [["child", [["name", "list"]]]]]]],
                             ["test", ["q", "@", [["child", [["filter", ["cmp", "==", ["sq", ["q", "@", []]], ["sq", ["q", "_", [["child", [["name", "k"]]]]]]]]]]]]]])
            ast = ["q", "$", [[r.choice(["child", "desc"]), [["filter", ["or", ctxq, ["and", fgl.logical(), ["test", ["q", "_", [["child", [["name", "zz"]]]]]]]]]]]]]
            text = Renderer(r, blanks=0.1).top(ast)
            cp = impl.call(_jp.compile, text)
            if not cp.ok:
                continue
            for step in range(4):
                ctx.evaluation()
                try:
                    model = ref.eval_query(ast, doc, extra=live)
                except ref_regex.Unsupported:
                    break
                got = impl.call(lambda: impl.match_records(cp.value.finditer(doc, filter_context=live)))
                ctx.count("compiled_reuse_with_in_place_context_updates")
                diff = got.desc() if not got.ok else impl.nodes_equal(got.value, model)
                if diff:
                    ctx.violation("filter-context-identifier-reads-stale-data-after-an-in-place-update", {"class": "live-context", "ast": ast, "doc": doc, "text": text, "extra": dict(live)}, {"text": text, "step": step, "context": canon(live), "diff": diff})
                    break
                live["k"] = r.choice([2, 3, "a", None, 10])
                live["names"] = r.sample(["a", "b", "k", "v", ""], 2)
                live["list"] = [r.choice(gen.MEM_LEAVES) for _ in range(3)]
        if True:
            # constant sub-expressions that are twins under Python's == (1 / 1.0 / true, 0 / false) side by side in one filter
            def sq(root, *ns):
                return ["sq", ["q", root, [["child", [["name", n]]] for n in ns]]]
            for la, lb in ((1, True), (True, 1), (0, False), (False, 0.0), (1.0, True), (1, 1.0), (None, 0), ("1", 1)):
                for mk in (lambda v: ["cmp", "==", sq("_", "x"), ["lit", v]], lambda v: ["cmp", "!=", sq("_", "x"), ["lit", v]], lambda v: ["cmp", "==", sq("$", "flag"), ["lit", v]],
                           lambda v: ["cmp", "in", ["lit", v], sq("_", "list")] if not isinstance(v, bool) and v is not None else ["cmp", "==", sq("_", "x"), ["lit", v]]):
                    e = ["or", ["paren", ["and", mk(la), ["cmp", "==", sq("@", "a"), ["lit", 1]]]], ["paren", ["and", mk(lb), ["cmp", "==", sq("@", "a"), ["lit", 2]]]]]
                    ast = ["q", "$", [["child", [["name", "items"]]], ["child", [["filter", e]]]]]
                    for x in (1, True, 0, False, 1.0, None, "1"):
                        doc_ = {"flag": x, "items": [{"a": 1}, {"a": 2}, {"a": 3}]}
                        ex_ = {"x": x, "list": ["a", 2, "v1"] if isinstance(x, bool) or x is None else [x, "a"], "k": 2, "o": {}, "s": "", "names": []}
                        both_spellings(ctx, ast, doc_, ex_, "twin-constants", n=1)
        for i in range(spec["n"]):
            names = r.sample(["a", "b", "c", "k", "v", "é", "0"], r.randint(2, 4))
            fg = gen.ExtFilterGen(r, names, max_depth=spec["depth"])
            k = r.random()
            if k < 0.7:
                expr = fg.logical()
                seg = [r.choice(["child", "desc"]), [["filter", expr]] + ([["keys"]] if r.random() < 0.15 else [])]
                segs = [seg] if r.random() < 0.7 else [["child", [["wild"]]], seg]
                ast = ["q", "^" if r.random() < 0.15 else "$", segs]
            else:
                segs = gen.gen_segments(r, names, max_segs=3, keys=True, filters=lambda: fg.logical())
                ast = ["q", "^" if (segs and r.random() < 0.3) else "$", segs]
            doc = gen.ext_doc(r, names, extra=fg.witnesses)
            ex = dict(extra)
            if r.random() < 0.3:
                ex = {"k": r.choice([2, "a", None]), "list": [r.choice(gen.MEM_LEAVES) for _ in range(3)], "o": {n: 1 for n in names}, "s": r.choice(fg.witnesses or ["ab"]), "names": names}
            both_spellings(ctx, ast, doc, ex, "random", n=1)
            if i % 5 == 0:
                # one compiled query (alias spelling) over two documents and two filter contexts at once
                doc_b = gen.ext_doc(r, names, extra=fg.witnesses)
                ex_b = {"k": r.choice([3, "b", 10]), "list": [r.choice(gen.MEM_LEAVES) for _ in range(3)], "o": {n: 1 for n in names[:1]}, "s": r.choice(fg.witnesses or ["ab"]), "names": names[:1]}
                check_interleaved(ctx, ast, Renderer(r, blanks=0.1, alias=True).top(ast), [(doc, ex), (doc_b, ex_b), (doc, ex_b)], "interleaved")
            if i % 5 == 2:
                check_after_incomplete_passes(ctx, ast, Renderer(r, blanks=0.1, alias=True).top(ast), doc, ex, "in-place", pool=list(gen.MEM_LEAVES) + [[], {}, ["a"], {"a": 2}])  # (no boolean/number look-alikes: membership between them is unspecified)
            if r.random() < 0.25:
                other = ["q", r.choice(["^", "$"]), [["child", [["wild"]]]] if r.random() < 0.5 else gen.gen_segments(r, names, max_segs=2, keys=True) or [["child", [["wild"]]]]]
                comp = [ast, [r.choice("|&"), other]] if r.random() < 0.5 else [other, [r.choice("|&"), ast]]
                if r.random() < 0.3:
                    comp.append([r.choice("|&"), ["q", "^", [["child", [["index", 0]]]]]])
                check_compound_case(ctx, comp, doc, Renderer(r, blanks=0.1, alias=r.random() < 0.5).compound(comp), "compound-random", extra=ex)
    for k, v in hooks.STATE.sel_matrix.items():
        ctx.cell("H1_selector_x_kind", "|".join(k), v)
    for k, v in hooks.STATE.cmp_matrix.items():
        ctx.cell("H3_compare_cells", "%s %s %s %s" % k, v)
    ctx.count("H2_matches_checked", hooks.STATE.h2_checked)
    ctx.count("H2_keys_matches_skipped", hooks.STATE.h2_skipped)


def finalize(m, tier):
    inc = []
    h3 = m["matrices"].get("H3_compare_cells", {})
    for op in ("in", "contains", "=~"):
        if not any(c.startswith(op + " ") and c.endswith("True") for c in h3) or not any(c.startswith(op + " ") and c.endswith("False") for c in h3):
            inc.append("H3 never saw %s both true and false" % op)
    h1 = m["matrices"].get("H1_selector_x_kind", {})
    if not h1.get("KeysSelector|object|sync") or not h1.get("KeysSelector|array|sync"):
        inc.append("keys selector never met an object and a non-object")
    if m["counters"].get("alias_pairs_compared", 0) < 500:
        inc.append("too few alias/standard pairs compared")
    return {"inconclusive": inc}


def replay(case, ctx):
    install()
    if case.get("in_place"):
        for _ in range(10):
            check_after_incomplete_passes(ctx, case["ast"], case["text"], case["doc"], case.get("extra"), case.get("class", "replay"), pool=list(gen.MEM_LEAVES) + [[], {}, ["a"], {"a": 2}])
        return
    if case.get("non_string_keys"):
        run_non_string_keys(ctx)
        return
    if case.get("long_arrays"):
        run_long_arrays(ctx)
        return
    if case.get("interleaved"):
        check_interleaved(ctx, case["ast"], case["text"], [tuple(x) for x in case["runs"]], case.get("class", "replay"))
        return
    if "comp" in case:
        check_compound_case(ctx, case["comp"], case["doc"], case["text"], case.get("class", "replay"), extra=case.get("extra"))
        return
    check_query_case(ctx, case["ast"], case["doc"], case["text"], case.get("class", "replay"), extra=case.get("extra"))
    if case.get("std"):
        check_query_case(ctx, case["ast"], case["doc"], case["std"], "replay:std", extra=case.get("extra"))
