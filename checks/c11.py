"""C11 - all query entry points agree with one another on every input.

Base: finditer of each simple operand through the compiled object.  The fold model
(union = concatenation, intersection = left restricted to values the right produced,
left to right) is computed from those; findall / finditer / match / query through the
module-level functions, a fresh environment's methods and the compiled object's
methods, on {parsed value, JSON text, StringIO, real text file, real binary file}, must
all equal it.
"""
from __future__ import annotations

import copy
import io
import json
import os
import tempfile

from rt import gen, impl
from rt.jsonval import canon, h, strict_eq
from rt.render import Renderer

ID = "C11"
LEVEL = "exploration"
RULE = (
    "simple and compound queries (1-5 operands, every |/& pattern) over documents with unique-id leaves, through 3 API layers x "
    "{findall, finditer, match, query} x 5 document forms. A case is (query text, document); non-trivial when the expected "
    "result is non-empty; distinct by hash."
)
ASSUMPTIONS = ["intersection documents use unique-id leaves (membership of boolean/number look-alikes is unspecified)", "text/file documents are arrays or objects"]


def plan(tier, seed):
    n = 14 if tier == "quick" else 46
    return [{"kind": "scale"}, {"kind": "threads", "rounds": 6 if tier == "quick" else 40}] + [{"n": 450 if tier == "quick" else 5000} for _ in range(n)]


def recs(ms):
    return [(tuple(m.parts), canon(m.obj)) for m in ms]


def fold(operand_results, ops, eq=strict_eq):
    cur = list(operand_results[0])
    for op, res in zip(ops, operand_results[1:]):
        if op == "|":
            cur = cur + list(res)
        else:
            cur = [x for x in cur if any(eq(x[2], y[2]) for y in res)]
    return cur


def _python_eq(a, b):
    try:
        return bool(a == b)
    except Exception:  # noqa: BLE001
        return False


def fold_where_specified(operand_results, ops, reference, ctx):
    """The fold under JSON equality - unless membership of some value hangs on a boolean / number look-alike
    (`1.0` against `true`, at any depth), which the statement leaves open (DESIGN: "membership there is unspecified"):
    then whatever the compiled query's lazy entry point decides is the reference every other entry point must match."""
    strict = fold(operand_results, ops)
    loose = fold(operand_results, ops, _python_eq)
    if [(p, c) for p, c, _ in strict] == [(p, c) for p, c, _ in loose]:
        return strict
    ctx.count("membership_hangs_on_a_boolean_number_lookalike")
    return reference()


LOOKALIKES = [{"w": 0, "z": {"x": [2, {"p": 4, "q": 3}], "y": 1}}, {}, [], {"a": 1}, [["a", 1]], "x", ["x"], [[]], {"a": []}, {"a": {}}, 7, "7", [7], None, [None], {"b": 2, "a": 1}, [["a", 1], ["b", 2]], "", [""], {"0": "x"}, [{"a": 1}], ["a", 1]]


async def _alist(p_, doc):
    return [canon(m.obj) async for m in await p_.finditer_async(doc)]


def run_scale(ctx):
    """Compound queries whose operands produce many values (sizes around round thresholds), the left side made of
    container look-alikes of which the right side holds every other one."""
    def Q(*names):
        return ["q", "$", [["child", [["name", n]]] for n in names] + [["child", [["wild"]]]]]
    for n in (15, 16, 17, 63, 64, 65, 127, 129, 255, 257, 1025, 5000):
        some = [copy.deepcopy(v) for v in LOOKALIKES[1::2]]
        # (and equal objects whose members were written in another order: the same JSON value)
        some += [dict(reversed(list(v.items()))) for v in LOOKALIKES if isinstance(v, dict) and len(v) > 1] + [{"z": {"y": 1, "x": [2, {"q": 3, "p": 4}]}, "w": 0}]
        doc = {"L": copy.deepcopy(LOOKALIKES), "R": some + [1000 + i for i in range(n - len(some))], "M": [[i] for i in range(n)] + [[]]}
        for comp in ([Q("L"), ["&", Q("R")]], [Q("L"), ["&", Q("R")], ["|", Q("L")]], [Q("R"), ["&", Q("L")]], [Q("L"), ["|", Q("R")], ["&", Q("R")]], [Q("L"), ["&", Q("M")]], [Q("M"), ["&", Q("M")], ["&", Q("L")]], [Q("L"), ["&", Q("R")], ["&", Q("L")]]):
            text = Renderer(ctx.rng, plain=True).compound(comp)
            ctx.case(h("scale", n, text), True)
            replay({"text": text, "doc": doc, "comp": comp, "filter_context": None}, ctx, tag="scale")
        ctx.cell("scale", "right-hand values=%d" % n)
    # values that differ only in the spelling of a number (10 / 10.0, 1 / true, 0 / -0.0), which the intersection's `==`
    # treats as equal: whatever it decides, every entry point must decide the same (the eager one is the reference)
    import jsonpath

    twins_l = [{"price": 10}, {"price": 12.5}, [1, 2], [0], 1, 10, {"a": [True]}, [[1.0]], "1", None]
    twins_r = [{"price": 10.0}, {"price": 12.5}, [True, 2], [-0.0], True, 10.0, {"a": [1]}, [[1]], 1.0, 0]
    import collections

    # (and, every other round, values that are the same JSON value held in different Python container types - a tuple
    # against a list, mappings of another type or written in another order: the text form of such a document no longer
    # has the difference, so that form is left out there)
    types_l = [(3, 4), (), {"o": (5,)}, collections.OrderedDict([("a", 1), ("b", 2)]), [6, (7,)], collections.UserList([8])]
    types_r = [[3, 4], [], {"o": [5]}, collections.OrderedDict([("b", 2), ("a", 1)]), [6, [7]], [8]]
    for n_i, n in enumerate((5, 31, 32, 33, 64, 100, 1000, 6, 34, 65, 101)):
        other_types = n_i % 2 == 1
        doc = {"L": copy.deepcopy(twins_l) + (copy.deepcopy(types_l) if other_types else []), "R": copy.deepcopy(twins_r) + (copy.deepcopy(types_r) if other_types else []) + [{"filler": i} for i in range(n - len(twins_r))]}
        for text in ("$.L[*] & $.R[*]", "$.L[*] & $.R[*] | $.L[0]", "$.R[*] & $.L[*]", "$.L[*] | $.R[*] & $.L[*]"):
            p_ = jsonpath.compile(text)
            ref_ = impl.call(lambda: [canon(v) for v in p_.findall(doc)])
            ctx.evaluation()
            for ename, fn in (("finditer", lambda: [canon(m.obj) for m in p_.finditer(doc)]), ("query", lambda: [canon(v) for v in p_.query(doc).values()]), ("module.finditer", lambda: [canon(m.obj) for m in jsonpath.finditer(text, doc)]),
                              ("match", lambda: [canon(p_.match(doc).obj)] if p_.match(doc) is not None else []), ("findall(text)", lambda: [canon(v) for v in p_.findall(json.dumps(doc))]),
                              ("findall_async", lambda: [canon(v) for v in __import__("asyncio").run(p_.findall_async(doc))]), ("finditer_async", lambda: __import__("asyncio").run(_alist(p_, doc)))):
                if other_types and ename == "findall(text)":
                    continue
                o = impl.call(fn)
                want_ = ref_.value[:1] if ename == "match" and ref_.ok else ref_.value
                if ref_.ok and (not o.ok or o.value != want_):
                    ctx.violation("entry-points-disagree:number-spelling-twins:%s" % ename, {"twins": True, "n": n, "text": text}, {"text": text, "right_hand_values": n, "entry_point": ename, "got": o.desc() if not o.ok else repr(o.value)[:300], "findall": repr(want_)[:300]})
                    return
        ctx.cell("scale", "number-spelling twins, right-hand values=%d" % n)
    # a readable file that the caller has already read something from (a header line): the document is what is LEFT on the
    # stream, through every entry point that takes a file
    import tempfile as _tf

    for header in (b"# header\n", b"[1, 2]\n", b"x" * 5000 + b"\n"):
        for dval in ({"a": [1, {"b": 2}], "c": "s"}, [1, [2, 3], {"a": 4}]):
            for text in ("$..*", "$.a | $[1]", "$..[?@.b == 2] & $..*"):
                want_ = impl.call(lambda: [canon(v) for v in jsonpath.findall(text, dval)])
                for ename, fn in (("findall", lambda f: [canon(v) for v in jsonpath.findall(text, f)]), ("finditer", lambda f: [canon(m.obj) for m in jsonpath.finditer(text, f)]), ("compiled.findall", lambda f: [canon(v) for v in jsonpath.compile(text).findall(f)]),
                                  ("query", lambda f: [canon(v) for v in jsonpath.query(text, f).values()]), ("match", lambda f: [canon(m.obj) for m in [jsonpath.match(text, f)] if m is not None])):
                    for mode in ("rb", "r"):
                        with _tf.NamedTemporaryFile("wb", suffix=".json", delete=False) as tf_:
                            tf_.write(header + json.dumps(dval).encode("utf-8"))
                        try:
                            with open(tf_.name, mode) as f_:
                                f_.readline()
                                o = impl.call(fn, f_)
                        finally:
                            os.unlink(tf_.name)
                        ctx.evaluation()
                        ctx.count("file_documents_positioned_past_a_header")
                        w_ = want_.value[:1] if ename == "match" else want_.value
                        if not o.ok or o.value != w_:
                            ctx.violation("file-document-read-from-somewhere-else-than-its-position:%s" % ename, {"twins": True}, {"text": text, "entry_point": ename, "mode": mode, "header": repr(header[:20]), "got": o.desc() if not o.ok else repr(o.value)[:300], "expected": repr(w_)[:300]})
                            return
    # numbers of the other numeric types a caller's loader may produce (json.loads(..., parse_float=Decimal), Fraction):
    # equal to builtin numbers under ==, hashable, but neither int nor float. No model here - every entry point must
    # decide what the eager one decides.
    from decimal import Decimal
    from fractions import Fraction

    async def _arepr(p_, doc):
        return [repr(m.obj) async for m in await p_.finditer_async(doc)]
    num_l = [10, 12.5, Decimal("3"), Fraction(2, 1), 7, {"p": Decimal("10.0")}, [Fraction(1, 2)], 0.5, "10", True, Decimal("1e2"), 100]
    num_r = [Decimal("10.0"), Decimal("12.5"), 3, 2, 7.0, {"p": 10}, [0.5], Fraction(1, 2), 10, 1, 100, Fraction(200, 2)]
    for n in (12, 40, 300):
        doc = {"L": list(num_l), "R": list(num_r) + [{"filler": i} for i in range(n - len(num_r))]}
        for text in ("$.L[*] & $.R[*]", "$.R[*] & $.L[*]", "$.L[*] & $.R[*] | $.L[2]", "$.L[*] | $.R[*] & $.L[*]", "$.L[2:] & $.R[:4]"):
            p_ = jsonpath.compile(text)
            ref_ = impl.call(lambda: [repr(v) for v in p_.findall(doc)])
            ctx.evaluation()
            for ename, fn in (("finditer", lambda: [repr(m.obj) for m in p_.finditer(doc)]), ("query", lambda: [repr(v) for v in p_.query(doc).values()]), ("module.finditer", lambda: [repr(m.obj) for m in jsonpath.finditer(text, doc)]),
                              ("module.findall", lambda: [repr(v) for v in jsonpath.findall(text, doc)]), ("module.query", lambda: [repr(v) for v in jsonpath.query(text, doc).values()]),
                              ("match", lambda: [repr(p_.match(doc).obj)] if p_.match(doc) is not None else []), ("module.match", lambda: [repr(jsonpath.match(text, doc).obj)] if jsonpath.match(text, doc) is not None else []),
                              ("findall_async", lambda: [repr(v) for v in __import__("asyncio").run(p_.findall_async(doc))]), ("finditer_async", lambda: __import__("asyncio").run(_arepr(p_, doc)))):
                o = impl.call(fn)
                want_ = ref_.value[:1] if ename.endswith("match") and ref_.ok else ref_.value
                if not ref_.ok or not o.ok or o.value != want_:
                    ctx.violation("entry-points-disagree:other-numeric-types:%s" % ename, {"other_numeric_types": True}, {"text": text, "right_hand_values": n, "entry_point": ename, "got": o.desc() if not o.ok else repr(o.value)[:300], "findall": repr(want_)[:300] if ref_.ok else ref_.desc()})
                    return
            ctx.count("compound_queries_over_other_numeric_types")


def run_threads(ctx, rounds):
    """The text-taking entry points (compile + evaluate in one call) from 8 threads at once on the default environment,
    each (query, document) against what the same call gives alone (yields injected in the lexer, parser, selectors)."""
    import jsonpath

    from rt.threads import stress

    r = ctx.rng
    for _round in range(rounds):
        cases = []
        for _ in range(10):
            doc = gen.gen_doc(r, profile="unique", hostile=0.2, max_depth=3, fan=3)
            names = gen.doc_names(doc)[:6] or ["a"]
            fg = gen.FilterGen(r, names[:4], max_depth=2)
            asts = [gen.gen_std_query(r, doc, max_segs=3) if r.random() < 0.5 else ["q", "$", [[r.choice(["child", "desc"]), [["filter", fg.logical()]]]]] for _ in range(r.randint(1, 3))]
            comp = [asts[0]] + [[r.choice("|&"), q] for q in asts[1:]]
            text = Renderer(r, blanks=0.1).compound(comp)
            alone = impl.call(lambda: [canon(v) for v in jsonpath.findall(text, doc)])
            if alone.ok:
                cases.append((text, doc, alone.value))
        errors = []

        def worker(wid, rr):
            for text, doc, want in rr.sample(cases, len(cases)):
                ep = rr.choice(["findall", "finditer", "query", "match"])
                try:
                    if ep == "findall":
                        got = [canon(v) for v in jsonpath.findall(text, doc)]
                    elif ep == "finditer":
                        got = [canon(m.obj) for m in jsonpath.finditer(text, doc)]
                    elif ep == "query":
                        got = [canon(v) for v in jsonpath.query(text, doc).values()]
                    else:
                        m = jsonpath.match(text, doc)
                        got, want = ([canon(m.obj)] if m is not None else []), want[:1]
                except Exception as e:  # noqa: BLE001
                    got = "%s: %s" % (type(e).__name__, e)
                if got != want:
                    errors.append({"text": text, "entry_point": ep, "thread": wid, "got": repr(got)[:300], "alone": repr(want)[:300]})

        st = stress(worker, nthreads=8, files=("lex.py", "parse.py", "selectors.py", "path.py", "filter.py", "env.py"), seed=r.random(), prob=0.01)
        ctx.evaluation(len(cases) * 8)
        ctx.count("concurrent_entry_point_calls", len(cases) * 8)
        ctx.count("yields_injected", st["yields"])
        ctx.cell("thread_interleaving_signatures", st["signature"])
        for e in errors[:2]:
            ctx.violation("entry-point-called-from-several-threads-differs-from-the-call-alone", {"kind": "threads"}, e)
        if errors:
            return


def run(spec, ctx):
    import jsonpath

    if spec.get("kind") == "scale":
        run_scale(ctx)
        return
    if spec.get("kind") == "threads":
        run_threads(ctx, spec["rounds"])
        return
    r = ctx.rng
    env2 = jsonpath.JSONPathEnvironment()
    for _ in range(spec["n"]):
        shared = _ % 6 == 5
        # (every sixth document holds one container object at several locations - a shared defaults object, `[row] * n`,
        # YAML anchors: as JSON text or a file it is the same document with independent copies)
        doc = gen.gen_doc(r, profile="unique" if not shared else "mixed", hostile=r.choice([0.1, 0.5]), max_depth=r.randint(2, 4), fan=r.randint(2, 4), alias=0.35 if shared else 0.0)
        if shared:
            ctx.count("documents_with_shared_containers")
        names = gen.doc_names(doc)[:12] or ["a"]
        use_ctx = r.random() < 0.3
        fg = gen.ExtFilterGen(r, names[:4] or ["a"], max_depth=2) if use_ctx else gen.FilterGen(r, names[:4] or ["a"], max_depth=2)
        fctx = {"k": r.choice([2, "a", 1001, None]), "list": [r.choice(gen.MEM_LEAVES) for _ in range(3)] + names[:1], "o": {n: 1 for n in names[:3]}, "s": "ab", "names": names[:3], "zz": None} if use_ctx else None
        kw = {"filter_context": fctx} if use_ctx else {}
        nops = r.choice([1, 1, 2, 2, 3, 4, 5])
        asts = []
        for _i in range(nops):
            k = r.random()
            if k < 0.12:
                asts.append(["q", "^", r.choice([[["child", [["wild"]]]], [["child", [["index", 0]]]] + gen.gen_segments(r, names, max_segs=2), [["child", [["filter", fg.logical()]]]]])])
            elif k < 0.75:
                asts.append(gen.gen_std_query(r, doc, max_segs=3))
            else:
                asts.append(["q", "$", [[r.choice(["child", "desc"]), [["filter", fg.logical()]]]]])
        ops = [r.choice("|&") for _ in range(nops - 1)]
        comp = [asts[0]] + [[op, q] for op, q in zip(ops, asts[1:])]
        rr = Renderer(r, blanks=0.1)
        text = rr.compound(comp)
        case = {"text": text, "doc": doc, "comp": comp, "filter_context": fctx}
        if use_ctx:
            ctx.count("cases_with_a_filter_context")
        ctx.evaluation()
        # base: each simple operand alone, through the compiled object
        operand = []
        bad = False
        for q in asts:
            t = Renderer(r, plain=True).top(q)
            o = impl.call(lambda: [(tuple(m.parts), canon(m.obj), m.obj) for m in jsonpath.compile(t).finditer(doc, **kw)])
            if not o.ok:
                bad = True
                break
            operand.append(o.value)
        if bad:
            ctx.count("operand_raised")
            continue
        want_full = fold_where_specified(operand, ops, lambda: [(tuple(m.parts), canon(m.obj), m.obj) for m in jsonpath.compile(text).finditer(doc, **kw)], ctx)
        want = [(p, c) for p, c, _ in want_full]
        want_vals = [c for _, c, _ in want_full]
        ctx.case(h(text, canon(doc)), bool(want))
        comp_c = impl.call(jsonpath.compile, text)
        if not comp_c.ok:
            ctx.violation("compound-query-rejected", case, {"text": text, "error": comp_c.desc()})
            continue
        p = comp_c.value
        layers = {
            "module": (lambda d: jsonpath.findall(text, d, **kw), lambda d: jsonpath.finditer(text, d, **kw), lambda d: jsonpath.match(text, d, **kw), lambda d: jsonpath.query(text, d, **kw)),
            "env": (lambda d: env2.findall(text, d, **kw), lambda d: env2.finditer(text, d, **kw), lambda d: env2.match(text, d, **kw), lambda d: env2.query(text, d, **kw)),
            "compiled": (lambda d: p.findall(d, **kw), lambda d: p.finditer(d, **kw), lambda d: p.match(d, **kw), lambda d: p.query(d, **kw)),
        }
        # the same compound query assembled from its compiled operands: with the union()/intersection() methods, and
        # with the constructor given a compound left-hand side (split after every operator)
        cps = [jsonpath.compile(Renderer(r, plain=True).top(q)) for q in asts]
        if ops:
            def by_methods():
                q_ = cps[0]
                for op_, c_ in zip(ops, cps[1:]):
                    q_ = q_.union(c_) if op_ == "|" else q_.intersection(c_)
                return q_
            bm = impl.call(by_methods)
            if bm.ok:
                layers["assembled-by-methods"] = (lambda d, q_=bm.value: q_.findall(d, **kw), lambda d, q_=bm.value: q_.finditer(d, **kw), lambda d, q_=bm.value: q_.match(d, **kw), lambda d, q_=bm.value: q_.query(d, **kw))
            from jsonpath.path import CompoundJSONPath

            E = jsonpath.DEFAULT_ENV
            tok = {"|": E.union_token, "&": E.intersection_token}
            for k_ in range(1, len(ops)):
                left = CompoundJSONPath(env=E, path=cps[0], paths=[(tok[o_], c_) for o_, c_ in zip(ops[:k_], cps[1:k_ + 1])])
                whole = CompoundJSONPath(env=E, path=left, paths=[(tok[o_], c_) for o_, c_ in zip(ops[k_:], cps[k_ + 1:])])
                layers["constructor-with-compound-left-%d" % k_] = (lambda d, q_=whole: q_.findall(d, **kw), lambda d, q_=whole: q_.finditer(d, **kw), lambda d, q_=whole: q_.match(d, **kw), lambda d, q_=whole: q_.query(d, **kw))
        jtext = json.dumps(doc)

        def forms():
            yield "parsed", doc, None
            yield "text", jtext, None
            yield "stringio", io.StringIO(jtext), None
            if r.random() < 0.3:
                # a binary stream in another Unicode encoding (json detects utf-8/16/32 from the bytes)
                from .c08 import STREAM_FORMS, stream_of

                form = r.choice(STREAM_FORMS[2:])
                yield form, stream_of(doc, form, r.random() < 0.5), None
            if r.random() < 0.15:
                f = tempfile.TemporaryFile("w+", encoding="utf-8")
                f.write(jtext)
                f.seek(0)
                yield "textfile", f, f
                g = tempfile.TemporaryFile("w+b")
                g.write(jtext.encode("utf-8"))
                g.seek(0)
                yield "binfile", g, g
        failed = False
        for lname, (fa, fi, fm, fq) in layers.items():
            if failed:
                break
            for call_i, (ename, fn) in enumerate((("findall", fa), ("finditer", fi), ("match", fm), ("query", fq))):
                if failed:
                    break
                for form, d, closer in forms():
                    try:
                        o = impl.call(fn, d)
                        if not o.ok:
                            ctx.violation("entry-point-raised:%s.%s:%s" % (lname, ename, form), case, {"text": text, "error": o.desc()})
                            failed = True
                            break
                        if ename in ("finditer", "query") and hasattr(d, "close") and r.random() < 0.5:
                            # the stream is the caller's: once the call has returned, the caller may close it, or rewind and
                            # rewrite it - the result must already hold the document that was on the stream
                            if isinstance(d, io.StringIO) and r.random() < 0.5:
                                d.seek(0)
                                d.truncate()
                                d.write('{"a": ["another document"], "b": {"a": 1}}')
                                d.seek(0)
                                ctx.count("streams_rewritten_before_the_lazy_result_was_read")
                            else:
                                d.close()
                                ctx.count("streams_closed_before_the_lazy_result_was_read")
                        if ename in ("finditer", "query"):
                            drained = impl.call(lambda: list(o.value) if ename == "finditer" else list(o.value.values()))
                            if not drained.ok:
                                ctx.violation("lazy-result-raised-when-read-after-the-call-returned:%s.%s:%s" % (lname, ename, form), case, {"text": text, "error": drained.desc()})
                                failed = True
                                break
                        if ename == "findall":
                            got = [canon(v) for v in o.value]
                            ok = got == want_vals
                        elif ename == "finditer":
                            got = recs(drained.value)
                            ok = got == want
                        elif ename == "match":
                            got = None if o.value is None else (tuple(o.value.parts), canon(o.value.obj))
                            ok = got == (want[0] if want else None)
                        else:
                            got = [canon(v) for v in drained.value]
                            ok = got == want_vals
                        ctx.cell("entry_point_calls", "%s.%s %s" % (lname, ename, form))
                        if not ok:
                            ctx.violation("entry-points-disagree:%s.%s:%s" % (lname, ename, form), case, {"text": text, "got": repr(got)[:400], "expected_fold": repr(want if ename != "findall" else want_vals)[:400], "ops": ops})
                            failed = True
                            break
                    finally:
                        if closer is not None:
                            closer.close()
        if not failed and not use_ctx:
            ctx.remember("entry-points", lambda text=text, doc=doc: (repr([canon(v) for v in jsonpath.findall(text, doc)]), repr(recs(jsonpath.compile(text).finditer(doc)))), limit=150)
        if not failed and r.random() < 0.3:
            # one compiled operand, one document object, one context object: incomplete passes (match(), abandoned
            # iterators), in-place updates, then every listing entry point against the model for the document as it is
            from rt.jp_oracle import check_after_incomplete_passes

            q0 = r.choice(asts)
            t0 = Renderer(r, plain=True).top(q0)
            if " in " in t0 or " contains " in t0:
                # (membership between booleans and numbers - `1 in [true]` - is not settled by the documentation; the documents
                # here may hold both, so the model cannot judge these operands: left to C13, whose documents avoid the mix)
                ctx.count("in_place_helper_skipped_membership_operands")
            else:
                check_after_incomplete_passes(ctx, q0, t0, doc, fctx, "in-place", pool=list(gen.MEM_LEAVES) + [[], {}, ["a"], {"a": 2}])  # (no boolean/number look-alikes: extension operators may compare them)
        if not failed and not use_ctx and r.random() < 0.5:
            # lazy entry points of ONE compiled object left half-consumed while another evaluation runs:
            # finditer/query must still list what findall lists
            doc2 = gen.gen_doc(r, profile="unique", hostile=0.1, max_depth=3, fan=3)
            if isinstance(doc, dict) and isinstance(doc2, dict):
                for k in list(doc)[:3]:
                    doc2.setdefault(k, r.choice([2, "a", 1001, None]))
            w1 = impl.call(lambda: [canon(v) for v in jsonpath.findall(text, doc)])
            w2 = impl.call(lambda: [canon(v) for v in jsonpath.findall(text, doc2)])
            if w1.ok and w2.ok:
                it1, it2 = iter(p.finditer(doc)), iter(p.query(doc2).values())
                g1, g2 = [], []
                alive1 = alive2 = True
                steps = 0
                try:
                    while alive1 or alive2:
                        steps += 1
                        if alive1 and (r.random() < 0.5 or not alive2):
                            m = next(it1, None)
                            alive1 = m is not None
                            if m is not None:
                                g1.append(canon(m.obj))
                        elif alive2:
                            v = next(it2, impl)
                            alive2 = v is not impl
                            if v is not impl:
                                g2.append(canon(v))
                        if steps == 2:
                            p.match(doc2)
                            p.findall(doc2)
                except Exception as e:  # noqa: BLE001
                    ctx.violation("interleaved-lazy-entry-points-raised:%s" % type(e).__name__, dict(case, doc2=doc2), {"text": text})
                    continue
                ctx.count("interleaved_lazy_pairs")
                if g1 != w1.value or g2 != w2.value:
                    ctx.violation("interleaved-lazy-entry-points-disagree-with-findall", dict(case, doc2=doc2), {"text": text, "finditer(doc)": repr(g1)[:300], "findall(doc)": repr(w1.value)[:300], "query(doc2)": repr(g2)[:300], "findall(doc2)": repr(w2.value)[:300]})
                    continue
        if not failed and (len(ctx.samples) < 3 or r.random() < 0.003):
            ctx.sample({"text": text, "operands": nops, "ops": ops, "matches": len(want)})


def finalize(m, tier):
    inc = []
    ep = m["matrices"].get("entry_point_calls", {})
    for lname in ("module", "env", "compiled"):
        for e in ("findall", "finditer", "match", "query"):
            n = sum(v for k, v in ep.items() if k.startswith("%s.%s " % (lname, e)))
            if n < 500:
                inc.append("entry point %s.%s called only %d times" % (lname, e, n))
    for form in ("text", "stringio", "textfile", "binfile"):
        if not any(k.endswith(" " + form) for k in ep):
            inc.append("document form %s never used" % form)
    return {"inconclusive": inc}


def replay(case, ctx, tag="replay"):
    if case.get("kind") == "threads":
        run_threads(ctx, 25)
        return
    if case.get("twins") or case.get("other_numeric_types"):
        run_scale(ctx)
        return
    if case.get("in_place"):
        from rt.jp_oracle import check_after_incomplete_passes

        for _ in range(10):
            check_after_incomplete_passes(ctx, case["ast"], case["text"], case["doc"], case.get("extra"), case.get("class", "replay"), pool=list(gen.MEM_LEAVES) + [[], {}, ["a"], {"a": 2}])
        return
    import jsonpath

    text, doc, comp = case["text"], case["doc"], case["comp"]
    kw = {"filter_context": case["filter_context"]} if case.get("filter_context") else {}
    asts = [comp[0]] + [q for _, q in comp[1:]]
    ops = [op for op, _ in comp[1:]]
    import random

    operand = [[(tuple(m.parts), canon(m.obj), m.obj) for m in jsonpath.compile(Renderer(random.Random(0), plain=True).top(q)).finditer(doc, **kw)] for q in asts]
    want_full = fold_where_specified(operand, ops, lambda: [(tuple(m.parts), canon(m.obj), m.obj) for m in jsonpath.compile(text).finditer(doc, **kw)], ctx)
    want = [(p, c) for p, c, _ in want_full]
    ctx.evaluation()
    p = jsonpath.compile(text)
    for name, got in (("finditer", recs(p.finditer(doc, **kw))), ("module.finditer", recs(jsonpath.finditer(text, doc, **kw))), ("text", recs(p.finditer(json.dumps(doc), **kw))), ("stringio", impl.call(lambda: recs(p.finditer(io.StringIO(json.dumps(doc))))).value),
                      ("stringio.findall", impl.call(lambda: [(tuple(), canon(v)) for v in p.findall(io.StringIO(json.dumps(doc)))]).value and want)):
        if got != want:
            ctx.violation("entry-points-disagree:%s:%s" % (tag, name), case, {"got": repr(got)[:400], "want": repr(want)[:400]})
    fa = [canon(v) for v in p.findall(doc, **kw)]
    if fa != [c for _, c in want]:
        ctx.violation("entry-points-disagree:%s:findall" % tag, case, {"got": repr(fa)[:400]})
    m = p.match(doc, **kw)
    if (None if m is None else (tuple(m.parts), canon(m.obj))) != (want[0] if want else None):
        ctx.violation("entry-points-disagree:%s:match" % tag, case, {})
    qv = [canon(v) for v in p.query(doc, **kw).values()]
    if qv != [c for _, c in want]:
        ctx.violation("entry-points-disagree:%s:query" % tag, case, {"got": repr(qv)[:400]})
