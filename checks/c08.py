"""C08 - the async API returns exactly what the sync API returns.

Pure differential: the sync execution is the model.  Documents come in three flavours
(plain dict/list; Mapping/Sequence wrappers with __getitem_async__; the same wrappers
with injected faults raised identically by both getters).  Batches of evaluations are
gathered on one event loop with the async getter yielding a seeded number of times;
the order in which tasks' getter calls resume is the interleaving signature.
Monitor: T3 twin census - every *_async function of selectors.py / filter.py / path.py
and its sync twin must have been entered (list derived from the modules' AST).
"""
from __future__ import annotations

import ast as pyast
import asyncio
import os
from collections.abc import Mapping, Sequence

from rt import gen, hooks, impl
from rt.jsonval import canon, h

from .c10 import gen_case

ID = "C08"
LEVEL = "exploration"
RULE = (
    "generated standard, extended and compound queries x generated documents (strings and scalars reachable by wildcard, slice, "
    "descendant and filter) in three flavours (plain, async-getter wrappers, wrappers with injected KeyError/IndexError/"
    "JSONPathTypeError faults); each case evaluated through finditer/findall and finditer_async/findall_async, the async side in "
    "gathered batches of 8 with seeded yields in the getter. A case is (query text, document, flavour); non-trivial when the "
    "sync result is non-empty or an error; distinct by hash."
)
ASSUMPTIONS = ["asyncio event loop of CPython 3.12; wrappers return the same items from both getters"]
EXTRA = gen.CTX_DEFAULT


class Plan:
    def __init__(self, faults=None, yields=None, log=None):
        self.faults = faults or {}
        self.yields = yields
        self.log = log


def _fault(plan, key):
    f = plan.faults.get(repr(key))
    if f == "KeyError":
        raise KeyError(key)
    if f == "IndexError":
        raise IndexError(key)
    if f == "JSONPathTypeError":
        from jsonpath import JSONPathTypeError

        raise JSONPathTypeError("injected fault for %r" % (key,))


class AMap(Mapping):
    def __init__(self, d, plan):
        self._d = {k: wrap(v, plan) for k, v in d.items()}
        self._plan = plan

    def __getitem__(self, k):
        _fault(self._plan, k)
        return self._d[k]

    async def __getitem_async__(self, k):
        await _yield(self._plan)
        _fault(self._plan, k)
        return self._d[k]

    def __iter__(self):
        return iter(self._d)

    def __len__(self):
        return len(self._d)


class ASeq(Sequence):
    def __init__(self, items, plan):
        self._l = [wrap(v, plan) for v in items]
        self._plan = plan

    def __getitem__(self, i):
        if not isinstance(i, slice):
            _fault(self._plan, i)
        return self._l[i]

    async def __getitem_async__(self, i):
        await _yield(self._plan)
        if not isinstance(i, slice):
            _fault(self._plan, i)
        return self._l[i]

    def __len__(self):
        return len(self._l)


async def _yield(plan):
    if plan.yields is not None:
        # uneven latencies: random, or (every other plan) shrinking call by call so that later requests finish first
        plan.calls = getattr(plan, "calls", 0) + 1
        n = plan.yields.randint(0, 2) if not getattr(plan, "shrinking", False) else max(0, 6 - plan.calls % 8)
        for _ in range(n):
            await asyncio.sleep(0)
        if plan.log is not None:
            t = asyncio.current_task()
            plan.log.append(getattr(t, "_verif_id", -1))


class MissingDict(dict):
    """A dict subclass with __missing__ (like collections.Counter / defaultdict without insertion)."""

    def __missing__(self, key):
        return "DEFAULT"


def missing_doc(v):
    if isinstance(v, dict):
        return MissingDict({k: missing_doc(x) for k, x in v.items()})
    if isinstance(v, list):
        return [missing_doc(x) for x in v]
    return v


def wrap(v, plan):
    if isinstance(v, dict):
        return AMap(v, plan)
    if isinstance(v, list):
        return ASeq(v, plan)
    return v


def unwrap(v):
    if isinstance(v, AMap):
        return {k: unwrap(x) for k, x in v._d.items()}
    if isinstance(v, ASeq):
        return [unwrap(x) for x in v._l]
    if isinstance(v, (list, tuple)):
        return [unwrap(x) for x in v]
    if isinstance(v, dict):
        return {k: unwrap(x) for k, x in v.items()}
    return v


def rec(matches):
    return [(tuple(m.parts), m.path, canon(unwrap(m.obj))) for m in matches]


def run_reconfigured_while_alive(ctx):
    """ONE environment whose configuration is changed (integer limits narrowed and widened, type checks switched) while
    results of earlier async calls with the same query text are still alive: after every change the sync and the async
    entry points give the same outcome for that text - the same values or a refusal of the same class."""
    import asyncio

    import jsonpath

    doc = {"a": [1, {"b": 2}, "xy"], "b": list(range(10))}

    def outcome(fn):
        o = impl.call(fn)
        return ("ok", canon(o.value)) if o.ok else ("raised", type(o.exc).__name__)
    steps = [("limits narrowed", lambda e: (setattr(e, "max_int_index", 5), setattr(e, "min_int_index", -5))), ("limits widened", lambda e: (setattr(e, "max_int_index", 2 ** 53 - 1), setattr(e, "min_int_index", -(2 ** 53) + 1))),
             ("type checks off", lambda e: setattr(e, "well_typed", False)), ("type checks on", lambda e: setattr(e, "well_typed", True))]
    for text in ("$.b[7]", "$.b[-6:]", "$[?count(@..*)]", "$[?@.* == 1]", "$.a[?length(@.b) == 1]"):
        env = jsonpath.JSONPathEnvironment()
        alive = []

        async def both():
            for label, change in [("as built", lambda e: None)] + steps + steps:
                change(env)
                sync = outcome(lambda: env.findall(text, doc))
                try:
                    got = ("ok", canon(await env.findall_async(text, doc)))
                except Exception as e:  # noqa: BLE001
                    got = ("raised", type(e).__name__)
                try:
                    it = await env.finditer_async(text, doc)
                    alive.append(it)   # (never advanced to the end: it stays alive across the next changes)
                    got_it = ("ok", canon([m.obj async for m in await env.finditer_async(text, doc)]))
                except Exception as e:  # noqa: BLE001
                    got_it = ("raised", type(e).__name__)
                ctx.evaluation(2)
                ctx.count("sync_async_pairs_after_a_configuration_change")
                if got != sync or got_it != sync:
                    return {"text": text, "after": label, "sync": repr(sync)[:200], "findall_async": repr(got)[:200], "finditer_async": repr(got_it)[:200]}
            return None
        bad = asyncio.run(both())
        ctx.case(h("reconfigured-while-alive", text), True)
        if bad:
            ctx.violation("async-differs-from-sync-after-the-environment-was-reconfigured", {"kind": "recursion-limit", "limit": None}, bad)
            return


def run_recursion_limit(ctx, limit):
    """Documents (Python objects) nested from a quarter of the interpreter's recursion limit to three times it. Both
    calls are made from the same coroutine, i.e. with the same stack below them. Far inside the limit both must
    answer, and the same; far beyond it the synchronous call refuses with RecursionError and the asynchronous one must
    then refuse too, with the same kind of error (the statement: an error exactly when the synchronous call raises one, of
    the same kind). The band around the limit itself, where a frame more or less decides, is not judged."""
    import asyncio
    import sys

    import jsonpath
    from rt import deep

    old = sys.getrecursionlimit()
    if limit:
        sys.setrecursionlimit(limit)
    lim = sys.getrecursionlimit()
    try:
        for shape in ("objects", "mixed", "arrays"):
            for depth, zone in ((lim // 5, "inside"), (lim // 4, "inside"), (2 * lim, "beyond"), (3 * lim, "beyond")):
                doc, _levels = deep.chain(depth, shape)
                for text in ("$..id", "$..[?@.id == %d]" % depth, "$..x[0]" if shape != "arrays" else "$..[2]", "$.a..id | $.id" if shape == "objects" else "$..id | $[1]"):
                    async def both():
                        try:
                            s = ("ok", [(m.path if len(m.path) < 200 else len(m.parts), m.obj if not isinstance(m.obj, (dict, list)) else type(m.obj).__name__) for m in jsonpath.finditer(text, doc)])
                        except RecursionError:
                            s = ("RecursionError",)
                        except Exception as e:  # noqa: BLE001
                            s = ("error", type(e).__name__)
                        try:
                            a = ("ok", [(m.path if len(m.path) < 200 else len(m.parts), m.obj if not isinstance(m.obj, (dict, list)) else type(m.obj).__name__) async for m in await jsonpath.finditer_async(text, doc)])
                        except RecursionError:
                            a = ("RecursionError",)
                        except Exception as e:  # noqa: BLE001
                            a = ("error", type(e).__name__)
                        try:
                            a2 = ("ok", len(await jsonpath.findall_async(text, doc)))
                        except RecursionError:
                            a2 = ("RecursionError",)
                        except Exception as e:  # noqa: BLE001
                            a2 = ("error", type(e).__name__)
                        return s, a, a2
                    s, a, a2 = asyncio.run(both())
                    ctx.evaluation()
                    ctx.case(h("recursion-limit", limit, shape, depth, text), True)
                    ctx.cell("recursion_limit", "%s the limit: sync %s, async %s" % (zone, s[0], a[0]))
                    case = {"kind": "recursion-limit", "limit": limit}
                    detail = {"text": text, "shape": shape, "depth": depth, "recursion_limit": lim, "sync": repr(s)[:160], "finditer_async": repr(a)[:160], "findall_async": repr(a2)[:80]}
                    if zone == "inside" and s[0] != "ok":
                        ctx.notes.append("sync refused a document nested %d deep under limit %d" % (depth, lim))
                        continue
                    if s[0] == "ok" and (a != s or a2 != ("ok", len(s[1]))):
                        ctx.violation("async-differs-from-sync-on-a-deeply-nested-document", case, detail)
                        return
                    if s[0] != "ok" and (a[0] != s[0] or a2[0] != s[0] or (s[0] == "error" and (a[1] != s[1] or a2[1] != s[1]))):
                        ctx.violation("async-%s-where-sync-raises-%s" % ("answers" if "ok" in (a[0], a2[0]) else "raises-another-kind-of-error", s[0] if s[0] != "error" else s[1]), case, detail)
                        return
    finally:
        sys.setrecursionlimit(old)


def plan(tier, seed):
    n = 14 if tier == "quick" else 46
    return [{"kind": "recursion-limit", "limit": None}, {"kind": "recursion-limit", "limit": 400}, {"kind": "streams", "n": 250 if tier == "quick" else 2500}, {"kind": "scale", "lengths": [255, 257, 1025, 4097, 16383, 16384]}, {"kind": "scale", "lengths": [16385, 20000, 32769]}, {"kind": "scale", "lengths": [65535, 65537] if tier == "quick" else [65535, 65537, 131073]}, {"kind": "shared", "n": 150 if tier == "quick" else 800}, {"kind": "shared", "n": 150 if tier == "quick" else 800}] + [{"kind": ["std", "ext", "ext"][i % 3], "n": 600 if tier == "quick" else 3000} for i in range(n)]


def install():
    hooks.install_h1()
    hooks.install_h5()


def sync_outcome(env, text, doc):
    a = impl.call(lambda: rec(env.finditer(text, doc, filter_context=EXTRA)))
    b = impl.call(lambda: [canon(unwrap(x)) for x in env.findall(text, doc, filter_context=EXTRA)])
    return (("ok", a.value) if a.ok else ("raise", type(a.exc).__name__)), (("ok", b.value) if b.ok else ("raise", type(b.exc).__name__))


async def async_outcome(env, text, doc):
    try:
        it = await env.finditer_async(text, doc, filter_context=EXTRA)
        a = ("ok", rec([m async for m in it]))
    except Exception as e:  # noqa: BLE001
        a = ("raise", type(e).__name__)
    try:
        b = ("ok", [canon(unwrap(x)) for x in await env.findall_async(text, doc, filter_context=EXTRA)])
    except Exception as e:  # noqa: BLE001
        b = ("raise", type(e).__name__)
    return a, b


def make_flavour(r, doc, flavour, yields_rng, log):
    if flavour == "plain":
        return doc
    if flavour == "missing-dict":
        return missing_doc(doc)
    faults = {}
    if flavour == "faulty":
        keys = []
        stack = [doc]
        while stack:
            v = stack.pop()
            if isinstance(v, dict):
                keys += list(v)
                stack += list(v.values())
            elif isinstance(v, list):
                keys += list(range(len(v)))
                stack += v
        keys = list({repr(k): k for k in keys}.values())
        for k in r.sample(keys, min(len(keys), r.randint(1, 3))):
            faults[repr(k)] = r.choice(["KeyError", "IndexError", "JSONPathTypeError"])
    return wrap(doc, Plan(faults, yields_rng, log))


def run_shared(ctx, text, hist, case=None):
    """One compiled query, several documents: evaluated one after another through the sync API,
    then all at once through the async API on one loop with yields inside the item getters."""
    import random

    import jsonpath

    c = impl.call(jsonpath.compile, text)
    if not c.ok:
        return
    p = c.value
    ctx.evaluation()
    case = case or {"kind": "shared", "text": text, "hist": hist}
    sync = []
    for doc, ex in hist:
        d = wrap(doc, Plan({}, None, None))
        kw = {"filter_context": ex} if ex is not None else {}
        o = impl.call(lambda: rec(p.finditer(d, **kw)))
        sync.append(("ok", o.value) if o.ok else ("raise", type(o.exc).__name__))
    log = []
    yr = random.Random(ctx.rng.random())

    async def one(doc, ex, i):
        asyncio.current_task()._verif_id = i
        d = wrap(doc, Plan({}, yr, log))
        kw = {"filter_context": ex} if ex is not None else {}
        try:
            return ("ok", rec([m async for m in await p.finditer_async(d, **kw)]))
        except Exception as e:  # noqa: BLE001
            return ("raise", type(e).__name__)

    async def gathered():
        return await asyncio.gather(*[one(doc, ex, i) for i, (doc, ex) in enumerate(hist)])

    outs = asyncio.run(gathered())
    ctx.case(h("shared", text, canon(hist)), any(s[0] == "ok" and s[1] for s in sync))
    ctx.count("shared_compiled_concurrent_evaluations", len(hist))
    ctx.count("getter_resumes_logged", len(log))
    switches = sum(1 for a, b in zip(log, log[1:]) if a != b)
    ctx.count("shared_task_switches_between_getter_calls", switches)
    for i, (s, a) in enumerate(zip(sync, outs)):
        if s != a:
            ctx.violation("concurrent-async-evaluations-of-one-compiled-query-differ-from-sync", case, {"text": text, "doc_index": i, "sync": repr(s)[:400], "async": repr(a)[:400]})
            return


def scale_doc(n):
    return {"a": [[i] for i in range(n)], "o": {"k%d" % i: i for i in range(n)}}


def scale_texts(n):
    return ["$.a[*]", "$.a[*][0]", "$.a[?# >= %d && # < %d]" % (n - 6, n), "$.a[?@[0] >= %d]" % (n - 3), "$.a[-3:]", "$.a[::%d]" % -(n // 4), "$.o.*", "$.o[?# == 'k%d']" % (n - 1),
            "$.a[?@[0] == $.a[-1][0]]", "$..[?@[0] == %d]" % (n - 1), "$.o[~]", "$.a[%d, -1, %d]" % (n - 1, n), "$.a[?# > %d][0]" % (n - 3), "$..a[*]", "$.o[?@ >= %d]" % (n - 2)]


def run_scale(ctx, n, text, doc=None):
    """Sync against async on arrays and objects of length n (sizes around round thresholds)."""
    import jsonpath

    env = jsonpath.DEFAULT_ENV
    doc = doc or scale_doc(n)
    s = sync_outcome(env, text, doc)
    a = asyncio.run(async_outcome(env, text, doc))
    ctx.evaluation()
    ctx.case(h("scale", n, text), s[0][0] == "raise" or bool(s[0][1]))
    ctx.cell("flavour_x_outcome", "scale %s" % (s[0][0] if s[0][0] == "ok" else s[0][1]))
    if a != s:
        i = next((i for i, (x, y) in enumerate(zip(a[0][1], s[0][1])) if x != y), None) if a[0][0] == s[0][0] == "ok" else None
        ctx.violation("async-differs:scale", {"kind": "scale", "n": n, "text": text},
                      {"text": text, "length": n, "first_difference_at_match": i, "sync": repr(s[0][1][i] if i is not None else s[0][:1])[:300], "async": repr(a[0][1][i] if i is not None else a[0][:1])[:300],
                       "findall_equal": a[1] == s[1]})


STREAM_FORMS = ["text", "StringIO", "BytesIO utf-8", "BytesIO utf-8-sig", "BytesIO utf-16", "BytesIO utf-16-le", "BytesIO utf-16-be", "BytesIO utf-32", "BytesIO utf-32-be"]


def stream_of(doc, form, raw):
    """The document as JSON text / a text stream / a byte stream in a Unicode encoding (non-ASCII characters written
    raw when `raw`; lone surrogates survive through surrogatepass, which is also how json reads bytes)."""
    import io
    import json

    text = json.dumps(doc, ensure_ascii=not raw)
    if form == "text":
        return text
    if form == "StringIO":
        return io.StringIO(text)
    return io.BytesIO(text.encode(form.split(" ", 1)[1], "surrogatepass"))


def big_texts():
    import json

    yield "array text of about 1.2 MiB", json.dumps([{"i": i, "s": "x" * 50} for i in range(17000)])
    yield "plain text without brackets, 1.1 MiB", "lorem ipsum " * 96000
    yield "plain text without brackets, 3 MiB", "a" * (3 << 20)
    yield "JSON text of one string of 1.5 MiB", json.dumps("s" * (3 << 19))
    yield "JSON text of one string just over 1 MiB", json.dumps("s" * ((1 << 20) + 5))
    yield "JSON text of one string just under 1 MiB", json.dumps("s" * ((1 << 20) - 5))
    yield "number text", "12"
    yield "object text of about 2 MiB", json.dumps({"k%d" % i: [i, "v" * 100] for i in range(16000)})


def run_big_texts(ctx):
    """Documents supplied as very long text (sizes on either side of 1 MiB): sync against async."""
    import jsonpath

    env = jsonpath.DEFAULT_ENV
    for label, text_doc in big_texts():
        for q in ("$", "$[0]", "$ | $", "$..*[0]" if text_doc[:1] in "[{" and len(text_doc) < (3 << 19) else "$.a", "$[?@.i == 3].s", "$ & $", "^[0]"):
            s = impl.call(lambda: sync_outcome(env, q, text_doc))
            a = impl.call(lambda: asyncio.run(async_outcome(env, q, text_doc)))
            ctx.evaluation()
            ctx.cell("document_forms", "text: " + label)
            if s.ok and a.ok and a.value != s.value:
                ctx.violation("async-differs-from-sync-on-a-long-text-document", {"kind": "big-text", "label": label, "text": q}, {"query": q, "document": label, "sync": repr(s.value[0])[:200], "async": repr(a.value[0])[:200]})
                return


def run_streams(ctx, n, fixed=None):
    import jsonpath

    env = jsonpath.DEFAULT_ENV
    r = ctx.rng
    if not fixed:
        run_big_texts(ctx)
    for i in range(n):
        if fixed:
            text, doc = fixed
        else:
            text, docs = gen_case(r, r.choice(["std", "ext"]))
            doc = docs[0]
            if r.random() < 0.5:
                doc = [doc, {"é": "ü\U0001f600", "lone": "\ud800x", "k": ["\udfff", "日本"]}]
        if not isinstance(doc, (dict, list)) or not impl.call(env.compile, text).ok:
            continue
        want = sync_outcome(env, text, doc)
        for form in STREAM_FORMS:
            for raw in (False, True):
                s = impl.call(lambda: sync_outcome(env, text, stream_of(doc, form, raw)))
                a = impl.call(lambda: asyncio.run(async_outcome(env, text, stream_of(doc, form, raw))))
                ctx.evaluation()
                ctx.cell("document_forms", "%s%s" % (form, " raw" if raw else ""))
                case = {"kind": "streams", "text": text, "doc": doc}
                if not s.ok or not a.ok:
                    continue   # the document could not be put in this form (un-encodable); nothing was compared
                if a.value != s.value:
                    ctx.violation("async-differs-from-sync-on-a-stream-document", case, {"text": text, "form": form, "raw_non_ascii": raw, "sync": repr(s.value[0])[:300], "async": repr(a.value[0])[:300]})
                    return
        ctx.case(h("streams", text, canon(doc)), want[0][0] == "raise" or bool(want[0][1]))
        if fixed:
            return


def run(spec, ctx):
    import random

    import jsonpath

    install()
    r = ctx.rng
    env = jsonpath.DEFAULT_ENV
    if spec.get("kind") == "recursion-limit":
        run_recursion_limit(ctx, spec["limit"])
        run_reconfigured_while_alive(ctx)
        return
    if spec.get("kind") == "streams":
        run_streams(ctx, spec["n"])
        return
    if spec.get("kind") == "scale":
        for n in spec["lengths"]:
            doc = scale_doc(n)
            for text in scale_texts(n):
                run_scale(ctx, n, text, doc)
            ctx.cell("scale", "length=%d" % n)
        return
    if spec.get("kind") == "shared":
        from .c09 import gen_case as gen_hist_case

        for _ in range(spec["n"]):
            text, hist = gen_hist_case(r)
            run_shared(ctx, text, hist)
        for k, v in hooks.STATE.sel_matrix.items():
            ctx.cell("H1_selector_x_kind", "|".join(k), v)
        return
    cases = []
    for i in range(spec["n"]):
        text, docs = gen_case(r, spec["kind"])
        if r.random() < 0.3:
            docs = [gen.gen_doc(r, profile="mixed", hostile=0.3, max_depth=4)]
        if impl.call(env.compile, text).ok is False:
            ctx.count("generated_query_rejected")
            continue
        for flavour in ("plain", "async-getter", "faulty"):
            cases.append((text, docs[0], flavour))
        if i % 4 == 0:
            cases.append((text, docs[0], "missing-dict"))
    signatures = set()
    for b in range(0, len(cases), 8):
        batch = cases[b:b + 8]
        log = []
        yr = random.Random(r.random())
        prepared = []
        for text, doc, flavour in batch:
            d = make_flavour(r, doc, flavour, None, None)       # sync side: no yields
            s = sync_outcome(env, text, d)
            prepared.append((text, doc, flavour, d, s))

        async def gathered():
            tasks = []
            for i, (text, doc, flavour, d, _s) in enumerate(prepared):
                dd = d
                if flavour not in ("plain", "missing-dict"):
                    dd = wrap(doc, Plan(d._plan.faults, yr, log))
                t = asyncio.ensure_future(async_outcome(env, text, dd))
                t._verif_id = i
                tasks.append(t)
            return await asyncio.gather(*tasks)

        outs = asyncio.run(gathered())
        signatures.add(tuple(log))
        ctx.count("getter_resumes_logged", len(log))
        for (text, doc, flavour, _d, s), a in zip(prepared, outs):
            ctx.evaluation()
            nontrivial = s[0][0] == "raise" or bool(s[0][1])
            ctx.case(h(text, canon(doc), flavour), nontrivial)
            ctx.cell("flavour_x_outcome", "%s %s" % (flavour, s[0][0] if s[0][0] == "ok" else s[0][1]))
            case = {"text": text, "doc": doc, "flavour": flavour, "faults": getattr(getattr(_d, "_plan", None), "faults", {})}
            if a[0] != s[0]:
                what = "outcome-kind" if a[0][0] != s[0][0] else ("error-kind" if s[0][0] == "raise" else "matches")
                ctx.violation("finditer_async-differs:%s:%s" % (what, flavour), case, {"text": text, "sync": repr(s[0])[:500], "async": repr(a[0])[:500]})
            elif a[1] != s[1]:
                ctx.violation("findall_async-differs:%s" % flavour, case, {"text": text, "sync": repr(s[1])[:500], "async": repr(a[1])[:500]})
            if flavour == "plain" and a[0] == s[0]:
                ctx.remember("sync-vs-async", lambda text=text, doc=doc: (repr(sync_outcome(env, text, doc)), repr(asyncio.run(async_outcome(env, text, doc)))))
            if len(ctx.samples) < 3 or r.random() < 0.002:
                ctx.sample({"text": text, "flavour": flavour, "sync==async": s[0][0], "matches": len(s[0][1]) if s[0][0] == "ok" else s[0][1]})
    ctx.count("interleaving_signatures_distinct", len({s for s in signatures if s}))
    ctx.count("batches", (len(cases) + 7) // 8)
    for k, v in hooks.STATE.sel_matrix.items():
        ctx.cell("H1_selector_x_kind", "|".join(k), v)
    for k, v in hooks.STATE.node_census.items():
        ctx.cell("H5_filter_nodes", "|".join(k), v)


def twins(repo):
    """(file, qualname of async def, qualname of its sync twin) from the modules' AST."""
    out = []
    for fn in ("selectors.py", "filter.py", "path.py"):
        with open(os.path.join(repo, "jsonpath", fn)) as f:
            tree = pyast.parse(f.read())
        for node in pyast.walk(tree):
            if isinstance(node, pyast.ClassDef):
                for sub in node.body:
                    if isinstance(sub, pyast.AsyncFunctionDef) and sub.name.endswith("_async"):
                        sync = sub.name[: -len("_async")]
                        has_sync = any(isinstance(x, pyast.FunctionDef) and x.name == sync for x in node.body)
                        abstract = any(isinstance(d, pyast.Name) and d.id == "abstractmethod" for d in sub.decorator_list)
                        if not abstract:
                            out.append((fn, "%s.%s" % (node.name, sub.name), "%s.%s" % (node.name, sync) if has_sync else None))
    return out


def finalize(m, tier):
    from rt.harness import REPO

    inc = []
    calls = m["calls"]
    missing = []
    tw = twins(REPO)
    for fn, a, s in tw:
        if not calls.get("%s:%s" % (fn, a)):
            missing.append(a)
        if s and not calls.get("%s:%s" % (fn, s)):
            missing.append(s)
    if missing:
        inc.append("T3 twin census: never entered: %s" % missing[:8])
    if m["counters"].get("interleaving_signatures_distinct", 0) < 20:
        inc.append("too few distinct task interleavings observed")
    fo = m["matrices"].get("flavour_x_outcome", {})
    if not any(k.startswith("faulty") and not k.endswith(" ok") for k in fo):
        inc.append("no injected fault ever surfaced as an error")
    return {"inconclusive": inc, "coverage": {"async_twins_required": len(tw), "async_twins_missing": missing,
                                              "interleavings_distinct": m["counters"].get("interleaving_signatures_distinct", 0)}}


def replay(case, ctx):
    import random

    import jsonpath

    install()
    if case.get("kind") == "recursion-limit":
        run_recursion_limit(ctx, case.get("limit"))
        run_reconfigured_while_alive(ctx)
        return
    if case.get("kind") == "shared":
        run_shared(ctx, case["text"], case["hist"], case)
        return
    if case.get("kind") == "scale":
        run_scale(ctx, case["n"], case["text"])
        return
    if case.get("kind") == "big-text":
        run_big_texts(ctx)
        return
    if case.get("kind") == "streams":
        run_streams(ctx, 1, fixed=(case["text"], case["doc"]))
        return
    env = jsonpath.DEFAULT_ENV
    doc = case["doc"]
    if case["flavour"] == "missing-dict":
        d1 = d2 = missing_doc(doc)
    elif case["flavour"] == "plain":
        d1 = d2 = doc
    else:
        d1 = wrap(doc, Plan(case.get("faults", {}), None, None))
        d2 = wrap(doc, Plan(case.get("faults", {}), random.Random(0), []))
    s = sync_outcome(env, case["text"], d1)
    a = asyncio.run(async_outcome(env, case["text"], d2))
    ctx.evaluation()
    if a != s:
        ctx.violation("async-differs:replay", case, {"sync": repr(s)[:600], "async": repr(a)[:600]})
