"""C19 - projection returns exactly the selected values, nothing more, in place.

Oracle (ref_project, below): selections come from rt.ref_jsonpath; the expected relative /
root structure is built by rank-compacting the selected indices of every array; flat is the
list of selected values in selection order.  The "ascending" precondition is enforced by
filtering on the model's selection sequence; for overlapping selections only the clauses
that stay meaningful are checked (document unmodified, flat list).
"""
from __future__ import annotations

from rt import gen, impl, ref_jsonpath as ref
from rt.jsonval import Snapshot, canon, h, walk
from rt.render import Renderer

ID = "C19"
LEVEL = "exploration"
RULE = (
    "documents x match queries x 1-4 relative queries (names, indices, slices, wildcards, descendant, nested) x the three projection "
    "styles; directed classes: sparse arrays, falsy selected values, integer-looking member names, scalar matches, empty selections, "
    "overlapping selections. A case is (document, match query, relative queries, style); non-trivial when at least one match has a "
    "non-empty selection; distinct by hash."
)
ASSUMPTIONS = [
    "structural clauses are checked only when every array's selected indices first occur in ascending order and no selected node is an ancestor of another (the statement's precondition); all cases check that the document is unmodified",
    "selections are computed by rt/ref_jsonpath.py",
]


def plan(tier, seed):
    n = 14 if tier == "quick" else 46
    return [{"n": 1200 if tier == "quick" else 15000} for _ in range(n)]


class _B(dict):
    """A branch the projection creates (as opposed to a selected value)."""


def expected(doc, base_parts, sels, style):
    """sels: [(relparts, value)] in selection order.  Selections are written in order: a
    selected node replaces whatever is at its location; a node below an already selected
    ancestor is already present inside that ancestor's value."""
    if style == "FLAT":
        return [v for _, v in sels]
    tree = _B()
    for rel, v in sels:
        parts = (tuple(base_parts) + tuple(rel)) if style == "ROOT" else tuple(rel)
        cur = tree
        inside_value = False
        for p in parts[:-1]:
            if p not in cur:
                cur[p] = _B()
            cur = cur[p]
            if not isinstance(cur, _B):
                inside_value = True
                break
        if not inside_value:
            cur[parts[-1]] = ("value", v)
    origin = doc if style == "ROOT" else walk(doc, base_parts)

    def build(node, here):
        keys = list(node)
        if isinstance(here, list):
            keys = sorted(keys)
            return [item(node[k], here[k]) for k in keys]
        return {k: item(node[k], here[k]) for k in keys}

    def item(n, here):
        if isinstance(n, _B):
            return build(n, here)
        return n[1]
    return build(tree, origin)


def interleaved_selects(ctx, r):
    """ONE Query asked for two (three) projections with different relative queries before any is consumed, the result
    iterators then advanced in turn: each pull takes the next matches from the shared source and must project them
    with the relative queries of ITS OWN select() call.  Reference per match: a fresh single-match Query (the route the
    rest of this check validates against the model)."""
    import jsonpath

    n = r.randint(2, 7)
    doc = {"records": [{"id": i, "kind": r.choice(["a", "b"]), "payload": {"x": [i, i + 1, i + 2], "y": {"z": i}}, "tags": ["t%d" % i]} if r.random() < 0.85 else i for i in range(n)]}
    lists = [["id", "kind"], ["payload.x[1:]", "payload.y"], ["tags[0]", "payload.y.z", "nothing"], ["kind"]]
    for style in ("RELATIVE", "ROOT", "FLAT"):
        proj = getattr(jsonpath.Projection, style)
        k = r.choice([2, 2, 3])
        chosen = r.sample(lists[:3], k)
        ctx.evaluation()
        q = jsonpath.query("$.records.*", doc)
        its = [iter(q.select(*L, projection=proj)) for L in chosen]
        src = list(jsonpath.finditer("$.records.*", doc))
        pos = 0
        order = [i % k for i in range(n + 2)] if r.random() < 0.5 else [r.randrange(k) for _ in range(n + 2)]
        for step, i in enumerate(order):
            got = impl.call(lambda: next(its[i], None))
            # what the pull must give: skip matches whose projection under chosen[i] is empty
            want = None
            while pos < len(src):
                one = list(jsonpath.Query([src[pos]], jsonpath.DEFAULT_ENV).select(*chosen[i], projection=proj))
                pos += 1
                if one:
                    want = one[0]
                    break
            ctx.count("interleaved_select_pulls")
            if not got.ok or canon(got.value) != canon(want):
                ctx.violation("projection-uses-another-select-call's-relative-queries", {"interleaved_selects": True}, {"style": style, "relative_query_lists": chosen, "pull": step, "iterator": i, "got": got.desc() if not got.ok else canon(got.value)[:300], "expected": canon(want)[:300]})
                return False
    return True


def classify(sels):
    """ascending?, overlapping?"""
    locs = [tuple(rel) for rel, _ in sels]
    overlapping = any(a != b and len(a) < len(b) and b[: len(a)] == a for a in locs for b in locs)
    order = {}
    asc = True
    for loc in locs:
        for i, p in enumerate(loc):
            if isinstance(p, int):
                seen = order.setdefault(loc[:i], [])
                if p not in seen:
                    if seen and p < seen[-1]:
                        asc = False
                    seen.append(p)
    return asc, overlapping


def check_case(ctx, doc, mq_ast, mq_text, rel_asts, rel_texts, style, cls):
    import jsonpath

    ctx.evaluation()
    case = {"doc": impl.fresh(doc), "mq_ast": mq_ast, "mq_text": mq_text, "rel_asts": rel_asts, "rel_texts": rel_texts, "style": style, "class": cls}
    snap = Snapshot(doc)
    proj = getattr(jsonpath.Projection, style)
    ms = impl.call(lambda: list(jsonpath.finditer(mq_text, doc)))
    if not ms.ok:
        ctx.count("match_query_raised")
        return
    nontrivial = False
    for m in ms.value[:12]:
        base = tuple(m.parts)
        sub = walk(doc, base)
        sels = []
        for ra in rel_asts:
            sels.extend(ref.eval_query(ra, sub))
        is_container = isinstance(sub, (list, dict))
        got = impl.call(lambda: list(jsonpath.Query([m], jsonpath.DEFAULT_ENV).select(*rel_texts, projection=proj)))
        ch = snap.changed()
        if ch:
            ctx.violation("document-modified-by-projection", case, {"changes": ch, "rel": rel_texts, "style": style})
            return
        asc, overlapping = classify(sels)
        if not is_container or not sels:
            ctx.cell("style_x_class", "%s %s" % (style, "scalar-match" if not is_container else "empty-selection"))
            if got.ok and got.value:
                ctx.violation("projection-produced-for-%s" % ("scalar-match" if not is_container else "empty-selection"), case, {"got": canon(got.value)[:200], "style": style})
                return
            if not got.ok:
                ctx.violation("projection-raised:%s" % type(got.exc).__name__, case, {"error": got.desc(), "style": style})
                return
            continue
        nontrivial = True
        if not got.ok:
            if overlapping and style != "FLAT" and False:
                continue
            ctx.violation("projection-raised:%s" % type(got.exc).__name__, case, {"error": got.desc(), "style": style, "rel": rel_texts, "overlapping": overlapping})
            return
        if overlapping:
            ctx.cell("style_x_class", "%s overlapping" % style)
        if not asc and style != "FLAT":
            ctx.cell("style_x_class", "%s out-of-order(skipped)" % style)
            ctx.count("skipped_not_ascending")
            continue
        want = expected(doc, base, sels, style)
        ctx.cell("style_x_class", "%s %s" % (style, cls))
        if len(got.value) != 1 or canon(got.value[0]) != canon(want):
            ctx.violation("projection-differs:%s" % style, case, {"style": style, "match": list(base), "rel": rel_texts, "got": canon(got.value)[:400], "expected": canon([want])[:400]})
            return
        ctx.count("projections_compared")
        ctx.remember("projection", lambda m_parts=base, rt=list(rel_texts), st=style, d=doc, mq=mq_text: repr([canon(x) for mm in jsonpath.finditer(mq, d) if tuple(mm.parts) == m_parts for x in jsonpath.Query([mm], jsonpath.DEFAULT_ENV).select(*rt, projection=getattr(jsonpath.Projection, st))]), limit=150)
        if len(ctx.samples) < 4 or ctx.rng.random() < 0.002:
            ctx.sample({"match_query": mq_text, "relative": rel_texts, "style": style, "projection": canon(want)[:160]})
    ctx.case(h(canon(doc), mq_text, rel_texts, style), nontrivial)


def multi_env_history(ctx):
    """The same relative-query text projected by differently configured environments in one
    process, in both orders: each environment's projection must follow its own reading of the
    text (expected structure built from that environment's own finditer)."""
    import jsonpath

    class Tok(jsonpath.JSONPathEnvironment):
        root_token = "%"

    doc = {"a": ["decoded", 20, 30], "\\u0061": ["literal", 20, 30], "b": {"a": 1, "\\u0061": 2, "c": [1, 2, 3]}, "$": {"x": 5}, "%": {"x": 6}}
    texts = ["$['\\u0061']", "$.b['\\u0061', 'c']", "$..['\\u0061'][0]", "$.b.c[0, 2]", "%['$'].x", "$['%'].x"]
    class Resolving(jsonpath.JSONPathEnvironment):
        """Documented hook: getitem() overridden (member names matched case-insensitively)."""

        def getitem(self, obj, key):
            if isinstance(obj, dict) and isinstance(key, str) and key not in obj:
                for k in obj:
                    if isinstance(k, str) and k.lower() == key.lower():
                        return obj[k]
            return super().getitem(obj, key)

    hook_doc = {"Title": "T", "maker": {"Name": "N", "id": 1}, "b": {"A": 1, "c": [1, 2, 3]}}
    hook_texts = ["$.title", "title", "$.maker.name", "$['title', 'maker']", "$.b.a", "$.b.c[0, 2]"]
    henv = Resolving()
    for text in hook_texts:
        for style in ("RELATIVE", "ROOT", "FLAT"):
            ctx.evaluation()
            m = next(iter(henv.finditer("$", hook_doc)))
            sels = [(tuple(x.parts), x.obj) for x in henv.finditer(text, hook_doc)]
            got = impl.call(lambda: list(jsonpath.Query([m], henv).select(text, projection=getattr(jsonpath.Projection, style))))
            ctx.count("hooked_environment_projections")
            if not sels:
                ok = got.ok and not got.value
            else:
                try:
                    want = expected_by_parts(sels, style)
                except Exception:  # noqa: BLE001
                    continue
                ok = got.ok and len(got.value) == 1 and canon(got.value[0]) == canon(want)
            if not ok:
                ctx.violation("projection-differs-from-the-environment's-own-selection:hooked-getitem", {"multi_env": True}, {"text": text, "style": style, "got": got.desc() if not got.ok else canon(got.value)[:300], "selected": repr(sels)[:300]})
                return
    envs = [("default", jsonpath.JSONPathEnvironment()), ("no-unicode-escape", jsonpath.JSONPathEnvironment(unicode_escape=False)), ("renamed-root", Tok()), ("default-again", jsonpath.JSONPathEnvironment())]
    for order in (envs, list(reversed(envs)), envs):
        for name, env in order:
            for text in texts:
                if impl.call(env.compile, text).ok is False:
                    continue
                for style in ("RELATIVE", "ROOT", "FLAT"):
                    ctx.evaluation()
                    snap = Snapshot(doc)
                    m = next(iter(env.finditer(env.root_token, doc)))
                    sels = [(tuple(x.parts), x.obj) for x in env.finditer(text, doc)]
                    got = impl.call(lambda: list(jsonpath.Query([m], env).select(text, projection=getattr(jsonpath.Projection, style))))
                    asc, overlapping = classify(sels)
                    ctx.count("multi_environment_projections")
                    case = {"multi_env": True}
                    if snap.changed():
                        ctx.violation("document-modified-by-projection", case, {"env": name, "text": text})
                        return
                    if not sels:
                        if not got.ok or got.value:
                            ctx.violation("projection-produced-for-empty-selection:multi-env", case, {"env": name, "text": text, "got": got.desc() if not got.ok else canon(got.value)[:200]})
                            return
                        continue
                    if not asc and style != "FLAT":
                        continue
                    want = expected(doc, (), sels, style)
                    if not got.ok or len(got.value) != 1 or canon(got.value[0]) != canon(want):
                        ctx.violation("projection-differs-from-the-environment's-own-selection:%s" % style, case, {"env": name, "text": text, "style": style, "got": got.desc() if not got.ok else canon(got.value)[:300], "expected": canon([want])[:300]})
                        return


def expected_by_parts(sels, style):
    """Projection structure from (parts, value) pairs alone (objects only, or arrays selected by index)."""
    if style == "FLAT":
        return [v for _, v in sels]
    tree = _B()
    for parts, v in sels:
        cur = tree
        inside = False
        for p in parts[:-1]:
            if p not in cur:
                cur[p] = _B()
            cur = cur[p]
            if not isinstance(cur, _B):
                inside = True
                break
        if not inside:
            cur[parts[-1]] = ("value", v)

    def build(node):
        keys = list(node)
        if keys and all(isinstance(k, int) for k in keys):
            return [item(node[k]) for k in sorted(keys)]
        return {k: item(node[k]) for k in keys}

    def item(n):
        return build(n) if isinstance(n, _B) else n[1]
    return build(tree)


def gen_rel(r, sub, depth=0):
    """A relative query AST selecting below `sub` (never the match itself)."""
    segs = gen.gen_guided_segments(r, sub, max_segs=3, desc=0.15)
    return ["q", "$", segs]


def run_stack_depth(ctx):
    """Projections asked for by callers whose stack is nearly used up (every remaining depth from 150 frames down to 3),
    and of matches located almost as deep as the interpreter recurses: the call may be refused (RecursionError is the
    interpreter's) but a projection that IS returned must be the one returned with plenty of stack."""
    import sys
    import threading

    import jsonpath

    lim = sys.getrecursionlimit()
    doc = {"shelves": [{"skip": 0}, {"x": {"y": {"tags": ["p", "q", "r"], "n": [[0, 1], [2, 3]]}}, "z": [5, 6, 7]}], "t": [1, 2, 3]}
    cases = [("$.shelves[1]", ["x.y.tags[1]", "x.y.tags[2]"]), ("$", ["$.shelves[1].z[2]", "$.t[1:]"]), ("$.shelves[1].x", ["y.n[1][1]", "y.n[0][1]", "y.tags[2]"]), ("$.shelves", ["$[1].z[1]", "$[1].x.y.tags[0,2]"])]
    for mq, rels in cases:
        for style in ("RELATIVE", "ROOT", "FLAT"):
            proj = getattr(jsonpath.Projection, style)

            def run_():
                return [canon(x) for x in jsonpath.query(mq, doc).select(*rels, projection=proj)]
            box = {}
            t = threading.Thread(target=lambda: box.setdefault("ref", impl.call(run_)))
            t.start()
            t.join()
            ref_ = box["ref"]
            if not ref_.ok:
                continue

            def at_depth(n):
                if n <= 0:
                    return impl.call(run_)
                return at_depth(n - 1)
            base = len(__import__("inspect").stack(0))
            for left in list(range(150, 2, -1)):
                try:
                    o = at_depth(max(0, lim - base - left))
                except RecursionError:
                    ctx.count("deep_caller_refusals")
                    continue
                ctx.evaluation()
                ctx.count("projections_from_callers_with_little_stack_left")
                if not o.ok:
                    if isinstance(o.exc, RecursionError):
                        ctx.count("deep_caller_refusals")
                        continue
                    ctx.violation("projection-raised-from-a-deep-caller:%s" % type(o.exc).__name__, {"stack_depth": True}, {"match_query": mq, "relative_queries": rels, "style": style, "frames_left": left, "error": o.desc()})
                    return
                if o.value != ref_.value:
                    ctx.violation("projection-depends-on-how-much-stack-the-caller-has-left", {"stack_depth": True}, {"match_query": mq, "relative_queries": rels, "style": style, "frames_left_about": left, "with_plenty_of_stack": ref_.value, "from_the_deep_caller": o.value})
                    return
    # matches located almost as deep as the interpreter recurses
    for depth in range(lim - 40, lim + 3, 1):
        inner = {"x": {"y": {"tags": ["p", "q", "r"]}}}
        v = inner
        for _ in range(depth):
            v = [v]
        mq = "$" + "[0]" * depth
        want_rel = [canon({"x": {"y": {"tags": ["q", "r"]}}})]
        for style in ("RELATIVE", "ROOT", "FLAT"):
            o = impl.call(lambda: list(jsonpath.query(mq, v).select("x.y.tags[1]", "x.y.tags[2]", projection=getattr(jsonpath.Projection, style))))
            ctx.evaluation()
            ctx.count("projections_of_matches_nested_near_the_recursion_limit")
            if not o.ok:
                if isinstance(o.exc, RecursionError):
                    ctx.count("deep_match_refusals")
                    continue
                ctx.violation("projection-raised-on-a-deep-match:%s" % type(o.exc).__name__, {"stack_depth": True}, {"depth": depth, "style": style, "error": o.desc()})
                return
            if style == "FLAT":
                ok = o.value == [["q", "r"]]
            else:
                cur = o.value[0] if len(o.value) == 1 else None
                hops = 0
                while style == "ROOT" and isinstance(cur, list) and len(cur) == 1 and hops < depth:
                    cur = cur[0]
                    hops += 1
                ok = cur is not None and (style != "ROOT" or hops == depth) and type(cur) is dict and canon(cur) == want_rel[0] and type(cur["x"]["y"]["tags"]) is list
            if not ok:
                ctx.violation("projection-of-a-match-nested-near-the-recursion-limit-is-wrong", {"stack_depth": True}, {"match_depth": depth, "recursion_limit": lim, "style": style, "got": repr(o.value)[-200:]})
                return


def run(spec, ctx):
    import jsonpath

    r = ctx.rng
    rr = Renderer(r, blanks=0.05)
    if spec["shard"] == 2:
        run_stack_depth(ctx)
    if spec["shard"] == 1:
        multi_env_history(ctx)
    if spec["shard"] == 0:
        # directed classes
        doc = {"d": [{"e": 1, "f": 0}, {"e": 2, "f": ""}, {"e": 3, "f": False}, {"e": [], "f": {}}, {"e": None}], "0": {"1": "x", "01": "y"}, "s": "str", "n": 5, "empty": {}, "arr": [10, 11, 12, 13, 14]}
        N = lambda *ns: ["q", "$", [["child", [["name", n] if isinstance(n, str) else ["index", n]]] for n in ns]]  # noqa: E731
        rels = [
            [N("d", 1, "e")], [N("d", 3, "e"), N("d", 3, "f")], [N("d", 0, "f"), N("d", 1, "f"), N("d", 2, "f")], [["q", "$", [["child", [["name", "arr"]]], ["child", [["slice", 1, None, 2]]]]]],
            [["q", "$", [["child", [["name", "arr"]]], ["child", [["index", 0], ["index", 4]]]]]], [N("0", "1"), N("0", "01")], [["q", "$", [["desc", [["name", "e"]]]]]], [["q", "$", [["child", [["name", "d"]]], ["child", [["wild"]]], ["child", [["name", "f"]]]]]],
            [N("zz")], [N("s")], [N("n"), N("empty")], [N("d"), N("d", 1, "e")], [N("d", 1), N("d", 1, "e")], [N("arr", 3), N("arr", 1)], [N("d", 4, "e")], [["q", "$", [["child", [["wild"]]]]]],
        ]
        for mq in (["q", "$", []], N("d"), N("d", 0), N("s"), N("0"), ["q", "$", [["child", [["name", "d"]]], ["child", [["wild"]]]]], ["q", "$", [["desc", [["wild"]]]]]):
            for rel in rels:
                for style in ("RELATIVE", "ROOT", "FLAT"):
                    check_case(ctx, impl.fresh(doc), mq, rr.top(mq), rel, [rr.top(a) for a in rel], style, "directed")
        # matches that are arrays and objects held in other container types (a tuple of rows, a read-only mapping, UserDict,
        # UserList, deque, a named tuple): the same projections as for the same document made of lists and dicts
        import collections
        import collections.abc
        import types as _types

        Row = collections.namedtuple("Row", "a b")
        plain = {"rows": [{"a": 1, "b": [10, 20, 30]}, {"a": 2, "b": [40]}], "m": {"x": {"y": 1, "z": [5, 6]}, "w": 2}, "u": {"k": [1, 2, 3]}, "q": [[1, 2], [3, 4]], "nt": [7, [8, 9]]}
        other = {"rows": tuple(plain["rows"]), "m": _types.MappingProxyType(plain["m"]), "u": collections.UserDict(plain["u"]), "q": collections.deque([collections.UserList([1, 2]), (3, 4)]), "nt": Row(7, [8, 9])}
        for mq_text, rel_texts in (("$.rows", ["[0].a", "[1].b[0]"]), ("$.rows", ["[*].a"]), ("$.m", ["x.y", "x.z[1]"]), ("$.m", ["w"]), ("$.u", ["k[0,2]"]), ("$.q", ["[0][1]", "[1][0]"]), ("$.q[1]", ["[1]"]), ("$.nt", ["[1][0]", "[0]"]),
                                   ("$", ["rows[1].a", "m.x.y"]), ("$.rows[*]", ["a", "b[1:]"]), ("$.*", ["*"]), ("$.q[*]", ["[0]"])):
            for style in ("RELATIVE", "ROOT", "FLAT"):
                proj = getattr(jsonpath.Projection, style)
                def as_lists_and_dicts(v):
                    if isinstance(v, collections.abc.Mapping):
                        return {k: as_lists_and_dicts(x) for k, x in v.items()}
                    if isinstance(v, (collections.abc.Sequence, collections.deque)) and not isinstance(v, str):
                        return [as_lists_and_dicts(x) for x in v]
                    return v
                a = impl.call(lambda: [canon(as_lists_and_dicts(x)) for x in jsonpath.query(mq_text, plain).select(*rel_texts, projection=proj)])
                b = impl.call(lambda: [canon(as_lists_and_dicts(x)) for x in jsonpath.query(mq_text, other).select(*rel_texts, projection=proj)])
                ctx.evaluation()
                ctx.count("projections_of_matches_held_in_other_container_types")
                if not a.ok or not b.ok or a.value != b.value:
                    ctx.violation("projection-of-a-match-held-in-another-container-type-differs", {"other_containers": True}, {"match_query": mq_text, "relative_queries": rel_texts, "style": style, "lists_and_dicts": a.desc() if not a.ok else a.value, "other_containers": b.desc() if not b.ok else b.value})
                    return
        # members whose name is the keys-selector marker followed by their own value (`"~id": "id"`, `"~": ""`, `"#x": "x"`): they
        # look like what the non-standard keys selector yields, and are ordinary members all the same
        kdoc = {"o": {"~id": "id", "~": "", "#x": "x", "~a": "b", "id": "~id", "n": {"~deep": "deep", "k": 1}}, "arr": [{"~v": "v"}, {"~v": "w"}]}
        for mq in (["q", "$", []], N("o"), N("arr", 0)):
            for rel_ast in ([N("o", "~id")], [N("o", "~")], [N("o", "#x")], [N("o", "~a"), N("o", "~id")], [["q", "$", [["child", [["name", "o"]]], ["child", [["wild"]]]]]], [["q", "$", [["desc", [["name", "~deep"]]]]]], [["q", "$", [["desc", [["wild"]]]]]],
                            [N("~id")], [N("~v")], [["q", "$", [["child", [["wild"]]]]]], [N("arr", 0, "~v"), N("arr", 1, "~v")]):
                for style in ("RELATIVE", "ROOT", "FLAT"):
                    check_case(ctx, impl.fresh(kdoc), mq, rr.top(mq), rel_ast, [Renderer(r, plain=True).top(a) for a in rel_ast], style, "directed")
                    ctx.count("projections_of_members_named_like_key_matches")
        # member names that begin or end with a blank character beyond ASCII (legal name characters; only the four ASCII blanks
        # are insignificant in a query), next to the twin a trimmed reading would select; relative queries given as text in
        # every spelling: bracketed, dotted, and the bare name the documentation's examples use
        for nm in ("a\u00a0", "\u2003k", "\u3000", "x\u0085", "\u00a0a\u00a0", "\u2028b", "c\u2029", "\u1680d\u205f", "e\u200a"):
            twin = nm.strip() or "s"
            doc = {nm: {"v": 1, nm: [1, 2], twin: "inner-twin"}, twin: {"v": "twin", nm: "t"}, "arr": [{nm: 5, twin: 6}]}
            for rel_ast, texts in ((N(nm), ["$['%s']" % nm, "$." + nm, nm, " " + nm + " ", "\t" + nm + "\n"]), (N(nm, "v"), ["$." + nm + ".v", nm + ".v", nm + "['v']"]), (N(nm, nm), ["$." + nm + "." + nm, nm + "." + nm]), (N("arr", 0, nm), ["arr[0]." + nm, "$.arr[0]." + nm])):
                for t in texts:
                    for style in ("RELATIVE", "ROOT", "FLAT"):
                        check_case(ctx, impl.fresh(doc), ["q", "$", []], "$", [rel_ast], [t], style, "directed")
                        ctx.count("relative_queries_with_names_ending_in_non_ascii_blanks")
    for _ in range(max(20, spec["n"] // 20)):
        if not interleaved_selects(ctx, r):
            break
    for _ in range(spec["n"]):
        doc = gen.gen_doc(r, profile=r.choice(["unique", "mixed", "lookalike"]), hostile=r.choice([0.1, 0.5]), max_depth=r.randint(2, 4), fan=r.randint(2, 4))
        mq = gen.gen_std_query(r, doc, max_segs=2, desc=0.2) if r.random() < 0.7 else ["q", "$", []]
        ms = ref.eval_query(mq, doc)
        target = ms[0][1] if ms else doc
        rel = [gen_rel(r, target) for _ in range(r.randint(1, 4))]
        for style in ("RELATIVE", "ROOT", "FLAT"):
            check_case(ctx, impl.fresh(doc), mq, rr.top(mq), rel, [rr.top(a) for a in rel], style, "random")


def finalize(m, tier):
    inc = []
    sc = m["matrices"].get("style_x_class", {})
    for style in ("RELATIVE", "ROOT", "FLAT"):
        for cls in ("random", "directed", "scalar-match", "empty-selection"):
            if not sc.get("%s %s" % (style, cls)):
                inc.append("style x class never observed: %s %s" % (style, cls))
    if m["counters"].get("projections_compared", 0) < 1000:
        inc.append("too few projections compared")
    return {"inconclusive": inc}


def replay(case, ctx):
    if case.get("interleaved_selects"):
        for _ in range(200):
            if not interleaved_selects(ctx, ctx.rng):
                return
        return
    if case.get("multi_env"):
        multi_env_history(ctx)
        return
    if case.get("stack_depth"):
        run_stack_depth(ctx)
        return
    if case.get("other_containers"):
        run({"shard": 0, "n": 0}, ctx)
        return
    check_case(ctx, case["doc"], case["mq_ast"], case["mq_text"], case["rel_asts"], case["rel_texts"], case["style"], case.get("class", "replay"))
