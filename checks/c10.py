"""C10 - a compiled query's string form recompiles to an equivalent query.

Differential inside the library: p = compile(q); s = str(p); compile(s) must succeed,
str(compile(s)) == s, and p and compile(s) return the same matches (locations and strict
values, or the same error kind) on the documents of the case and a default pool.
"""
from __future__ import annotations

import itertools

from rt import fuzz, gen, impl
from rt.foundry import ForeignFailed, foreign
from rt.jsonval import canon, h
from rt.render import Renderer

ID = "C10"
LEVEL = "exploration"
RULE = (
    "accepted queries from four sources: generated standard queries (selectors, typed filters) in every spelling; extension "
    "syntax (keys, fake root, #, _, in/contains, =~ with flags, <>, aliases, undefined, list literals, compound | and & chains); "
    "directed grouping/negation/quoting/number/regex-flag templates; mutation-fuzzed strings the default environment accepts. "
    "A case is an accepted query text; non-trivial when the original query matches something on at least one of its documents; "
    "distinct by text."
)
ASSUMPTIONS = ["equivalence is observed on the case's own documents plus a fixed pool, not proved for all documents"]

POOL = [
    {"a": 1, "b": {"a": 2, "c": [3, {"a": 4}]}, "": 5, "0": 6, "k": 2},
    [{"a": "x", "b": 1}, {"a": "y"}, [1, 2, 3], "s", 2, None, {"": 0}, {"a": True}, {"a": 1.5}, {"b": {"a": [1]}}],
    {"list": ["a", 2], "x": [{"v": 2, "c": [{"v": 2}, {"v": 3}]}, {"v": 3, "c": [{"v": 2}]}], "a": "ab", "b": "xaby"},
]
EXTRA = gen.CTX_DEFAULT


def plan(tier, seed):
    specs = [{"kind": "directed"}, {"kind": "concurrent-compile", "rounds": 4 if tier == "quick" else 40}]
    n = 11 if tier == "quick" else 45
    per = 2000 if tier == "quick" else 30000
    for i in range(n):
        specs.append({"kind": ["std", "ext", "fuzz"][i % 3], "n": per})
    return specs


def results(p, doc):
    out = impl.call(lambda: [(tuple(m.parts), canon(m.obj)) for m in p.finditer(doc, filter_context=EXTRA)])
    if out.ok:
        return ("ok", out.value)
    return ("raise", type(out.exc).__name__)


def check_text(ctx, text, docs, cls, must_compile):
    import jsonpath

    ctx.evaluation()
    case = {"text": text, "docs": docs, "class": cls} if cls != "surrogates" else {"kind": "surrogates"}
    c = impl.call(jsonpath.compile, text)
    if not c.ok:
        if must_compile:
            ctx.violation("generated-query-rejected:%s:%s" % (cls, type(c.exc).__name__), case, {"text": text, "error": c.desc()})
        else:
            ctx.count("fuzz_rejected")
        return
    ctx.count("accepted:" + cls)
    p = c.value
    s1 = impl.call(str, p)
    if not s1.ok:
        ctx.violation("str-raised:%s" % type(s1.exc).__name__, case, {"text": text, "error": s1.desc()})
        return
    s = s1.value
    c2 = impl.call(jsonpath.compile, s)
    if not c2.ok:
        ctx.case(h(text), True)
        ctx.violation("string-form-does-not-recompile:%s" % type(c2.exc).__name__, case, {"text": text, "str": s, "error": c2.desc()})
        return
    s2 = str(c2.value)
    nontrivial = False
    bad = None
    for doc in docs:
        a, b = results(p, doc), results(c2.value, doc)
        if a[0] == "ok" and a[1]:
            nontrivial = True
        if a != b:
            bad = {"text": text, "str": s, "doc": canon(doc)[:300], "original": repr(a)[:400], "recompiled": repr(b)[:400]}
            break
    ctx.case(h(text), nontrivial)
    if bad:
        ctx.violation("string-form-evaluates-differently:%s" % cls, case, bad)
        return
    if s2 != s:
        ctx.violation("string-form-not-a-fixed-point:%s" % cls, case, {"text": text, "str": s, "str2": s2})
        return
    if cls == "directed" or ctx.rng.random() < 0.15:
        # the same text compiled in another interpreter (other hash seed, fresh module state) and carried here by pickle
        try:
            fp = foreign("compile", text)
        except ForeignFailed:
            ctx.count("other_interpreter_could_not_deliver")
        else:
            ctx.count("queries_compiled_in_another_interpreter")
            fs = impl.call(str, fp)
            if not fs.ok or fs.value != s:
                ctx.violation("string-form-differs-for-the-query-compiled-in-another-interpreter", case, {"text": text, "str_here": s, "str_there": fs.value if fs.ok else fs.desc()})
                return
            for doc in docs[:3]:
                if results(fp, doc) != results(p, doc):
                    ctx.violation("query-compiled-in-another-interpreter-evaluates-differently", case, {"text": text, "doc": canon(doc)[:300]})
                    return
    ctx.remember("string-form", lambda: digest(text, docs))
    for cname in {type(x).__name__ for x in _walk(p)}:
        ctx.cell("node_classes_serialised", cname)
    if len(ctx.samples) < 3 or ctx.rng.random() < 0.002:
        ctx.sample({"text": text, "str": s, "class": cls})


def run_surrogates(ctx):
    """Surrogate code points written raw in the query text (a query that came through a UTF-16 system, or was built from
    Python strings): a high and a low one side by side are TWO characters - another string than the astral character an
    escaped pair denotes. Lone ones, reversed ones, raw next to escaped. A replay file cannot hold them, so the class is
    replayed as a whole."""
    HI, LO, AST = "\ud83d", "\ude00", "\U0001f600"
    docs = [{HI + LO: "two", AST: "one", HI: "hi", LO: "lo", LO + HI: "rev", "a": HI + LO, "b": AST, "x" + HI + LO + "y": 1, "x" + AST + "y": 2},
            [{"a": HI + LO}, {"a": AST}, {"a": HI}, {"a": LO}, {"a": LO + HI}, {"a": "x" + HI + LO}, {"a": "x" + AST}]]
    for name in (HI + LO, AST, HI, LO, LO + HI, "\\ud83d" + LO, HI + "\\ude00", "\\ud83d\\ude00", "x" + HI + LO + "y", HI + LO + HI, HI + HI + LO, "\\ud83d" + LO + HI):
        for t in ("$['%s']", '$["%s"]', "$[?@.a == '%s']", '$..[?@.a != "%s"]', "$[?'%s' == @.a]", "$[?match(@.a, '%s')]", "$['%s', 'b']", "$[?@['%s']]"):
            check_text(ctx, t % name, docs, "surrogates", must_compile=False)
            ctx.count("texts_with_raw_surrogate_code_points")
    if len(HI + LO) == 2 and len(AST) == 1:
        for t in ("$.%s", "$..%s"):
            for name in (AST, "x" + AST):
                check_text(ctx, t % name, docs, "surrogates", must_compile=False)


def digest(text, docs):
    import jsonpath

    p = jsonpath.compile(text)
    s = str(p)
    return (s, str(jsonpath.compile(s)), tuple(repr(results(p, d)) for d in docs))


def _walk(p):
    """Every selector / filter node reachable from a compiled query (for the census)."""
    from jsonpath.filter import FilterExpression
    from jsonpath.path import CompoundJSONPath, JSONPath
    from jsonpath.selectors import Filter, ListSelector

    stack = [p]
    seen = 0
    while stack and seen < 500:
        x = stack.pop()
        seen += 1
        yield x
        if isinstance(x, CompoundJSONPath):
            stack.append(x.path)
            stack.extend(q for _, q in x.paths)
        elif isinstance(x, JSONPath):
            stack.extend(x.selectors)
        elif isinstance(x, ListSelector):
            stack.extend(x.items)
        elif isinstance(x, Filter):
            stack.append(x.expression)
        elif isinstance(x, FilterExpression):
            stack.extend(x.children())
            if hasattr(x, "path"):
                stack.append(x.path)


def gen_case(r, kind):
    """(text, [docs]); gen_case.lenient tells whether the text is outside the RFC grammar"""
    gen_case.lenient = False
    names = r.sample(["a", "b", "c", "k", "v", "é", "0", "a b", "'", "\\", "and"], r.randint(2, 4))
    if kind == "std":
        if r.random() < 0.5:
            doc = gen.gen_doc(r, profile="mixed", hostile=0.6, max_depth=3)
            ast = gen.gen_std_query(r, doc)
        else:
            fg = gen.FilterGen(r, names, max_depth=r.randint(1, 4))
            doc = gen.filter_doc(r, names, fg.strings + fg.witnesses)
            e = fg.logical()
            gen_case.lenient = False
            if r.random() < 0.2:
                gen_case.lenient = True  # not RFC: the library may legitimately refuse some of these
                # the library also accepts comparisons whose operands are parenthesised expressions
                other = ["pexpr", fg.logical()] if r.random() < 0.4 else ["lit", r.choice([True, False, 1, None])]
                e = ["cmp", r.choice(gen.CMP_OPS), ["pexpr", e], other] if r.random() < 0.7 else ["cmp", r.choice(gen.CMP_OPS), other, ["pexpr", e]]
                if r.random() < 0.3:
                    e = ["and", ["not", e], fg.logical()]
            ast = ["q", "$", [[r.choice(["child", "desc"]), [["filter", e]]]]]
            doc = gen.filter_doc(r, names, fg.strings + fg.witnesses)
        return Renderer(r, blanks=r.choice([0, 0.3])).top(ast), [doc]
    fg = gen.ExtFilterGen(r, names, max_depth=r.randint(1, 3))

    def one():
        k = r.random()
        if k < 0.6:
            seg = [r.choice(["child", "desc"]), [["filter", fg.logical()]] + ([["keys"]] if r.random() < 0.15 else [])]
            return ["q", "^" if r.random() < 0.15 else "$", [seg] if r.random() < 0.7 else [["child", [["wild"]]], seg]]
        segs = gen.gen_segments(r, names, max_segs=3, keys=True, filters=lambda: fg.logical())
        return ["q", "^" if (segs and r.random() < 0.2) else "$", segs]
    comp = [one()]
    for _ in range(r.choice([0, 0, 1, 2, 3])):
        comp.append([r.choice("|&"), one()])
    doc = gen.ext_doc(r, names, extra=fg.witnesses)
    return Renderer(r, blanks=r.choice([0, 0.3]), alias=r.random() < 0.5).compound(comp), [doc]


def nested_filter(depth, r):
    inner = "@.v == %d" % r.randint(0, 3)
    for i in range(depth):
        k = r.random()
        inner = ("@.%s[?%s]" % (r.choice("abc"), inner)) if k < 0.6 else (("(%s)" % inner) if k < 0.8 else ("!(%s) || @.a" % inner))
    return "$[?%s]" % inner


def reentrant_env():
    """An environment with a function extension whose compile-time `validate` hook compiles its string argument with
    the same environment: a compile inside a compile."""
    import jsonpath
    from jsonpath.filter import StringLiteral

    env = jsonpath.JSONPathEnvironment()

    class Sub:
        def __call__(self, v, q):
            return len(env.findall(q, v)) if isinstance(v, (dict, list)) else 0

        def validate(self, _env, args, token):
            for a in args:
                if isinstance(a, StringLiteral):
                    _env.compile(a.value)
            return args
    env.function_extensions["sub"] = Sub()
    return env


def run_concurrent(ctx, rounds, fixed=None):
    """Compile -> str -> compile from 8 threads at once on ONE environment (yields injected inside the lexer and
    parser), and re-entrantly from a validate hook; every outcome against the same text compiled alone."""
    import jsonpath

    from rt.threads import stress

    r = ctx.rng
    envs = [("default environment", jsonpath.DEFAULT_ENV), ("re-entrant environment", reentrant_env())]
    for _round in range(rounds):
        texts = [nested_filter(r.randint(3, 45), r) for _ in range(10)] + [gen_case(r, r.choice(["std", "ext"]))[0] for _ in range(10)]
        name, env = envs[_round % 2]
        if name.startswith("re-entrant"):
            texts = ["$[?sub(@, %s) >= 0]" % Renderer(r, plain=True).string(t, "'") for t in texts[:10]] + texts[10:]
        if fixed:
            texts = fixed[0]
            name, env = [e for e in envs if e[0] == fixed[1]][0]

        def alone(t):
            c = impl.call(env.compile, t)
            if not c.ok:
                return ("raise", type(c.exc).__name__)
            s1 = impl.call(str, c.value)
            if not s1.ok:
                return ("str-raise", type(s1.exc).__name__)
            c2 = impl.call(env.compile, s1.value)
            return ("ok", s1.value, str(c2.value) if c2.ok else "recompile: " + type(c2.exc).__name__)
        ref = {t: alone(t) for t in texts}
        for t, v in ref.items():
            ctx.evaluation()
            if v[0] == "ok" and v[2] != v[1]:
                ctx.violation("string-form-does-not-recompile:%s" % name.split()[0], {"text": t, "docs": [], "class": "concurrent"}, {"text": t, "str": v[1], "again": v[2]})
                return
        errors = []
        done = [0]

        def worker(wid, rr):
            order = list(texts)
            rr.shuffle(order)
            for t in order:
                got = alone(t)
                done[0] += 1
                if got != ref[t]:
                    errors.append({"text": t, "alone": repr(ref[t])[:300], "concurrently": repr(got)[:300], "thread": wid})

        st = stress(worker, nthreads=8, files=("parse.py", "lex.py", "stream.py", "filter.py", "env.py", "selectors.py", "path.py"), seed=r.random(), prob=0.004)
        ctx.count("concurrent_compiles", done[0])
        ctx.count("yields_injected", st["yields"])
        ctx.count("thread_switches_at_yield_points", st["switches"])
        ctx.cell("thread_interleaving_signatures", st["signature"])
        ctx.cell("concurrent_compile_environments", name)
        for e in errors[:2]:
            ctx.violation("compile-or-string-form-differs-under-concurrent-compiles:%s" % name.split()[0], {"kind": "concurrent-compile", "texts": texts, "env": name}, e)
        if errors:
            return
        # FRESH compiled objects (nobody has asked for their string form, hash or equality yet) handed to all threads at
        # once: the first str() of one object from several threads, and the string form it reports afterwards
        long_ones = ["$" + "".join(".s%d[?@.k%d == %d]" % (i, i, i) if i % 3 == 0 else ".m%d" % i for i in range(n_)) for n_ in (30, 100)]
        fresh = [(t, env.compile(t)) for t in list(texts) + long_ones if impl.call(env.compile, t).ok]
        want = {t: str(env.compile(t)) for t, _o in fresh}
        errors2 = []

        def worker2(wid, rr):
            for t, obj in fresh:
                what = rr.choice(["str", "str", "hash-eq", "repr"])
                try:
                    if what == "hash-eq":
                        obj == obj  # noqa: B015
                        hash(obj) if getattr(obj, "__hash__", None) else None
                    got = str(obj)
                except Exception as e:  # noqa: BLE001
                    got = "%s: %s" % (type(e).__name__, e)
                if got != want[t]:
                    errors2.append({"text": t[:200], "string_form_alone": want[t][:300], "first_string_form_taken_by_several_threads_at_once": got[:300], "thread": wid})
                    return
        st2 = stress(worker2, nthreads=8, files=("path.py", "selectors.py", "filter.py", "serialize.py"), seed=r.random(), prob=0.05)
        ctx.count("first_string_forms_taken_concurrently", len(fresh) * 8)
        ctx.count("yields_injected", st2["yields"])
        for t, obj in fresh:
            if str(obj) != want[t] and not errors2:
                errors2.append({"text": t[:200], "string_form_alone": want[t][:300], "string_form_reported_after_the_threads_finished": str(obj)[:300]})
        for e in errors2[:2]:
            ctx.violation("string-form-differs-when-first-taken-by-several-threads-at-once", {"kind": "concurrent-compile", "texts": texts, "env": name}, e)
        if errors2:
            return


def run(spec, ctx):
    r = ctx.rng
    kind = spec["kind"]
    if kind == "concurrent-compile":
        run_concurrent(ctx, spec["rounds"])
        return
    if kind == "directed":
        A, B, C = "@.a", "@.b == 1", "@.c"
        texts = []
        for e in ("!(%s)" % B, "!(%s && %s)" % (A, C), "(%s || %s) && %s" % (A, B, C), "%s || %s && %s" % (A, B, C), "!(%s || %s)" % (A, C), "!%s && %s" % (A, C),
                  "!(!(%s))" % B, "!(@.a < 2) || !(@.b >= 'x')", "(%s && %s) || (%s && %s)" % (A, B, C, B), "!(%s) == false" % "@.a" if False else "!(@.a == false)",
                  "!(@.a in [1, 2])", "!(@.a contains 'x')", "!(@.a =~ /x/)", "!(@.a <> 1)", "!(# == 0)", "!(_.k == @.k)", "(!@.a) || @.b", "!(@.a == undefined)",
                  "!(1 == @.a)", "!('a' != @.a)", "(@.a == 1) == true", "!(@.a == 1) == true", "(@.a == 1) == (@.b == 1)", "(@.a < 2) in [true]", "@.a == (1 == true)", "(@.a && @.b) == true", "(!@.a) == false", "((@.a == 1) == true) == true", "(@.a in [1, 2]) != (@.b in [1])", "!(length(@.a) > 1)", "!match(@.a, 'x')", "!(count(@.*) == 1 && @.a)", "@.a && !(@.b == 1 || @.c) && @.a"):
            for seg in ("$[?%s]", "$..[?%s]", "$[?%s, 0]", "$.x[?%s]", "^[?%s]"):
                texts.append(seg % e)
        for s in ("a'b", 'a"b', "a\\b", "a\\", "\\", "'", '"', "a\nb", "\t", "\u0000", "\u001f", "é", "\U0001f600", "\\n", "a\\'b", "\\\\", "/", "a/b", " ", ""):
            q1 = Renderer(r, plain=True).string(s, "'")
            q2 = Renderer(r, plain=True).string(s, '"')
            for q in (q1, q2):
                texts += ["$[%s]" % q, "$..[%s]" % q, "$[?@.a == %s]" % q, "$[?@[%s] == %s]" % (q, q), "$[%s, %s]" % (q, q), "$[?%s in @]" % q, "$[?@ in [%s, 1]]" % q, "$[?match(@.a, %s)]" % q]
        for num in ("0", "-0", "1", "-1", "1.0", "1.5", "-1.5", "1e2", "1E2", "1e-2", "1.5e3", "1.0e20", "1e20", "1e-7", "9007199254740991", "-9007199254740991", "0.1", "12e1", "1.", "100000000000000000000.0", "1e15", "1e16", "1.5e-10", "123456789.125", "1e400", "1.0e400", "-1.0e400", "1e-400", "1e308", "1.7976931348623157e308", "5e-324",
                    "1e309", "1E+400", "1e4299", "1e4300", "1e4301", "12e4299", "1e5000", "1.5e4300", "1e-4400", "9" * 400, "9" * 4300, "9" * 4301, "-" + "9" * 4301, "9" * 400 + ".5", "0." + "0" * 4400 + "1", "1" + "0" * 309, "1" + "0" * 309 + ".0"):
            texts += ["$[?@.a == %s]" % num, "$[?@.a < %s]" % num, "$[?%s >= @.a]" % num, "$[?@.a in [%s, 2]]" % num, "$[?length(@.a) == %s]" % num]
        for k in range(5):
            for fl in itertools.combinations("aims", k):
                texts += ["$[?@.a =~ /x.y/%s]" % "".join(fl), "$..[?@ =~ /(a|b)+/%s]" % "".join(fl)]
        # every letter (and a few digits / pairs) in flag position, over patterns whose meaning a flag can change: whatever the
        # environment accepts must come back from the string form with the same matches
        import string

        flagdocs = [[{"a": v} for v in ("abc", "ab c", "ab c#d", "AB C", "ab\nc", "a\nb c", "abc#d", "é", "É", "ab  c", "x")]]
        for fl in list(string.ascii_letters) + ["0", "1", "xi", "ix", "xx", "im", "ux", "Li", "si", "ms", "ai", "au"]:
            for pat in ("ab c", "ab c#d", "^b c$", "ab c # d\n", "a.b c", "[a b]c", "é", "\\w c"):
                for t in ("$[?@.a =~ /%s/%s]" % (pat, fl), "$..[?!(@.a =~ /%s/%s)]" % (pat, fl)):
                    check_text(ctx, t, flagdocs, "directed", must_compile=False)
                    ctx.count("regex_literals_with_every_letter_in_flag_position")
        texts += ["^[?@.a]", "^[0].a", "^..a", "$.a | $.b", "$.a & $.b", "$.a | $.b & $.c | ^[0]", "$..a | ^[?@.a] & $..[?@.a == 1]", "a.b", "$[a, b]", "$.~", "$[~, 'a']", "$..~",
                  "$[?# == 'a']", "$[?_.k == @.k]", "$[?@.a == undefined]", "$[?@.a != missing]", "$[?@.a == nil || @.b == None || @.c == True]", "$[?@.a and not @.b or @.c]",
                  "$[1:2]", "$[::2]", "$[::-1]", "$[:1]", "$[-1:]", "$[1::]", "$[0,1:2,*]", "$..[*]", "$..*", "$.*", "$[*]", "$['a']['b']", "$.a[0]['b']", "$..['a','b']", "$", "", "$[?@[?@.a]]",
                  "$[?count(@..*) > 2]", "$[?value(@.*) == 1]", "$[?search(@.a, 'x') && match(@.b, 'y')]", "$[?@.a[0] == @['b'][-1]]", "$[?$.a.b == @.c]", "$[?@ == 'x']", "$[?@]", "$[?!@]",
                  "$[?@.a == [1, 2]]", "$[?@.a in ['a', 'b', null, true, 1.5]]", "$[?[1] contains @.a]"]
        # bare identifiers (no segments) as operands and function arguments, each kind next to the others and in both orders
        bare = ["$[?length(%s) == 1]", "$[?length(%s) == 2]", "$[?count(%s) == 1]", "$[?%s == $[0]]", "$[?@ > 1 && length(%s) == 1]", "$..[?length(%s) > 1]", "$[?value(%s) == 5]", "$[?typeof(%s) == 'array']"]
        for order in (["@", "$", "^", "_"], ["^", "_", "$", "@"], ["_", "^", "@", "$"]):
            for t in bare:
                for ident in order:
                    texts.append(t % ident)
        # list literals on either side of the membership operators, with repeated and look-alike items
        for lst in ("[1, 1]", "[1, 2, 1]", "['a', 'a']", "[1, 1.0]", "[1, true]", "[null, null]", "[1]", "[]", "['a', \"a\"]", "[0, -0]", "[1e0, 1]"):
            texts += ["$[?%s in @.a]" % lst, "$[?@.a contains %s]" % lst, "$[?@.a in %s]" % lst, "$[?%s contains @.a]" % lst, "$[?%s == @.a]" % lst, "$[?@.a != %s]" % lst, "$..[?%s in @]" % lst]
        # filter-context queries whose member names contain the other identifiers' characters, and root queries nested in them
        texts += ["$[?@.a == _['max$']]", "$[?@.a == _['max_']]", "$[?@.a == _['max$'] || @.a == _['max_']]", "$[?_['$'] == @.a]", "$[?_.list[?@ == $[0].a]]", "$[?count(_.list[?@ == $[0].b]) == 1]", "$[?_['max$'] == @.b && $[0].b == _['max$']]"]
        texts += ["$[?length(^) == 1 && length($) == 2]", "$[?length($) == 2 && length(^) == 1]", "$[?^ == $]", "$[?$ == ^]", "$[?_ == @ || ^ == @]", "^[?length(^) == 1]", "^[?length($) == 2]", "$[?count(^) == count($)]"]
        docs = POOL + [[5, 6], [[5, 6]], {"a": [5, 6]}, [5]] + [[{"a": [[1, 1], [2]]}, {"a": [[1], [2]]}, {"a": [1, 1]}, {"a": [1]}, {"a": 1}, {"a": [["a", "a"]]}, {"a": [["a"]]}, {"a": [[1, 2, 1]]}, {"a": [[1, 2]]}, {"a": [[1, 1.0]]}, {"a": [[None, None], [None]]}, {"a": [[0, 0]]}, {"a": [[]]}]] + [[{"a": v, "b": 1, "c": 0} for v in (1, 2, "x", "a'b", 'a"b', "a\\b", True, False, None, 100.0, 1e20, 1e-7, 0, -0.0, 1.5, 1500.0, "x\ny", "xzy")]]
        for t in texts:
            check_text(ctx, t, docs, "directed", must_compile=False)
        ctx.count("directed_texts", len(texts))
        run_surrogates(ctx)
        # thread-wide arithmetic state the host application may have set: a decimal context with little precision, with
        # rounding traps, with another rounding mode. Number literals must come back from the string form all the same.
        import decimal

        numq = ["$[?@.a == %s]" % n_ for n_ in ("3.141592653589793", "1.5e-7", "1e16", "0.1", "123456789.125", "1e22", "2.5e-300", "1.7976931348623157e308", "9007199254740993", "-0.0", "1e-7", "100000000000000000000.0", "12e1", "0.30000000000000004")] + ["$[?@.a < 1.5e-7 || @.b >= 3.141592653589793]", "$[?@.a in [0.1, 1e16, 2.5]]"]
        numdocs = [[{"a": v, "b": v} for v in (3.141592653589793, 3.14159, 1.5e-7, 1e16, 0.1, 123456789.125, 1e22, 2.5e-300, 1.7976931348623157e308, 9007199254740993, 9007199254740992, 0.0, 1e-7, 1e20, 120, 0.30000000000000004, 0.3, 2.5)]]
        for cname, setup in (("precision 6", lambda c: setattr(c, "prec", 6)), ("precision 1", lambda c: setattr(c, "prec", 1)), ("precision 9 with Inexact and Rounded trapped", lambda c: (setattr(c, "prec", 9), c.traps.__setitem__(decimal.Inexact, True), c.traps.__setitem__(decimal.Rounded, True))),
                             ("rounding up, small exponent range", lambda c: (setattr(c, "rounding", decimal.ROUND_UP), setattr(c, "Emax", 10), setattr(c, "Emin", -10), setattr(c, "prec", 5))), ("basic context", lambda c: None)):
            with decimal.localcontext(decimal.BasicContext if cname == "basic context" else None) as c_:
                setup(c_)
                for t in numq:
                    check_text(ctx, t, numdocs, "directed", must_compile=True)
                    ctx.count("number_literals_under_other_decimal_contexts")
            ctx.cell("decimal_contexts", cname)
        return
    seeds = []
    for i in range(spec["n"]):
        if kind == "fuzz":
            base, docs = gen_case(r, r.choice(["std", "ext"]))
            seeds.append(base)
            if len(seeds) > 50:
                seeds.pop(0)
            text = fuzz.mutate(r, base, seeds)
            check_text(ctx, text, docs + POOL[:2], "fuzz", must_compile=False)
        else:
            text, docs = gen_case(r, kind)
            check_text(ctx, text, docs + POOL[:1], kind, must_compile=not gen_case.lenient)


def finalize(m, tier):
    inc = []
    c = m["counters"]
    acc = c.get("accepted:fuzz", 0)
    rej = c.get("fuzz_rejected", 0)
    if acc + rej and acc / (acc + rej) < 0.15:
        inc.append("fuzzer accepted share too low: %d/%d" % (acc, acc + rej))
    for k in ("accepted:std", "accepted:ext", "accepted:fuzz", "accepted:directed"):
        if c.get(k, 0) < 200:
            inc.append("too few %s" % k)
    return {"inconclusive": inc, "coverage": {"fuzz_accept_share": round(acc / max(1, acc + rej), 3)}}


def replay(case, ctx):
    if case.get("kind") == "concurrent-compile":
        run_concurrent(ctx, 30, fixed=(case["texts"], case["env"]))
        return
    if case.get("kind") == "surrogates":
        run_surrogates(ctx)
        return
    check_text(ctx, case["text"], case["docs"], case.get("class", "replay"), must_compile=case.get("must_compile", False))
