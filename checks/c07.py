"""C07 - compile-time gate: valid RFC queries accepted, ill-typed / out-of-range refused.

Oracle: rt.ref_typing (independent RFC 9535 2.4.3 rules on the AST) + the syntactic
rules named in the statement.  Ill-typed programs carry a label (rule x position), so
evidence reports acceptance/rejection per cell.  Monitor: H5 evaluate counter must
stay 0 during every compile ("never evaluated").
"""
from __future__ import annotations

import copy

from rt import gen, hooks, impl, ref_typing
from rt.jsonval import h
from rt.render import Renderer

ID = "C07"
LEVEL = "exploration"
RULE = (
    "well-typed filter trees from the typed generator (must compile, in several spellings) and ill-typed programs built by "
    "planting exactly one labelled rule violation (non-singular operand, logical function as operand, value function as test, "
    "arity, argument kind, unknown function, uncompared literal) at each position (top, under !, either side of && and ||, in "
    "parentheses, as a function argument, in a nested filter), plus random single-site mutations of well-typed trees; integer "
    "bounds at/inside/outside the limits under default and narrowed limits; leading zeros, empty and comma-terminated lists. "
    "A case is a query text; every case is non-trivial (each decides accept/reject); distinct by text."
)
ASSUMPTIONS = ["rt/ref_typing.py classifies the AST; the label planted by the mutator must agree with it (disagreements make the run inconclusive)", "well_typed=True environments only"]

QA = ["q", "@", [["child", [["name", "a"]]]]]
QB = ["q", "@", [["child", [["name", "b"]]]]]
A = ["test", QA]
NONSING = [
    ["q", "@", [["child", [["wild"]]]]],
    ["q", "@", [["child", [["name", "a"]]], ["child", [["slice", 0, 2, None]]]]],
    ["q", "@", [["desc", [["name", "a"]]]]],
    ["q", "@", [["child", [["name", "a"], ["name", "b"]]]]],
    ["q", "$", [["child", [["filter", A]]]]],
    ["q", "$", [["child", [["name", "a"]]], ["child", [["wild"]]]]],
]
CONTEXTS = {
    "top": lambda x: x,
    "not": lambda x: ["not", x],
    "and-left": lambda x: ["and", x, A],
    "and-right": lambda x: ["and", A, x],
    "or-left": lambda x: ["or", x, A],
    "or-right": lambda x: ["or", A, x],
    "paren": lambda x: ["paren", x],
    "not-paren": lambda x: ["not", ["paren", x]],
    "nested-filter": lambda x: ["test", ["q", "@", [["child", [["filter", x]]]]]],
    "deep": lambda x: ["or", A, ["and", ["not", ["paren", x]], ["cmp", "==", ["sq", QB], ["lit", 1]]]],
    "nested-filter-deep": lambda x: ["and", A, ["test", ["q", "$", [["desc", [["filter", ["or", x, A]]]]]]]],
    "filter-inside-a-function-argument": lambda x: ["cmp", ">", ["call", "count", [["nodes", ["q", "@", [["child", [["name", "a"]]], ["child", [["filter", x]]]]]]]], ["lit", 0]],
    "filter-inside-a-nested-function-argument": lambda x: ["cmp", "==", ["call", "length", [["call", "value", [["nodes", ["q", "@", [["child", [["filter", ["and", A, x]]]]]]]]]]], ["lit", 1]],
}


def ill_items(r):
    sq = ["sq", QA]
    ns = lambda: ["nsq", r.choice(NONSING)]  # noqa: E731
    lit = lambda: ["lit", r.choice([1, "a", True, None, 0.5])]  # noqa: E731
    op = lambda: r.choice(gen.CMP_OPS)  # noqa: E731
    items = [
        ("value-function-as-test", ["call", "length", [sq]]),
        ("value-function-as-test", ["call", "count", [["nodes", NONSING[0]]]]),
        ("value-function-as-test", ["call", "value", [["nodes", QA]]]),
        ("uncompared-literal", ["tlit", True]),
        ("uncompared-literal", ["tlit", 1]),
        ("uncompared-literal", ["tlit", "a"]),
        ("uncompared-literal", ["tlit", None]),
        ("non-singular-operand", ["cmp", op(), ns(), lit()]),
        ("non-singular-operand", ["cmp", op(), lit(), ns()]),
        ("non-singular-operand", ["cmp", op(), sq, ns()]),
        ("non-singular-operand", ["cmp", op(), ns(), ["call", "length", [sq]]]),
        ("logical-function-operand", ["cmp", op(), ["call", "match", [sq, ["lit", "a"]]], ["lit", True]]),
        ("logical-function-operand", ["cmp", op(), ["lit", False], ["call", "search", [sq, ["lit", "a"]]]]),
        ("arity", ["cmp", op(), ["call", "length", [sq, sq]], lit()]),
        ("arity", ["cmp", op(), ["call", "length", []], lit()]),
        ("arity", ["call", "match", [sq]]),
        ("arity", ["call", "search", [sq, ["lit", "a"], ["lit", "b"]]]),
        ("arity", ["cmp", op(), ["call", "count", [["nodes", QA], ["nodes", QB]]], lit()]),
        ("arity", ["cmp", op(), ["call", "value", []], lit()]),
        ("argument-kind", ["cmp", op(), ["call", "length", [ns()]], lit()]),
        ("argument-kind", ["cmp", op(), ["call", "count", [["lit", 1]]], lit()]),
        ("argument-kind", ["cmp", op(), ["call", "value", [["lit", "a"]]], lit()]),
        ("argument-kind", ["call", "match", [ns(), ["lit", "a"]]]),
        ("argument-kind", ["call", "search", [sq, ns()]]),
        ("argument-kind", ["cmp", op(), ["call", "length", [["call", "match", [sq, ["lit", "a"]]]]], lit()]),
        ("argument-kind", ["cmp", op(), ["call", "count", [["call", "length", [sq]]]], lit()]),
        ("argument-kind", ["cmp", op(), ["call", "length", [["cmp", "==", sq, ["lit", 1]]]], lit()]),
        ("argument-kind", ["call", "match", [["call", "count", [["nodes", QA]]], ["call", "search", [sq, ["lit", "a"]]]]]),
        ("unknown-function", ["call", "foo", [sq]]),
        ("unknown-function", ["cmp", op(), ["call", "bar", [sq]], lit()]),
        ("unknown-function", ["cmp", op(), ["call", "length", [["call", "nosuch", [sq]]]], lit()]),
    ]
    return items


def plan(tier, seed):
    specs = [{"kind": "labelled", "spellings": 3 if tier == "quick" else 8}, {"kind": "syntactic"}, {"kind": "int-digit-limit"}, {"kind": "reconfigured"}, {"kind": "threads", "rounds": 8 if tier == "quick" else 80}]
    n = 10 if tier == "quick" else 44
    for i in range(n):
        specs.append({"kind": "random", "n": 4000 if tier == "quick" else 40000, "depth": (2 + i % 3) if tier == "quick" else (3 + i % 4)})
    return specs


def install():
    hooks.install_h5()


class _Spy(dict):
    """A document that counts every access."""
    touched = 0

    def __getitem__(self, k):
        self.touched += 1
        return dict.__getitem__(self, k)

    def __iter__(self):
        self.touched += 1
        return dict.__iter__(self)

    def items(self):
        self.touched += 1
        return dict.items(self)

    def values(self):
        self.touched += 1
        return dict.values(self)


SENTINELS = [("$[?true]", False, "uncompared-literal"), ("$[?1]", False, "uncompared-literal"), ("$[?'x']", False, "uncompared-literal"), ("$[?null]", False, "uncompared-literal"), ("$[?(1)]", False, "uncompared-literal"),
             ("$[?count(@.a[?true]) > 0]", False, "uncompared-literal"), ("$[?@.a && 1]", False, "uncompared-literal"), ("$[?length(@.a)]", False, "value-function-as-test"), ("$[?@.* == 1]", False, "non-singular-operand"),
             ("$[?nope(@.a)]", False, "unknown-function"), ("$[01]", False, "index-leading-zero"), ("$[]", False, "empty-bracket-list"), ("$[?@.a]", True, "well-formed"), ("$[?count(@.*) == 1]", True, "well-formed"),
             ("$[?match(@.a, 'x') || @.b == true]", True, "well-formed"), ("$[?count(@.a[?@.b == true]) > 0]", True, "well-formed")]
_CALLS = [0]


def compile_case(ctx, env, text, expect_ok, cls, label, ast=None):
    """One compile; verdict against the expectation; evaluate counter must not move."""
    _CALLS[0] += 1
    if _CALLS[0] % 40 == 0 and not cls.startswith("sentinel") and getattr(env, "well_typed", True):
        # the same environment a moment later: whatever the earlier (mostly refused) queries left behind, a fixed set of
        # queries must still get the verdicts they always get
        for t_, ok_, lab_ in SENTINELS:
            compile_case(ctx, env, t_, ok_, "sentinel-after-refusals", lab_)
        ctx.count("sentinel_rounds")
    ctx.evaluation()
    ctx.case(h(text, cls.split(":")[0] == "narrow"))
    before = hooks.STATE.evaluate_calls
    out = impl.call(env.compile, text)
    evaluated = hooks.STATE.evaluate_calls - before
    case = {"text": text, "expect_ok": expect_ok, "class": cls, "label": label, "ast": ast, "narrow": cls.startswith("narrow")}
    import jsonpath

    if evaluated:
        ctx.violation("evaluated-during-compile:%s" % label, case, {"text": text, "evaluate_calls": evaluated})
        return
    if expect_ok:
        if not out.ok:
            ctx.violation("well-typed-rejected:%s:%s" % (cls, type(out.exc).__name__), case, {"text": text, "error": out.desc()})
        else:
            ctx.count("accepted_as_expected")
    else:
        if out.ok:
            ctx.violation("ill-formed-accepted:%s" % label, case, {"text": text})
        elif not isinstance(out.exc, jsonpath.JSONPathError):
            ctx.violation("rejected-with-foreign-exception:%s:%s" % (label, type(out.exc).__name__), case, {"text": text, "error": out.desc()})
        else:
            ctx.count("rejected_as_expected")
            ctx.cell("rejected_with", type(out.exc).__name__)
            if ctx.rng.random() < 0.15:
                # the entry points that take query text must refuse it in the call that receives it (a lazy result that
                # is never advanced would otherwise never refuse), without touching the document
                spy = _Spy({"a": [1, {"b": 2}], "b": "x"})
                before = hooks.STATE.evaluate_calls
                for ename, fn in (("finditer", lambda: env.finditer(text, spy)), ("query", lambda: env.query(text, spy)), ("findall", lambda: env.findall(text, spy)), ("match", lambda: env.match(text, spy)),
                                  ("query().limit(0).values()", lambda: list(env.query(text, spy).limit(0).values()))):
                    o = impl.call(fn)
                    ctx.count("entry_point_refusals_checked")
                    if o.ok or not isinstance(o.exc, jsonpath.JSONPathError):
                        ctx.violation("ill-formed-query-not-refused-by-the-entry-point-that-received-it:%s" % ename.split("(")[0], case, {"text": text, "entry_point": ename, "outcome": "returned %s" % type(o.value).__name__ if o.ok else o.desc()})
                        return
                if spy.touched or hooks.STATE.evaluate_calls != before:
                    ctx.violation("ill-formed-query-reached-the-document", case, {"text": text, "document_accesses": spy.touched})
                    return
    if len(ctx.samples) < 3 or ctx.rng.random() < 0.0008:
        ctx.sample({"text": text, "expected": "compile" if expect_ok else "reject", "label": label, "outcome": out.desc()})


def run_reconfigured(ctx):
    """ONE environment object over time: a query text is used through every text-taking entry point while the
    configuration accepts it; the configuration is then changed by documented means (type checks switched on, integer
    limits narrowed on the instance, a function removed from the registry) and the identical text must be refused - by
    compile and by the entry point that receives it, without touching the document. Then the configuration is put back
    and the text must be accepted again (a well-formed, well-typed RFC query compiles)."""
    import asyncio

    import jsonpath

    def entry_points(env, text, doc):
        async def fa():
            return await env.findall_async(text, doc)

        async def fi():
            return [m async for m in await env.finditer_async(text, doc)]
        return (("compile", lambda: env.compile(text)), ("findall", lambda: env.findall(text, doc)), ("finditer", lambda: env.finditer(text, doc)), ("match", lambda: env.match(text, doc)), ("query", lambda: env.query(text, doc)),
                ("findall_async", lambda: asyncio.run(fa())), ("finditer_async", lambda: asyncio.run(fi())))

    def narrow(env):
        env.max_int_index, env.min_int_index = 5, -5

    def widen(env):
        env.max_int_index, env.min_int_index = (2 ** 53) - 1, -(2 ** 53) + 1
    saved = {}

    def remove(name):
        def f(env):
            saved[name] = env.function_extensions.pop(name)
        return f

    def restore(name):
        def f(env):
            env.function_extensions[name] = saved[name]
        return f
    def replace_with(name, make_fn):
        def f(env):
            saved[name] = env.function_extensions[name]
            env.function_extensions[name] = make_fn()
        return f

    from jsonpath.function_extensions import Count

    scenarios = [
        ("function-replaced-under-its-own-name-by-one-with-other-argument-types", jsonpath.JSONPathEnvironment, replace_with("length", Count), restore("length"),
         ["$[?length('abc') == 3]", "$[?length(value(@.a)) == 1]", "$.a[?length(\"x\") > 0]"]),
        ("type-checks-switched-on", lambda: jsonpath.JSONPathEnvironment(well_typed=False), lambda e: setattr(e, "well_typed", True), None,
         ["$[?count(@..*)]", "$[?length(@.a)]", "$[?@.* == 1]", "$.a[?length(@.*) > 1]", "$[?match(@.a, 'x') == true]", "$[?count('abc') == 3]", "$[?count(@.a[?length(@.b)]) > 0]"]),
        ("limits-narrowed-on-the-instance", jsonpath.JSONPathEnvironment, narrow, widen, ["$.b[7]", "$.b[-6]", "$.b[1:9]", "$.b[::6]", "$[?@[6]]", "$..[0, 6]", "$[?count(@[-7:]) > 0]"]),
        ("function-removed-from-the-registry", jsonpath.JSONPathEnvironment, remove("count"), restore("count"), ["$[?count(@.*) == 1]", "$.a[?count(@..*) > 0]", "$[?!(count(@.a) == 0)]"]),
        ("function-removed-from-the-registry", jsonpath.JSONPathEnvironment, remove("match"), restore("match"), ["$[?match(@.a, 'x.*')]", "$[?@.b || match(@.a, 'x')]"]),
    ]
    for sname, make, change, undo, texts in scenarios:
        for warm in (1, 3):
            for between in (0, 1, 200):
                env = make()
                doc = {"a": [1, {"b": 2}, "xy"], "b": list(range(10))}
                case = {"kind": "reconfigured"}
                for _w in range(warm):
                    for text in texts:
                        for ename, fn in entry_points(env, text, doc):
                            o = impl.call(fn)
                            if not o.ok:
                                ctx.violation("query-refused-under-the-configuration-that-accepts-it:%s:%s" % (sname, ename), case, {"text": text, "entry_point": ename, "error": o.desc()})
                                return
                for i in range(between):
                    impl.call(env.findall, "$.filler%d" % i, doc)
                change(env)
                for text in texts:
                    spy = _Spy(doc)
                    before = hooks.STATE.evaluate_calls
                    for ename, fn in entry_points(env, text, spy):
                        o = impl.call(fn)
                        ctx.evaluation()
                        ctx.count("refusals_checked_after_a_configuration_change")
                        if o.ok or not isinstance(o.exc, jsonpath.JSONPathError):
                            ctx.violation("query-still-accepted-after-the-configuration-changed:%s:%s" % (sname, ename), case, {"text": text, "scenario": sname, "entry_point": ename, "uses_before": warm, "other_queries_between": between, "outcome": "returned %s" % type(o.value).__name__ if o.ok else o.desc()})
                            return
                    if spy.touched or hooks.STATE.evaluate_calls != before:
                        ctx.violation("refused-query-reached-the-document-after-the-configuration-changed:%s" % sname, case, {"text": text, "document_accesses": spy.touched})
                        return
                if undo is not None:
                    undo(env)
                    for text in texts:
                        for ename, fn in entry_points(env, text, doc):
                            o = impl.call(fn)
                            if not o.ok:
                                ctx.violation("well-formed-query-refused-after-the-configuration-was-put-back:%s:%s" % (sname, ename), case, {"text": text, "entry_point": ename, "error": o.desc()})
                                return
                ctx.cell("configurations", "reconfigured over time: %s" % sname)
                ctx.case(h("reconfigured", sname, warm, between), True)


def run_threads(ctx, rounds):
    """Strict environments and lenient ones compiling at the same time: a default environment, a shallow copy of it with
    type checks switched off and wide limits (copy.copy is how a caller derives a variant without subclassing), separately
    built lenient / narrowed environments. Whatever the lenient ones are doing, a strict environment refuses every
    ill-typed or out-of-range query and accepts every well-formed one (yields injected in the lexer, parser and environment)."""
    import jsonpath
    from rt import threads

    ill = ["$[?length(@.*) == 1]", "$[?@.a && length(@.a)]", "$[?count(1) == 1]", "$[?@.* == 1]", "$[?match(@.a, 'x') == true]", "$[?nope(@.a)]", "$[?true]", "$[01]", "$[1,]", "$[%d]" % (2 ** 53), "$[:%d]" % (2 ** 53), "$[?count(@[%d:]) > 0]" % -(2 ** 53)]
    well = ["$[?length(@.a) == 1]", "$[?count(@.*) > 1 && @.a]", "$[?match(@.a, 'x')]", "$.a[1:2]", "$[%d]" % (2 ** 53 - 1), "$..[?@.a == 1 || @.b]"]
    narrow_bad = ["$[11]", "$[-11]", "$[0:11]", "$[?@[12]]"]
    for rnd in range(rounds):
        E = jsonpath.JSONPathEnvironment()
        L = copy.copy(E)
        L.well_typed = False
        L.max_int_index, L.min_int_index = 2 ** 70, -(2 ** 70)
        W = jsonpath.JSONPathEnvironment(well_typed=False)
        S = jsonpath.JSONPathEnvironment()
        N = narrow_env()
        errors = []

        def worker(wid, rng):
            try:
                for _ in range(25):
                    if wid % 2 == 0:
                        env_ = rng.choice([E, S, N, jsonpath.DEFAULT_ENV])
                        bad = rng.random() < 0.6
                        text = rng.choice(ill + (narrow_bad if env_ is N else [])) if bad else rng.choice(well[:4] if env_ is N else well)
                        o = impl.call(env_.compile, text)
                        if bad and (o.ok or not isinstance(o.exc, jsonpath.JSONPathError)):
                            errors.append({"text": text, "environment": "strict (%s)" % ("shares its parser with a lenient copy" if env_ is E else "narrowed" if env_ is N else "separate"), "outcome": "accepted" if o.ok else o.desc()})
                            return
                        if not bad and not o.ok:
                            errors.append({"text": text, "environment": "strict", "outcome": o.desc()})
                            return
                    else:
                        env_ = rng.choice([L, W, L])
                        impl.call(env_.compile, rng.choice(ill + well))
            except Exception as e:  # noqa: BLE001
                errors.append({"thread": wid, "raised": "%s: %s" % (type(e).__name__, e)})
        st = threads.stress(worker, nthreads=6, files=("env.py", "parse.py", "lex.py", "filter.py", "selectors.py", "stream.py"), seed=ctx.seed * 977 + rnd, prob=0.05)
        ctx.evaluation(6 * 25)
        ctx.case(h("threads", st["signature"]), True)
        ctx.count("compiles_while_other_environments_compile", 6 * 25)
        ctx.count("injected_yields", st["yields"])
        if st["timed_out"]:
            ctx.notes.append("a thread round timed out (inconclusive)")
        if errors:
            ctx.violation("strict-environment-gives-another-verdict-while-other-environments-compile", {"kind": "threads"}, errors[0])
            return
        ctx.cell("configurations", "compiling while lenient environments (one a shallow copy) compile")


def toggled_envs():
    """Type checks enabled by assignment after construction, and by a subclass's __init__."""
    import jsonpath

    a = jsonpath.JSONPathEnvironment(well_typed=False)
    a.well_typed = True

    class Late(jsonpath.JSONPathEnvironment):
        def __init__(self):
            super().__init__(well_typed=False)
            self.well_typed = True

    return [a, Late()]


def narrow_env(lo=-10, hi=10):
    import jsonpath

    return type("Narrow", (jsonpath.JSONPathEnvironment,), {"max_int_index": hi, "min_int_index": lo})()


def mutate(r, expr, items):
    """Replace one random test-position subexpression with a labelled ill-typed item."""
    sites = []

    def walk(e, path):
        t = e[0]
        if t in ("or", "and"):
            sites.append((path, t))
            walk(e[1], path + (1,))
            walk(e[2], path + (2,))
        elif t in ("not", "paren"):
            sites.append((path, t))
            walk(e[1], path + (1,))
        else:
            sites.append((path, t))
    walk(expr, ())
    path, _ = r.choice(sites)
    label, item = r.choice(items)
    new = copy.deepcopy(expr)
    if not path:
        return label, copy.deepcopy(item), "top"
    cur = new
    for p in path[:-1]:
        cur = cur[p]
    pos = "%s-%s" % (cur[0], {1: "left", 2: "right"}[path[-1]] if cur[0] in ("or", "and") else "operand")
    cur[path[-1]] = copy.deepcopy(item)
    return label, new, pos


def run(spec, ctx):
    install()
    import jsonpath

    r = ctx.rng
    env = jsonpath.JSONPathEnvironment()
    kind = spec["kind"]
    if kind == "int-digit-limit":
        # the interpreter's limit on int <-> str conversion is process state a host application may have changed: switched
        # off (0), lowered to its minimum (640), raised. Well-formed queries compile and ill-formed ones are refused all the same.
        import sys

        old_limit = sys.get_int_max_str_digits()
        mx, mn = (2 ** 53) - 1, -(2 ** 53) + 1
        planned = {}   # (the texts are written while the interpreter still converts every one of these integers)
        for cls, lo, hi in (("default", mn, mx), ("narrow", -10, 10)):
            planned[cls] = [(text, lo <= v <= hi) for v in (0, 1, -1, 3, 7, 10, -10, 11, -11, hi, lo, hi + 1, lo - 1, 10 ** 30, int("9" * 639), int("9" * 641))
                            for text in ("$[%d]" % v, "$[%d:]" % v, "$[:%d]" % v, "$[::%d]" % v, "$[0,%d]" % v, "$[?@[%d] == 1]" % v, "$[?count(@[%d:]) > 0]" % v, "$..[%d]" % v)]
        try:
            for limit in (0, 640, 100000, old_limit):
                sys.set_int_max_str_digits(limit)
                for e, lo, hi, cls in ((jsonpath.JSONPathEnvironment(), mn, mx, "default"), (narrow_env(), -10, 10, "narrow")):
                    for text, ok in planned[cls]:
                        compile_case(ctx, e, text, ok, "%s:int-digit-limit=%s" % (cls, limit), "index-or-slice-out-of-range")
                    for text, ok_, lab in SENTINELS:
                        compile_case(ctx, e, text, ok_, "%s:int-digit-limit=%s" % (cls, limit), lab)
                    for text in ("$[1]", "$[-1]", "$[0,3]", "$[1:3]", "$[::-4]", "$[?@ == 2][0]", "$[?@.a == 12345678901234567890]", "$[?length(@.a) == 3]", "$.a[?@.b > 1e3].c"):
                        compile_case(ctx, e, text, True, "%s:int-digit-limit=%s" % (cls, limit), "well-formed")
                ctx.cell("configurations", "interpreter int/str digit limit = %s" % limit)
        finally:
            sys.set_int_max_str_digits(old_limit)
    elif kind == "reconfigured":
        run_reconfigured(ctx)
    elif kind == "threads":
        run_threads(ctx, spec["rounds"])
    elif kind == "labelled":
        for tenv in toggled_envs():
            for label, item in ill_items(r):
                for pos in ("top", "not", "and-right", "nested-filter"):
                    ast = ["q", "$", [["child", [["filter", CONTEXTS[pos](copy.deepcopy(item))]]]]]
                    if ref_typing.errors(ast):
                        compile_case(ctx, tenv, Renderer(r, plain=True).top(ast), False, "toggled-on:labelled", label, ast)
                        ctx.cell("configurations", "type checks switched on after construction")
        for rep in range(spec["spellings"]):
            for label, item in ill_items(r):
                for pos, wrap in CONTEXTS.items():
                    expr = wrap(copy.deepcopy(item))
                    ast = ["q", "$", [[r.choice(["child", "desc"]), [["filter", expr]]]]]
                    errs = ref_typing.errors(ast)
                    if not errs:
                        ctx.count("label_model_disagreement")
                        ctx.notes.append("model calls labelled case well-typed: %s %s" % (label, pos))
                        continue
                    text = Renderer(r, blanks=0.0 if rep == 0 else 0.3).top(ast)
                    compile_case(ctx, env, text, False, "labelled", label, ast)
                    ctx.cell("rule_x_position", "%s @ %s" % (label, pos))
        # value-position hole: ill-typed call as a function argument of a well-typed comparison
        for label, item in ill_items(r):
            if item[0] == "call":
                expr = ["cmp", "==", ["call", "length", [item]], ["lit", 1]]
                ast = ["q", "$", [["child", [["filter", expr]]]]]
                if ref_typing.errors(ast):
                    compile_case(ctx, env, Renderer(r).top(ast), False, "labelled", label, ast)
                    ctx.cell("rule_x_position", "%s @ function-argument" % label)
        # other environments in the process customise their function registries; a standard
        # environment's verdicts must not move
        class Custom(jsonpath.JSONPathEnvironment):
            def setup_function_extensions(self):
                super().setup_function_extensions()
                self.function_extensions["first"] = lambda nodes: nodes
        early = jsonpath.JSONPathEnvironment()
        other = Custom()
        other2 = jsonpath.JSONPathEnvironment()
        other2.function_extensions.pop("match", None)
        other2.function_extensions["count"] = lambda *a: 1
        other2.function_extensions["myfn"] = lambda x: x
        for e in (early, jsonpath.DEFAULT_ENV, env, jsonpath.JSONPathEnvironment()):
            for text, ok, label in (("$[?first(@.*) == 1]", False, "unknown-function"), ("$[?myfn(@.a) == 1]", False, "unknown-function"), ("$[?match(@.a, 'x.*')]", True, "well-typed"),
                                    ("$[?count(@.*)]", False, "value-function-as-test"), ("$[?count('abc') == 3]", False, "argument-kind"), ("$[?count(@.*) == 1]", True, "well-typed")):
                compile_case(ctx, e, text, ok, "registry-history", label)
                ctx.cell("configurations", "another environment changed its own function registry")
        # environments that register their own functions - a plain callable, a class with a validate() method, a typed
        # FilterFunction: queries refused INSIDE the argument list of each (out-of-range index, syntax error, ill-typed
        # comparison, missing parenthesis), and after every one of them the fixed queries get the verdicts they always get
        from jsonpath.function_extensions import ExpressionType, FilterFunction

        class Typed(FilterFunction):
            arg_types = [ExpressionType.NODES]
            return_type = ExpressionType.VALUE

            def __call__(self, nodes):
                return None

        class Validating:
            def validate(self, env_, args, token):
                return args

            def __call__(self, *a):
                return None

        for make in (lambda: jsonpath.JSONPathEnvironment(), lambda: jsonpath.JSONPathEnvironment(filter_caching=False)):
            e = make()
            e.function_extensions.update({"plain": lambda *a: None, "checked": Validating(), "typed": Typed()})
            for fn in ("plain", "checked", "typed", "count", "plain(checked", "typed(plain"):
                opener, closer = fn + "(", ")" * (1 + fn.count("("))
                for inner in ("@[9007199254740992]", "@[01]", "@.a[", "@.a ==", "@.* == 1", "@.a, ", "@..[?true]", "@['\\z']", "@.a[?nope(@)]", "$[1:2:99999999999999999999]", "@.a", "@.*"):
                    text = "$[?%s%s%s == 1]" % (opener, inner, closer)
                    out = impl.call(e.compile, text)
                    ctx.evaluation()
                    ctx.count("compiles_with_the_argument_list_of_a_registered_function")
                    if not out.ok and not isinstance(out.exc, jsonpath.JSONPathError):
                        ctx.violation("compile-raised-outside-the-family:%s" % type(out.exc).__name__, {"text": text, "class": "own-functions"}, {"error": out.desc()})
                    for t_, ok_, lab_ in SENTINELS:
                        compile_case(ctx, e, t_, ok_, "sentinel-after-refusals", lab_ + " (after %s)" % ("a refusal" if not out.ok else "an accepted query") )
            ctx.cell("configurations", "own functions of three kinds registered")
    elif kind == "syntactic":
        mx, mn = (2 ** 53) - 1, -(2 ** 53) + 1
        nenv = narrow_env()
        asym = [(0, mx), (-5, 1000), (0, 100), (-1000, 10), (-7, 100), (-9, 999), (1, 5), (-3, 7), (-(10 ** 20), 10 ** 20), (0, 0), (-1, 10 ** 6)]
        for e, lo, hi, cls in [(env, mn, mx, "default"), (nenv, -10, 10, "narrow")] + [(narrow_env(lo_, hi_), lo_, hi_, "narrow") for lo_, hi_ in asym]:
            # values as digit strings: thousands of digits are beyond what int() / str() convert (4300 by default)
            long_ones = [(sign + d * n, (lo <= int(sign + d * n) <= hi) if n < 4300 else False) for sign in ("", "-") for d in ("1", "9") for n in (20, 400, 4300, 4301, 6001)]
            for v, ok in [(str(x), lo <= x <= hi) for x in (hi, hi - 1, hi + 1, lo, lo + 1, lo - 1, hi * 10 + 10, lo * 10 - 10, 0, -1, 1, -2, 7, -30, 2 ** 63, -2 ** 63 - 1, 10 ** 30)] + long_ones:
                a0, a1, a2 = (max(lo, min(hi, k)) for k in (0, 1, 2))   # companions that are inside the limits themselves
                forms = ["$[%s]" % v, "$.a[%s]" % v, "$..[%s]" % v, "$[%d,%s]" % (a0, v), "$[%s:]" % v, "$[:%s]" % v, "$[::%s]" % v, "$[%d:%s:%d]" % (a1, v, a2),
                         "$[?@[%s]]" % v, "$[?@.a[%s] == 1]" % v, "$[?count(@[%s:]) > 0]" % v, "$[ %s ]" % v, "$[%d, %s:%d]" % (a1, v, a2), "$[?count(@[%d, %s]) > 0]" % (a0, v)]
                for text in forms:
                    compile_case(ctx, e, text, ok, "%s:int-range" % cls, "index-or-slice-out-of-range")
                    ctx.cell("int_range", "%s %s %s" % (cls, "inside" if ok else "outside", "slice" if ":" in text else "index"))
        for text in ("$[01]", "$[-01]", "$[00]", "$[007]", "$[1,02]", "$..[01]", "$[?@[01]]", "$.a[010]", "$[ 01 ]", "$[-007]", "$['a',00]"):
            compile_case(ctx, env, text, False, "default:leading-zero", "index-leading-zero")
            ctx.cell("syntactic", "leading-zero")
        for text in ("$[]", "$.a[]", "$..[]", "$[ ]", "$[\t]", "$.a.b[]", "$[0][]", "$[?@[]]"):
            compile_case(ctx, env, text, False, "default:empty-list", "empty-bracket-list")
            ctx.cell("syntactic", "empty-list")
        for text in ("$[1,]", "$['a',]", "$[*,]", "$[1:2,]", "$[?@.a,]", "$[1, ]", "$[1,2,]", "$..[1,]", "$[?@[1,]]", "$[\"a\" ,\n]"):
            compile_case(ctx, env, text, False, "default:trailing-comma", "comma-terminated-list")
            ctx.cell("syntactic", "trailing-comma")
        for text in ("$[0]", "$[-1]", "$[10]", "$[1,2]", "$[0:1]", "$['a','b']", "$[*,1]", "$[?@.a]", "$[ 1 , 2 ]"):
            compile_case(ctx, env, text, True, "default:wellformed", "well-formed")
    elif kind == "random":
        nenv = narrow_env()
        items = ill_items(r)
        if spec["shard"] % 4 == 0:
            # every string of the hostile pool (quotes, backslashes, text that looks like an escape) as a name selector, a
            # comparison operand, a function argument and inside a nested filter, in both quote styles: all well-formed
            for s_ in gen.NAMES_QUOTE + ["\\\"", "C:\\dir\\\"", "\"\\", "a\\\\\"b", "'\\", "\\'\"", "it's \"q\"", "\\\\", "\u00e9\\\"", "\U0001f600"]:
                for q_ in ("'", '"'):
                    lit = Renderer(r, plain=True).string(s_, q_)
                    for text in ("$[%s]" % lit, "$[?@.a == %s]" % lit, "$[?length(%s) >= 1]" % lit, "$[?count(@[?@ == %s]) == 1]" % lit, "$[?@.a != %s && match(@.b, 'x')]" % lit, "$..[%s, 'k']" % lit):
                        compile_case(ctx, env, text, True, "string-spellings", "well-formed")
                        ctx.count("hostile_strings_in_both_quote_styles")
        for i in range(spec["n"]):
            names = r.sample(["a", "b", "c", "d", "k0", "é"], 3)
            fg = gen.FilterGen(r, names, max_depth=spec["depth"])
            expr = fg.logical()
            seg = r.choice(["child", "desc"])
            ast = ["q", "$", [[seg, [["filter", expr]]]]]
            if ref_typing.errors(ast):
                ctx.count("generator_produced_ill_typed")
                continue
            text = Renderer(r, blanks=r.choice([0.0, 0.2, 0.4])).top(ast)
            compile_case(ctx, r.choice([env, env, nenv]), text, True, "random-well-typed", "well-typed", None)
            label, bad, pos = mutate(r, expr, items)
            ast2 = ["q", "$", [[seg, [["filter", bad]]]]]
            if not ref_typing.errors(ast2):
                ctx.count("label_model_disagreement")
                continue
            compile_case(ctx, env, Renderer(r, blanks=r.choice([0.0, 0.3])).top(ast2), False, "random-ill-typed", label, None)
            ctx.cell("random_rule_x_position", "%s @ %s" % (label, pos))
    ctx.count("H5_evaluate_calls_total", hooks.STATE.evaluate_calls)


def finalize(m, tier):
    inc = []
    if m["counters"].get("label_model_disagreement", 0):
        inc.append("the typing model disagreed with %d planted labels" % m["counters"]["label_model_disagreement"])
    rp = m["matrices"].get("rule_x_position", {})
    rules = {k.split(" @ ")[0] for k in rp}
    want = {"value-function-as-test", "uncompared-literal", "non-singular-operand", "logical-function-operand", "arity", "argument-kind", "unknown-function"}
    if want - rules:
        inc.append("rules never planted: %s" % sorted(want - rules))
    if m["counters"].get("accepted_as_expected", 0) < 1000 or m["counters"].get("rejected_as_expected", 0) < 1000:
        inc.append("too few accepted/rejected programs")
    return {"inconclusive": inc, "coverage": {"rule_x_position_cells": len(rp)}}


def replay(case, ctx):
    install()
    import jsonpath

    if case.get("kind") == "reconfigured":
        run_reconfigured(ctx)
        return
    if ":int-digit-limit=" in str(case.get("class", "")):
        run({"kind": "int-digit-limit", "shard": 0}, ctx)
        return
    if case.get("kind") == "threads":
        run_threads(ctx, 40)
        return

    env = narrow_env() if case.get("narrow") else (toggled_envs()[0] if str(case.get("class", "")).startswith("toggled-on") else jsonpath.JSONPathEnvironment())
    compile_case(ctx, env, case["text"], case["expect_ok"], case["class"], case["label"], case.get("ast"))
