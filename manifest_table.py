NOTES = "Runtime monitoring of python-jsonpath; see DESIGN.md. Every check exits 0 (held on what was observed), 1 (VIOLATION lines) or 2 (INCONCLUSIVE: a deciding monitor was never reached)."
NOT_YET = {}
CHECKS = {}
