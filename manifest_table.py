NOTES = ("Runtime monitoring of python-jsonpath; see DESIGN.md. Every check shards a seeded hostile workload over 16 processes against the real library "
         "imported from /repo's working tree, decides each execution with a reference-model or differential oracle, records which cells of the mechanism "
         "were reached (hook matrices, sys.monitoring line/raise/call censuses) and replays the witness corpus of repaired defects. Exit 0 = held on what "
         "was observed, 1 = VIOLATION lines with replay files, 2 = INCONCLUSIVE (a deciding monitor was never reached). 41 genuine defects found by these "
         "checks on the pinned tree were repaired with fix: commits (known_findings.json); no finding is open.")
NOT_YET = {}
BASE_NOTE = "trusted base: CPython 3.12 (sys.monitoring, asyncio, json), the reference models in rt/ (self-tested against the RFC example tables by setup_cmd), the harness's strict JSON equality; bounded by the generators' sizes (documents depth <= 5 / <= 60 in the depth class, short queries, integers within +-2^53)"
def C(text, technique, note=""):
    return {"category": "exploration", "text": text, "technique": technique, "note": (note + "; " if note else "") + BASE_NOTE}
CHECKS = {
 "C01": C("held on every observed execution: ~10^5 (quick) rendered (query text, document) pairs incl. the complete slice space {-7..7,omitted}^3 x lengths 0..6, every selector kind x value kind, every hostile name in every spelling, compared node-for-node (location, identity) with an RFC 9535 reference evaluator that never parses text; H1 proves each selector met each value kind, H2 checks the location invariant on every match constructed",
          "reference-model differential monitoring (AST evaluator vs library on rendered spellings) + selector/value-kind hook matrix"),
 "C02": C("held on every observed execution: the comparison table enumerated completely (24x24 values x 6 operators x operand forms) plus typed random filter trees and directed existence/nesting/precedence/function classes, against RFC 9535 filter semantics; H3 proves every (operator, kind, kind) cell was reached inside env.compare",
          "reference-model differential monitoring + comparison-cell hook matrix"),
 "C03": C("held on every observed match: normalized-path grammar, re-evaluation of the path returns exactly that node (identity), parts/pointer/re-parsed pointer text resolve to it, parent is one step shorter, equal paths <=> same node; H2 runs online on every match object",
          "boundary oracle over recorded matches + online location-invariant hook"),
 "C04": C("held on every observed resolution: every node of every generated document through four entry points and both decoding modes, and every look-alike one-token mutation the RFC 6901 model calls unevaluable (resolution error, default returned, exists false)",
          "reference-model differential monitoring of pointer resolution with a token-class x container census"),
 "C05": C("held on every observed application: ~70k single operations enumerated completely over a document universe plus sampled operation histories, against a pure RFC 6902 model; results must be JSON trees without shared structure",
          "reference-model differential monitoring over enumerated operations and sampled histories"),
 "C06": C("held on every observed call: mutation/token-soup fuzzing of queries, pointers, relative pointers and patch lists with every boundary call classified by exception family, error rendering exercised, a per-case watchdog whose expiry is only confirmed as a hang after an isolated re-run; the RAISE census lists the built-in exceptions that were raised inside jsonpath and translated",
          "fuzzing under a boundary exception-family monitor + sys.monitoring RAISE census + bounded-progress watchdog"),
 "C07": C("held on every observed compile: labelled ill-typed programs (rule x position), random single-site mutations of well-typed trees classified by an independent RFC 9535 2.4.3 checker, integer bounds at/inside/outside default and narrowed limits, syntactic rejects; H5 evaluate counter stayed 0 during every compile",
          "independent type-checker oracle over generated programs + evaluate-counter hook"),
 "C08": C("held on every observed pair: sync vs async outcome (values, order, paths, parts, error kind) for generated standard/extended/compound queries over plain, async-getter and fault-injecting documents, gathered 8 at a time with seeded yields; T3 proves every *_async function and its twin was entered",
          "sync/async differential monitoring with fault and yield injection + twin-coverage census"),
 "C09": C("held on every observed history: compiled queries reused over document/context histories (sync and async), interleaved lazy iterators (exhaustive for tiny cases), 8 threads with LINE-event yield injection, gathered tasks; document/context/compiled-object snapshots; H4 re-computes every cache hit and checks each cache cell sees one (root, context)",
          "history replay against a solo cache-off reference + online cache-cell monitor + yield-injected thread/task interleavings"),
 "C10": C("held on every observed accepted query (generated standard, extension, directed, fuzz-accepted): string form recompiles, is a fixed point, and evaluates identically on the case's documents and a pool",
          "round-trip differential monitoring (compile -> str -> compile) over generated and fuzz-accepted queries"),
 "C11": C("held on every observed (query, document): three API layers x {findall, finditer, match, query} x five document forms equal the left-to-right fold of the operands' own finditer results",
          "entry-point differential monitoring against a fold model of per-operand results"),
 "C12": C("held on every observed chain: all chains up to length 2 (quick) / 3 (thorough) over 9 operations x 7 counts x lengths 0..5 x 8 terminals enumerated completely, plus sampled long chains with shuffled consumption of take/tee children, against a list model",
          "list-model monitoring of enumerated and sampled operation chains with a counting source probe"),
 "C13": C("held on every observed execution: each documented extension in each position against the extension-mode reference model, and every alias spelling against its standard spelling",
          "reference-model + alias/standard differential monitoring"),
 "C14": C("held on every observed pointer: all 8421 token sequences of length <= 3 over a 20-token alphabet x 2 decoding modes x 7 construction routes; print/parse, equality, join/parent/relative and resolution laws",
          "law checking over an enumerated token-sequence space across construction routes"),
 "C15": C("held on every observed patch: five construction forms print the given operations and have the model's effect; three applications of one patch object to equal documents are equal and share no structure with each other, the patch or the caller's list; an icontract snapshot/ensure contract on JSONPatch.apply checks the patch is unchanged",
          "reference-model differential monitoring + icontract snapshot contract + alias detector over repeated applications"),
 "C16": C("held on every observed application: all (base, steps, offset, suffix) combinations to depth 2 enumerated, depth 3 sampled, through four application routes, against a model of the draft; print/parse round trip; forbidden applications raise the relative-pointer error",
          "reference-model differential monitoring over an enumerated parameter space"),
 "C17": C("held on every observed (assignment, query, document): custom-token environment vs default environment on the same AST, and string form recompiled in the custom environment",
          "configuration differential monitoring over generated token assignments"),
 "C18": C("held on every observed invocation: the full option product of each sub-command in-process plus a subprocess sample, against the library call with the same options; exit status, stream separation, output shape",
          "in-process CLI driving under monitors + subprocess sampling against a library-call oracle"),
 "C19": C("held on every observed projection: generated and directed (document, match query, relative queries, style) cases against a rank-compaction model; document snapshot unchanged in every case",
          "reference-model differential monitoring + document snapshot monitor"),
 "C20": C("held on every observed match: test/replace/remove through match.pointer() equal the edit made by walking match.parts on a deep copy; nothing else changes",
          "pipeline differential monitoring against direct edits by location"),
}
EXTRA = {
 "C01": " Also: documents with shared container objects, documents built from other Mapping/Sequence implementations, six equivalent environment configurations (fresh, caching off, pass-through hooks, custom match class, flags assigned after construction), an exhaustive index class (-15..15 x lengths 0..6).",
 "C02": " Also: one compiled object reused over several documents, equivalent environment configurations, equal containers held in different Mapping/Sequence implementations on the two sides of a comparison.",
 "C03": " Also: the repository's own 719 tests run under the H2 monitor (W0), equivalent environment configurations, an async pass over lazily loaded containers.",
 "C04": " Also: every case through from_parts / parts-list / relative-pointer construction routes, and JSON-text documents whose earlier results the caller mutated.",
 "C05": " Also: the builder API given pointer objects built from token lists, and the shared decoding-option history workload (every unicode_escape/uri_decode setting in several orders through every route that parses pointer text).",
 "C06": " Also: every registered filter function x every argument form on documents of every kind, pointer-object builder routes, long unterminated inputs, known-good canary requests after rejected inputs.",
 "C07": " Also: environments whose type checks were switched on after construction, and other environments editing their own function registries in the same process.",
 "C08": " Also: one compiled query evaluated concurrently over several documents with yields inside the getters, dict subclasses with __missing__, a history-independence re-check.",
 "C09": " Also: the same document under other contexts, in-place updates of the document and of the caller's context mapping between evaluations, caching on/off under a match class with a per-node filter context.",
 "C10": " Also: comparisons whose operands are parenthesised expressions, overflowing and extreme numeric literals, a history-independence re-check (recompute a sample in reverse order at the end of the shard).",
 "C11": " Also: fake-root operands, filter contexts, lazy entry points of one compiled object interleaved over two documents.",
 "C12": " Also: generator-backed sources, a pull-by-iteration-and-abandon operation, Query objects from the public entry points.",
 "C13": " Also: compound queries mixing $ and ^ operands against the model's fold, repeated regex flag letters, one compiled query re-evaluated while the caller's context mapping is updated in place.",
 "C14": " Also: one-shot iterables given to from_parts, texts first read under other decoding options (shared decoding-option history workload).",
 "C15": " Also: builder with pointer objects, the shared decoding-option history workload.",
 "C16": " Also: bases built by from_parts / to() / join, LF-bearing tokens, suffixes that still contain a backslash sequence after one decoding, the shared decoding-option history workload.",
 "C17": " Also: role-swapped twin environments run in the same process, the fake root inside filters, the current-key identifier as a function argument.",
 "C18": " Also: documents whose root is a string (JSON-looking, bracket-bearing), a number or null; label-driven rejection (an input class the statement lists as rejected must be rejected cleanly whatever the library raises).",
 "C19": " Also: overlapping selections (ordered writes), a multi-environment history (default / no-unicode-escape / renamed-root / hooked getitem) in both orders.",
 "C20": " Also: replacement by the matched value's bool/number twin, the pointer's string form as a second route, edits after differently configured patches saw the same pointer text.",
}
for k, v in CHECKS.items():
    v["text"] += EXTRA.get(k, "")
for v in CHECKS.values():
    v["text"] += ". This is exploration-level assurance: a clean run means held on the executions listed in the evidence file, nothing more."
