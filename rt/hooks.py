"""Harness-side hooks into the real library (installed by rebinding attributes the
library resolves at call time; nothing in /repo is edited).  Every hook counts its
hits; a zero count on a path an oracle depends on makes the run inconclusive.

H1 selector x value-kind matrix (+ descent visit order)   H2 local location invariant
H3 comparison-cell matrix                                   H4 cache-cell monitor (c09)
H5 filter-node census / evaluate counter                    H9 item-getter log / faults
"""
from __future__ import annotations

import collections
from collections.abc import Mapping, Sequence

from .render import canonical_name_step

import re

_installed = {}
_KEYS_TAIL = re.compile(r"\[[^\[\]'\"]+\]\[\d+\]\Z")


class State:
    def __init__(self):
        self.reset()

    def reset(self):
        self.sel_matrix = collections.Counter()     # (selector class, kind, "sync"/"async")
        self.h2_checked = 0
        self.h2_skipped = 0
        self.h2_violations = []
        self.cmp_matrix = collections.Counter()     # (op, lk, rk, result)
        self.cmp_violations = []
        self.evaluate_calls = 0                     # H5
        self.node_census = collections.Counter()
        self.func_census = collections.Counter()
        self.getitem_log = None


STATE = State()


def vkind(v):
    if v is None:
        return "null"
    if isinstance(v, bool):
        return "boolean"
    if isinstance(v, (int, float)):
        return "number"
    if isinstance(v, str):
        return "string"
    if isinstance(v, Mapping):
        return "object"
    if isinstance(v, Sequence):
        return "array"
    return "other"


def _patch(owner, name, new):
    key = (owner, name)
    if key not in _installed:
        _installed[key] = owner.__dict__[name] if name in owner.__dict__ else getattr(owner, name)
    setattr(owner, name, new)


def uninstall_all():
    for (owner, name), orig in list(_installed.items()):
        setattr(owner, name, orig)
    _installed.clear()


# ----------------------------------------------------------------------------- H1

def install_h1():
    import jsonpath.selectors as S

    classes = [c for c in vars(S).values() if isinstance(c, type) and issubclass(c, S.JSONPathSelector) and c is not S.JSONPathSelector]
    for cls in classes:
        if "resolve" in cls.__dict__:
            orig = cls.__dict__["resolve"]

            def resolve(self, matches, _orig=orig, _name=cls.__name__):
                def tap(ms):
                    for m in ms:
                        STATE.sel_matrix[(_name, vkind(m.obj), "sync")] += 1
                        yield m
                return _orig(self, tap(matches))
            _patch(cls, "resolve", resolve)
        if "resolve_async" in cls.__dict__:
            orig_a = cls.__dict__["resolve_async"]

            def resolve_async(self, matches, _orig=orig_a, _name=cls.__name__):
                async def tap(ms):
                    async for m in ms:
                        STATE.sel_matrix[(_name, vkind(m.obj), "async")] += 1
                        yield m
                return _orig(self, tap(matches))
            _patch(cls, "resolve_async", resolve_async)


# ----------------------------------------------------------------------------- H2

def install_h2(keys_token="~"):
    """Local location invariant on every match with a parent (record-and-continue)."""
    from jsonpath.match import JSONPathMatch

    orig = JSONPathMatch.__dict__["__init__"]

    def __init__(self, *, filter_context, obj, parent, path, parts, root, _orig=orig):
        _orig(self, filter_context=filter_context, obj=obj, parent=parent, path=path, parts=parts, root=root)
        if parent is None:
            return
        try:
            k = parts[-1] if parts else None
            tail = path[len(parent.path):]
            if isinstance(k, str) and isinstance(obj, str) and k.endswith(obj) and _KEYS_TAIL.match(tail) and tail.startswith("[" + k[: len(k) - len(obj)] + "]"):
                STATE.h2_skipped += 1  # keys-selector match (`[<keys token>][i]`): names are not nodes
                return
            STATE.h2_checked += 1
            bad = None
            if tuple(parts[:-1]) != tuple(parent.parts) or len(parts) != len(parent.parts) + 1:
                bad = "parts %r is not parent.parts %r plus one step" % (parts, parent.parts)
            else:
                step = "[%d]" % k if isinstance(k, int) and not isinstance(k, bool) else canonical_name_step(k)
                if path != parent.path + step:
                    bad = "path %r is not parent.path %r + %r" % (path, parent.path, step)
                elif type(parent.obj) not in (dict, list):
                    pass  # never call into caller-supplied containers (lazy mappings count their calls)
                else:
                    try:
                        child = parent.obj[k]
                    except Exception as e:  # noqa: BLE001
                        bad = "parent.obj[%r] raised %s" % (k, type(e).__name__)
                    else:
                        if isinstance(child, (Mapping, Sequence)) and not isinstance(child, str):
                            if child is not obj:
                                bad = "parent.obj[%r] is not the matched object" % (k,)
                        elif child != obj or type(child) is not type(obj):
                            bad = "parent.obj[%r] = %r differs from matched %r" % (k, child, obj)
            if bad and len(STATE.h2_violations) < 20:
                STATE.h2_violations.append(bad)
        except Exception as e:  # noqa: BLE001  (never raise into the library)
            if len(STATE.h2_violations) < 20:
                STATE.h2_violations.append("monitor error %s: %s" % (type(e).__name__, e))

    _patch(JSONPathMatch, "__init__", __init__)


# ----------------------------------------------------------------------------- H3

def _ckind(v):
    from jsonpath.filter import UNDEFINED
    from jsonpath.match import NodeList

    if v is UNDEFINED:
        return "nothing"
    if isinstance(v, NodeList):
        return "nodelist%s" % ("0" if len(v) == 0 else "1" if len(v) == 1 else "N")
    return vkind(v)


def install_h3():
    from jsonpath.env import JSONPathEnvironment

    orig = JSONPathEnvironment.__dict__["compare"]

    def compare(self, left, operator, right, _orig=orig):
        res = _orig(self, left, operator, right)
        STATE.cmp_matrix[(operator, _ckind(left), _ckind(right), bool(res))] += 1
        return res

    _patch(JSONPathEnvironment, "compare", compare)


# ----------------------------------------------------------------------------- H5

def install_h5():
    """Count every filter-expression evaluation (must be zero during compile)."""
    import jsonpath.filter as F

    for cls in [c for c in vars(F).values() if isinstance(c, type) and issubclass(c, F.FilterExpression)]:
        for meth in ("evaluate", "evaluate_async"):
            if meth in cls.__dict__ and not getattr(cls.__dict__[meth], "__isabstractmethod__", False):
                orig = cls.__dict__[meth]
                if meth == "evaluate":
                    def evaluate(self, context, _orig=orig, _n=cls.__name__):
                        STATE.evaluate_calls += 1
                        STATE.node_census[(_n, "sync")] += 1
                        return _orig(self, context)
                    _patch(cls, meth, evaluate)
                else:
                    def evaluate_async(self, context, _orig=orig, _n=cls.__name__):
                        STATE.evaluate_calls += 1
                        STATE.node_census[(_n, "async")] += 1
                        return _orig(self, context)
                    _patch(cls, meth, evaluate_async)
    orig_unpack = F.FunctionExtension.__dict__["_unpack_node_lists"]

    def _unpack_node_lists(self, func, args, _orig=orig_unpack):
        STATE.func_census[(self.name,) + tuple(_ckind(a) for a in args)] += 1
        return _orig(self, func, args)

    _patch(F.FunctionExtension, "_unpack_node_lists", _unpack_node_lists)
