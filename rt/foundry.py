"""Objects built in ANOTHER interpreter (its own string-hash seed, its own module state) and
carried here by pickle - one more construction route for pointers, relative pointers,
patches and compiled queries.  The child is this module run as a script; requests and
replies are length-prefixed pickles over its stdin/stdout.

    from rt.foundry import foreign
    p = foreign("pointer", "/a/0", True, False)      # -> JSONPointer built over there

`foreign` returns the object, or raises ForeignFailed when the other interpreter could not
build or pickle it (the caller then skips the route; it is not a verdict).
"""
from __future__ import annotations

import atexit
import os
import pickle
import struct
import subprocess
import sys

HASH_SEED = "4242"


class ForeignFailed(Exception):
    pass


def _build(kind, *a):
    import jsonpath
    from jsonpath import JSONPatch, JSONPointer, RelativeJSONPointer

    if kind == "pointer":
        text, ue, ud = a
        return JSONPointer(text, unicode_escape=ue, uri_decode=ud)
    if kind == "from_parts":
        tokens, ue = a
        return JSONPointer.from_parts(tokens, unicode_escape=ue)
    if kind == "join":
        text, parts, ue = a
        return JSONPointer(text, unicode_escape=ue).join(*parts)
    if kind == "relative":
        (text,) = a
        return RelativeJSONPointer(text)
    if kind == "relative_to":
        text, base = a
        return RelativeJSONPointer(text).to(base)
    if kind == "patch":
        (ops,) = a
        return JSONPatch(ops)
    if kind == "compile":
        (text,) = a
        return jsonpath.compile(text)
    if kind == "match_pointer":
        text, doc = a
        m = jsonpath.match(text, doc)
        return None if m is None else m.pointer()
    if kind == "hashseed":
        return os.environ.get("PYTHONHASHSEED"), hash("a")
    raise ValueError(kind)


def _child():
    sys.path.insert(0, os.environ.get("VERIF_REPO", "/repo"))
    inp, out = sys.stdin.buffer, sys.stdout.buffer
    while True:
        hdr = inp.read(4)
        if len(hdr) < 4:
            return
        req = pickle.loads(inp.read(struct.unpack(">I", hdr)[0]))
        try:
            rep = ("ok", pickle.dumps(_build(*req), protocol=pickle.HIGHEST_PROTOCOL))
        except Exception as e:  # noqa: BLE001
            rep = ("error", "%s: %s" % (type(e).__name__, str(e)[:200]))
        b = pickle.dumps(rep)
        out.write(struct.pack(">I", len(b)) + b)
        out.flush()


_PROC = []
CALLS = [0, 0]  # requests, failures


def _proc():
    if _PROC and _PROC[0].poll() is None:
        return _PROC[0]
    env = dict(os.environ)
    env["PYTHONHASHSEED"] = HASH_SEED
    here = os.path.dirname(os.path.dirname(os.path.abspath(__file__)))
    p = subprocess.Popen([sys.executable, "-B", "-m", "rt.foundry"], cwd=here, env=env, stdin=subprocess.PIPE, stdout=subprocess.PIPE)
    _PROC[:] = [p]
    atexit.register(close)
    return p


def close():
    for p in _PROC:
        try:
            p.stdin.close()
            p.wait(timeout=5)
        except Exception:  # noqa: BLE001
            p.kill()
    _PROC.clear()


def foreign(kind, *a):
    CALLS[0] += 1
    p = _proc()
    try:
        b = pickle.dumps((kind,) + a)
        p.stdin.write(struct.pack(">I", len(b)) + b)
        p.stdin.flush()
        hdr = p.stdout.read(4)
        if len(hdr) < 4:
            raise ForeignFailed("the other interpreter went away")
        status, payload = pickle.loads(p.stdout.read(struct.unpack(">I", hdr)[0]))
    except (OSError, ValueError, pickle.PickleError, RecursionError) as e:
        close()
        CALLS[1] += 1
        raise ForeignFailed(repr(e)) from None
    if status != "ok":
        CALLS[1] += 1
        raise ForeignFailed(payload)
    try:
        return pickle.loads(payload)
    except Exception as e:  # noqa: BLE001
        CALLS[1] += 1
        raise ForeignFailed("unpickle: %r" % e) from None


if __name__ == "__main__":
    _child()
