"""Boundary helpers: call the real library and return plain records."""
from __future__ import annotations

import copy
import traceback

from .jsonval import canon, strict_eq


class Outcome:
    """Result of one boundary call: ok + value, or the exception."""

    __slots__ = ("ok", "value", "exc", "site")

    def __init__(self, ok, value=None, exc=None):
        self.ok = ok
        self.value = value
        self.exc = exc
        self.site = None
        if exc is not None:
            self.site = innermost_site(exc)

    def desc(self):
        if self.ok:
            return "ok"
        return "%s: %s" % (type(self.exc).__name__, str(self.exc)[:200])


def innermost_site(exc):
    """file:function of the innermost jsonpath frame of a traceback (line numbers stripped)."""
    site = None
    for fs in traceback.extract_tb(exc.__traceback__):
        fn = fs.filename.replace("\\", "/")
        if "/jsonpath/" in fn:
            site = "%s:%s" % (fn.rsplit("/jsonpath/", 1)[1], fs.name)
    return site


def call(fn, *a, **kw):
    try:
        return Outcome(True, fn(*a, **kw))
    except Exception as e:  # noqa: BLE001
        return Outcome(False, exc=e)


def match_records(matches):
    """list of (parts tuple, obj, path) from an iterable of JSONPathMatch."""
    return [(tuple(m.parts), m.obj, m.path) for m in matches]


def _pk(p):
    """Kind of a location part: a member name (str or a subclass: the document's own key object) or an index."""
    return "name" if isinstance(p, str) else ("index" if isinstance(p, int) and not isinstance(p, bool) else type(p).__name__)


def nodes_equal(impl, model):
    """impl: [(parts, obj, path)], model: [(loc, value)].  Same length, order,
    locations (type-sensitive) and values (strict)."""
    if len(impl) != len(model):
        return "length %d != %d" % (len(impl), len(model))
    for i, ((parts, obj, _path), (loc, val)) in enumerate(zip(impl, model)):
        if len(parts) != len(loc) or any(_pk(a) != _pk(b) or a != b for a, b in zip(parts, loc)):
            return "node %d location %r != %r" % (i, parts, loc)
        if type(val).__name__ == "_Val":
            if not strict_eq(obj, val.v):
                return "node %d value %s != %s" % (i, canon(obj)[:80], canon(val.v)[:80])
        elif isinstance(val, (list, dict)):
            if obj is not val:
                return "node %d at %r is not the document's own object" % (i, parts)
        elif not strict_eq(obj, val):
            return "node %d value %r != %r" % (i, obj, val)
    return None


def values_equal(vals, model):
    if len(vals) != len(model):
        return "length %d != %d" % (len(vals), len(model))
    for i, (a, (_loc, b)) in enumerate(zip(vals, model)):
        if not strict_eq(a, b):
            return "value %d %s != %s" % (i, canon(a)[:80], canon(b)[:80])
    return None


def brief(model):
    return [[list(loc), canon(v)[:60]] for loc, v in model[:12]]


def brief_impl(impl):
    return [[list(p), canon(o)[:60]] for p, o, _ in impl[:12]]


def fresh(doc):
    return copy.deepcopy(doc)
