"""Reference models for RFC 6901 (JSON Pointer), RFC 6902 (JSON Patch, plus the documented
addne/addap) and the Relative JSON Pointer draft.  Pure functions on plain JSON values;
reference tokens are always strings."""
from __future__ import annotations

import copy
import re

from .jsonval import strict_eq

CANON_INDEX = re.compile(r"(?:0|[1-9][0-9]*)\Z")


class Unresolvable(Exception):
    pass


class Unspecified(Exception):
    """The documentation does not say what happens here; callers skip the case."""


class PatchFail(Exception):
    """The RFC says this operation is an error."""

    def __init__(self, msg, test_failed=False):
        super().__init__(msg)
        self.test_failed = test_failed


def encode_token(t):
    return t.replace("~", "~0").replace("/", "~1")


def encode(tokens):
    return "".join("/" + encode_token(t) for t in tokens)


def decode(s):
    if s == "":
        return []
    if not s.startswith("/"):
        raise ValueError("pointer must be empty or start with /")
    return [t.replace("~1", "/").replace("~0", "~") for t in s.split("/")[1:]]


def tokens_of(loc):
    """Document location (str keys / int indices) -> reference tokens."""
    return [str(p) if isinstance(p, int) else p for p in loc]


def step(cur, t):
    if isinstance(cur, dict):
        if t in cur:
            return cur[t]
        raise Unresolvable("missing member %r" % t)
    if isinstance(cur, list):
        if CANON_INDEX.match(t) and int(t) < len(cur):
            return cur[int(t)]
        raise Unresolvable("bad index %r" % t)
    raise Unresolvable("token %r applied to a scalar" % t)


def resolve(doc, tokens):
    cur = doc
    for t in tokens:
        cur = step(cur, t)
    return cur


# ------------------------------------------------------------------ RFC 6902

def _parent(doc, tokens):
    try:
        return resolve(doc, tokens[:-1])
    except Unresolvable as e:
        raise PatchFail("parent does not exist: %s" % e) from None


def _add(doc, tokens, value, mode="add"):
    """mode: add | addne | addap (documented extensions)."""
    if not tokens:
        return value
    parent = _parent(doc, tokens)
    t = tokens[-1]
    if isinstance(parent, dict):
        if mode == "addne" and t in parent:
            return doc
        parent[t] = value
        return doc
    if isinstance(parent, list):
        if t == "-":
            parent.append(value)
            return doc
        if CANON_INDEX.match(t) and int(t) <= len(parent):
            parent.insert(int(t), value)
            return doc
        if mode == "addap":
            if not CANON_INDEX.match(t):
                raise Unspecified("addap with a non-index token against an array")
            parent.append(value)
            return doc
        raise PatchFail("index %r out of range or not canonical" % t)
    raise PatchFail("parent is a scalar")


def _remove(doc, tokens):
    if not tokens:
        raise PatchFail("cannot remove the root")
    parent = _parent(doc, tokens)
    t = tokens[-1]
    if isinstance(parent, dict):
        if t not in parent:
            raise PatchFail("missing member")
        v = parent.pop(t)
        return doc, v
    if isinstance(parent, list):
        if CANON_INDEX.match(t) and int(t) < len(parent):
            return doc, parent.pop(int(t))
        raise PatchFail("bad index")
    raise PatchFail("parent is a scalar")


def apply_op(doc, op):
    name = op["op"]
    path = decode(op["path"])
    if name in ("add", "addne", "addap"):
        return _add(doc, path, copy.deepcopy(op["value"]), name)
    if name == "remove":
        return _remove(doc, path)[0]
    if name == "replace":
        if not path:
            return copy.deepcopy(op["value"])
        try:
            resolve(doc, path)
        except Unresolvable as e:
            raise PatchFail("replace target missing: %s" % e) from None
        parent = resolve(doc, path[:-1])
        if isinstance(parent, dict):
            parent[path[-1]] = copy.deepcopy(op["value"])
        else:
            parent[int(path[-1])] = copy.deepcopy(op["value"])
        return doc
    if name == "test":
        try:
            v = resolve(doc, path)
        except Unresolvable as e:
            raise PatchFail("test target missing: %s" % e) from None
        if not strict_eq(v, op["value"]):
            raise PatchFail("test failed", test_failed=True)
        return doc
    if name in ("move", "copy"):
        src = decode(op["from"])
        try:
            v = resolve(doc, src)
        except Unresolvable as e:
            raise PatchFail("source missing: %s" % e) from None
        if name == "copy":
            return _add(doc, path, copy.deepcopy(v))
        if len(path) > len(src) and path[: len(src)] == src:
            raise PatchFail("cannot move a value into one of its own children")
        if not src:
            if not path:
                return doc
            raise PatchFail("cannot move the root into itself")
        doc, v = _remove(doc, src)
        return _add(doc, path, v)
    raise PatchFail("unknown op %r" % name)


def apply_patch(doc, ops):
    """Returns the patched document (the argument is not modified)."""
    cur = copy.deepcopy(doc)
    for i, op in enumerate(ops):
        if isinstance(cur, str) and i > 0:
            # the API reads a str document as JSON text; a string that became the root
            # mid-patch is ambiguous between the two readings
            raise Unspecified("string root value in the middle of a patch")
        cur = apply_op(cur, op)
    return cur


# ------------------------------------------------------------------ Relative JSON Pointer

class RelFail(Exception):
    pass


def rel_apply(base_tokens, steps, offset, suffix):
    """suffix: "#" or a list of tokens.  Returns (tokens, key_marker)."""
    if steps > len(base_tokens):
        raise RelFail("more steps than the base has tokens")
    toks = list(base_tokens[: len(base_tokens) - steps])
    if offset:
        if not toks or not CANON_INDEX.match(toks[-1]):
            raise ValueError("offset on a non-index token is unspecified")
        n = int(toks[-1]) + offset
        if n < 0:
            raise RelFail("offset makes the index negative")
        toks[-1] = str(n)
    if suffix == "#":
        if not toks:
            raise RelFail("# at the root")
        return toks, True
    return toks + list(suffix), False


# ------------------------------------------------------------------ decoding options

import re as _re
from urllib.parse import unquote as _unquote

_U = _re.compile(r"\\u([0-9a-fA-F]{4})")


def decode_options(text, unicode_escape=True, uri_decode=False):
    """What a pointer text means under the library's two documented decoding options, for the
    subset the generators use: %XX sequences (urllib's unquote is the definition of uri_decode)
    and \\uXXXX / \\/ escapes (UTF-16 pairs combined).  Returns the list of reference tokens."""
    s = text
    if uri_decode:
        s = _unquote(s)
    if unicode_escape and "\\" in s:
        s = s.replace("\\/", "/")
        s = _U.sub(lambda m: chr(int(m.group(1), 16)), s)
        s = s.encode("utf-16", "surrogatepass").decode("utf-16")
    return decode(s)


FLAG_TEXTS = ["/a%20b", "/a%2Fb/c", "/%25", "/caf%C3%A9", "/a b", "/\\u0041", "/x\\u002fy", "/\\u00e9/%41", "/%5Cu0041", "/a%2520b", "/plain", "/100%25/\\u0031", "/\\ud83d\\ude00"]
FLAG_SETTINGS = [(True, False), (True, True), (False, False), (False, True)]
