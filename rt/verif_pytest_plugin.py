"""W0: run the repository's own tests with the record-mode monitors installed (H2 location
invariant on every match constructed, H4 cache-cell monitor, H6 patch-unchanged contract).
Usage: pytest -p rt.verif_pytest_plugin (with /verif on PYTHONPATH).  Results are written to
the file named by VERIF_W0_OUT."""
import json
import os


def pytest_configure(config):
    from rt import hooks
    from checks import c09, c15

    hooks.install_h2()
    # H4 is not installed here: its shadow re-evaluation makes extra item-getter and
    # evaluate calls, which three of the repository's tests count.
    c15.install_contracts()


def pytest_runtest_teardown(item):
    from rt import hooks
    from checks import c09, c15

    st = _state()
    if hooks.STATE.h2_violations:
        st["h2"].append({"test": item.nodeid, "violations": list(hooks.STATE.h2_violations)})
        hooks.STATE.h2_violations.clear()
    if c09.MON.violations:
        st["h4"].append({"test": item.nodeid, "violations": list(c09.MON.violations)})
        c09.MON.violations.clear()
    if c15.CONTRACT["violations"]:
        st["h6"].append({"test": item.nodeid, "violations": list(c15.CONTRACT["violations"])})
        c15.CONTRACT["violations"].clear()
    c09.MON.reset()


_S = {}


def _state():
    if not _S:
        _S.update(h2=[], h4=[], h6=[])
    return _S


def pytest_sessionfinish(session, exitstatus):
    from rt import hooks
    from checks import c09, c15

    st = _state()
    out = {
        "h2_matches_checked": hooks.STATE.h2_checked, "h2_keys_matches_skipped": hooks.STATE.h2_skipped,
        "h4_cache_hits": c09.MON.hits, "h6_contract_evaluations": c15.CONTRACT["evaluations"],
        "h2": st["h2"][:20], "h4": st["h4"][:20], "h6": st["h6"][:20], "exitstatus": int(exitstatus),
        "tests": session.testscollected,
    }
    path = os.environ.get("VERIF_W0_OUT")
    if path:
        with open(path, "w") as f:
            json.dump(out, f, indent=1)
