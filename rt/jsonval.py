"""Strict JSON value helpers shared by every oracle (the harness's trusted base).

Strict equality: a bool only equals a bool, ints and floats compare numerically,
arrays are ordered, objects compare by member set.  Nothing here imports jsonpath.
"""
from __future__ import annotations

import hashlib
import json

NOTHING = type("Nothing", (), {"__repr__": lambda self: "NOTHING"})()


def kind(v):
    if v is NOTHING:
        return "nothing"
    if v is None:
        return "null"
    if isinstance(v, bool):
        return "bool"
    if isinstance(v, (int, float)):
        return "num"
    if isinstance(v, str):
        return "str"
    if isinstance(v, list):
        return "arr"
    if isinstance(v, dict):
        return "obj"
    return "other:" + type(v).__name__


def strict_eq(a, b):
    ka, kb = kind(a), kind(b)
    if ka != kb:
        return False
    if ka == "arr":
        return len(a) == len(b) and all(strict_eq(x, y) for x, y in zip(a, b))
    if ka == "obj":
        return a.keys() == b.keys() and all(strict_eq(a[k], b[k]) for k in a)
    if ka == "nothing":
        return True
    if ka.startswith("other"):
        return a is b
    return a == b


def strict_lt(a, b):
    ka, kb = kind(a), kind(b)
    return ka == kb and ka in ("num", "str") and a < b


def is_json(v, _depth=0):
    """True iff v is made of dict(str keys)/list/str/int/float/bool/None only."""
    k = kind(v)
    if k == "arr":
        return all(is_json(x) for x in v)
    if k == "obj":
        return all(type(key) is str and is_json(x) for key, x in v.items())
    return not k.startswith("other") and k != "nothing"


def canon(v):
    """Canonical, type-faithful text of a JSON value (bool vs int vs float kept apart,
    object member order kept)."""
    k = kind(v)
    if k == "arr":
        return "[" + ",".join(canon(x) for x in v) + "]"
    if k == "obj":
        return "{" + ",".join(json.dumps(str(key)) + ("" if type(key) is str else "<%s>" % type(key).__name__) + ":" + canon(x) for key, x in v.items()) + "}"
    if k == "num":
        if isinstance(v, float) and v == int(v) and abs(v) < 1e15:
            return "%d.0" % int(v)
        return repr(v)
    if k == "bool":
        return "true" if v else "false"
    if k == "null":
        return "null"
    if k == "str":
        return json.dumps(v)
    if k == "nothing":
        return "<nothing>"
    return "<%s %r>" % (type(v).__name__, v)


def h(*parts):
    m = hashlib.blake2b(digest_size=8)
    for p in parts:
        m.update(repr(p).encode("utf-8", "surrogatepass"))
        m.update(b"\0")
    return m.hexdigest()


def containers(v, loc=()):
    """Yield (location, container) for every list/dict in v, pre-order."""
    if isinstance(v, dict):
        yield loc, v
        for key, x in v.items():
            yield from containers(x, loc + (key,))
    elif isinstance(v, list):
        yield loc, v
        for i, x in enumerate(v):
            yield from containers(x, loc + (i,))


def nodes(v, loc=()):
    """Yield (location, value) for every node, document order pre-order."""
    yield loc, v
    if isinstance(v, dict):
        for key, x in v.items():
            yield from nodes(x, loc + (key,))
    elif isinstance(v, list):
        for i, x in enumerate(v):
            yield from nodes(x, loc + (i,))


def walk(v, loc):
    for p in loc:
        v = v[p]
    return v


class Snapshot:
    """Deep + identity snapshot of a document: canonical text plus the id of every
    container at every location.  `changed()` reports value and identity drift."""

    def __init__(self, v):
        self.v = v
        self.text = canon(v)
        self.ids = {loc: id(c) for loc, c in containers(v)}
        self._keep = [c for _, c in containers(v)]  # ids stay unique while held

    def changed(self):
        out = []
        if canon(self.v) != self.text:
            out.append("value changed: %s -> %s" % (self.text[:200], canon(self.v)[:200]))
        now = {loc: id(c) for loc, c in containers(self.v)}
        if now != self.ids:
            out.append("container identities changed")
        return out


def depth(v):
    if isinstance(v, dict):
        return 1 + max((depth(x) for x in v.values()), default=0)
    if isinstance(v, list):
        return 1 + max((depth(x) for x in v), default=0)
    return 0


def aliased_containers(*vals):
    """Return True if any list/dict object is reachable by two different routes among vals."""
    seen = set()
    for v in vals:
        for _, c in containers(v):
            if id(c) in seen:
                return True
            seen.add(id(c))
    return False
