"""Token-soup and mutation fuzzing around rendered valid texts (queries, pointers,
relative pointers).  Light mutation (0-2 edits) keeps the accepted share high enough
that the evaluator, not only the rejecting paths, is exercised."""
from __future__ import annotations

import re

VOCAB = [
    "$", "@", "#", "_", "~", "^", "|", "&", "..", ".", "[", "]", "(", ")", "?", "*", ",", ":", "==", "!=", "<>", "<=", ">=", "<", ">",
    "=~", "&&", "||", "!", " in ", " contains ", " and ", " or ", "not ", "true", "false", "null", "nil", "none", "None", "True",
    "undefined", "missing", "'a'", '"b"', "'", '"', "\\", "/", "/a/", "/(/", "/a/i", "/a\\/b/", "/[/", "/a/x", "0", "1", "-1", "01", "-0", "1.5", "1.",
    "1e2", "1E2", "1e400", "1.0e400", "-", "+", "1e-400", "1e-2", "99999999999999999999", "-99999999999999999999", "9007199254740992",
    "length(", "count(", "match(", "search(", "value(", "typeof(", "isinstance(", "is(", "type(", "keys(", "foo(", " ", "\n", "\t",
    "\u00e9", "\U0001f600", "a", "b", "[?", "[*]", "[0]", "[-1]", "[1:2]", "[::-1]", "[::0]", "['a']", "@.a", "$.a", "_.a", "[1e2]", "[-]", "[+1]",
    "[-:]", "[:-]", "1" * 4301, "7" * 400 + ".5", "a{99999999999}", "/a{99999999999}/", "(?a)(?u)a", "'(?a)(?u)a'", "(?i)", "(?x) a", "(?P<n>a)", "\\1", "(?<=a)b", "{1,2}", "{2,1}", "[z-a]", "\\u0041", "\\ud83d", "\\x", "\\8", "\\9", "\\400", "\\777", "\\g", "\\u{41}", "\\N{BULLET}", "'\\", "{", "}", "%", ";", "`", "=", "<=>", "\x00", "\x7f",
]
TOKEN_RE = re.compile(r"""'(?:\\.|[^'\\])*'|"(?:\\.|[^"\\])*"|/(?:\\.|[^/\\])+/[a-z]*|-?\d+(?:\.\d+)?(?:[eE][+-]?\d+)?|[A-Za-z_]\w*\(?|\.\.|==|!=|<>|<=|>=|=~|&&|\|\||\s+|.""", re.S)


def tokens(s):
    return TOKEN_RE.findall(s)


def mutate_once(r, s, seeds):
    k = r.random()
    if not s:
        return r.choice(VOCAB)
    if k < 0.12:
        i = r.randrange(len(s))
        return s[:i] + s[i + 1:]
    if k < 0.2:
        i = r.randrange(len(s))
        return s[:i] + s[i] + s[i:]
    if k < 0.26 and len(s) > 1:
        i = r.randrange(len(s) - 1)
        return s[:i] + s[i + 1] + s[i] + s[i + 2:]
    if k < 0.34:
        i = r.randrange(len(s))
        return s[:i] + r.choice("$@#_~^|&.[]()?*,:=!<>'\"\\/ -+0123456789aeE\n\t") + s[i + 1:]
    toks = tokens(s)
    if k < 0.44 and toks:
        i = r.randrange(len(toks))
        del toks[i]
        return "".join(toks)
    if k < 0.52 and toks:
        i = r.randrange(len(toks))
        toks.insert(i, toks[i])
        return "".join(toks)
    if k < 0.6 and len(toks) > 1:
        i, j = r.randrange(len(toks)), r.randrange(len(toks))
        toks[i], toks[j] = toks[j], toks[i]
        return "".join(toks)
    if k < 0.76 and toks:
        i = r.randrange(len(toks))
        toks[i] = r.choice(VOCAB)
        return "".join(toks)
    if k < 0.86 and toks:
        i = r.randrange(len(toks) + 1)
        toks.insert(i, r.choice(VOCAB))
        return "".join(toks)
    if k < 0.93:
        return s[: r.randrange(len(s) + 1)]
    other = r.choice(seeds) if seeds else s
    return s[: r.randrange(len(s) + 1)] + other[r.randrange(len(other) + 1):]


def mutate(r, s, seeds=()):
    k = r.random()
    n = 0 if k < 0.2 else (1 if k < 0.75 else (2 if k < 0.93 else 3))
    for _ in range(n):
        s = mutate_once(r, s, seeds)
    return s


def soup(r, n=None):
    n = n or r.randint(1, 8)
    return "".join(r.choice(VOCAB) for _ in range(n))
