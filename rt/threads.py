"""Several threads drive the real code at once while sys.monitoring LINE callbacks (tool id 4)
hand the GIL over at random statement starts inside chosen library files - the yield points
the interpreter itself has, only taken much more often.  The caller supplies the per-thread
work; what the threads observed is judged by the caller, not here.

    stats = stress(worker, nthreads=8, files=("patch.py", "pointer.py"), seed=..., prob=0.1)
    worker(wid, rng) is called once in each thread.
    stats = {"yields", "switches", "signature", "timed_out"}
"""
from __future__ import annotations

import random
import sys
import threading
import time

from .jsonval import h

T4 = 4


def stress(worker, *, nthreads, files, seed, prob=0.08, join_timeout=180):
    mon = sys.monitoring
    ring = []
    workers = set()
    rnd = random.Random(seed)
    state = {"yields": 0}
    files = tuple(files)

    def on_line(code, line):
        if threading.get_ident() in workers and code.co_filename.endswith(files):
            if rnd.random() < prob:
                state["yields"] += 1
                ring.append(threading.get_ident())
                time.sleep(0)

    def body(wid, s):
        workers.add(threading.get_ident())
        worker(wid, random.Random(s))

    mon.use_tool_id(T4, "verif-t4")
    mon.register_callback(T4, mon.events.LINE, on_line)
    old = sys.getswitchinterval()
    timed_out = False
    try:
        sys.setswitchinterval(1e-6)
        mon.set_events(T4, mon.events.LINE)
        seeds = random.Random(seed)
        threads = [threading.Thread(target=body, args=(i, seeds.random()), daemon=True) for i in range(nthreads)]
        for t in threads:
            t.start()
        for t in threads:
            t.join(join_timeout)
            timed_out = timed_out or t.is_alive()
    finally:
        mon.set_events(T4, 0)
        mon.register_callback(T4, mon.events.LINE, None)
        mon.free_tool_id(T4)
        sys.setswitchinterval(old)
    switches = sum(1 for a, b in zip(ring, ring[1:]) if a != b)
    return {"yields": state["yields"], "switches": switches, "signature": h(tuple(ring[:400])), "timed_out": timed_out}
