"""Self-tests of the reference models against the RFCs' own example tables
(RFC 9535 sections 2.3-2.6, RFC 6901 section 5, RFC 6902 appendix A, the Relative JSON
Pointer draft's table) and of the mini regex matcher against Python `re` on the common
dialect.  Run by setup_cmd; a failure makes the models untrusted (exit 1)."""
from __future__ import annotations

import random
import re
import sys

from . import gen, ref_jsonpath as ref, ref_pointer as rp, ref_regex, ref_typing
from .jsonval import canon, strict_eq

FAILS = []


def N(n):
    return ["child", [["name", n]]]


def I(i):  # noqa: E743
    return ["child", [["index", i]]]


def W():
    return ["child", [["wild"]]]


def Q(*segs, root="$"):
    return ["q", root, list(segs)]


def sq(*segs, root="@"):
    return ["sq", Q(*segs, root=root)]


def F(expr, typ="child"):
    return [typ, [["filter", expr]]]


def expect(name, q, doc, want):
    got = [v for _, v in ref.eval_query(q, doc)]
    if canon(got) != canon(want):
        FAILS.append("%s: got %s want %s" % (name, canon(got), canon(want)))


def rfc9535():
    d = {"o": {"j j": {"k.k": 3}}, "'": {"@": 2}}
    expect("name1", Q(N("o"), N("j j")), d, [{"k.k": 3}])
    expect("name2", Q(N("o"), N("j j"), N("k.k")), d, [3])
    expect("name3", Q(N("'"), N("@")), d, [2])
    d = {"o": {"j": 1, "k": 2}, "a": [5, 3]}
    expect("wild1", Q(W()), d, [{"j": 1, "k": 2}, [5, 3]])
    expect("wild2", Q(N("o"), W()), d, [1, 2])
    expect("wild3", Q(N("o"), ["child", [["wild"], ["wild"]]]), d, [1, 2, 1, 2])
    expect("wild4", Q(N("a"), W()), d, [5, 3])
    expect("idx1", Q(I(1)), ["a", "b"], ["b"])
    expect("idx2", Q(I(-2)), ["a", "b"], ["a"])
    arr = list("abcdefg")
    S = lambda a, b, c: ["child", [["slice", a, b, c]]]  # noqa: E731
    expect("sl1", Q(S(1, 3, None)), arr, ["b", "c"])
    expect("sl2", Q(S(5, None, None)), arr, ["f", "g"])
    expect("sl3", Q(S(1, 5, 2)), arr, ["b", "d"])
    expect("sl4", Q(S(5, 1, -2)), arr, ["f", "d"])
    expect("sl5", Q(S(None, None, -1)), arr, list("gfedcba"))
    expect("sl6", Q(S(None, None, 0)), arr, [])
    expect("seg1", Q(["child", [["index", 0], ["index", 3]]]), arr, ["a", "d"])
    expect("seg2", Q(["child", [["slice", 0, 2, None], ["index", 5]]]), arr, ["a", "b", "f"])
    expect("seg3", Q(["child", [["index", 0], ["index", 0]]]), arr, ["a", "a"])
    d = {"a": [3, 5, 1, 2, 4, 6, {"b": "j"}, {"b": "k"}, {"b": {}}, {"b": "kilo"}], "o": {"p": 1, "q": 2, "r": 3, "s": 5, "t": {"u": 6}}, "e": "f"}
    a = d["a"]
    expect("f1", Q(N("a"), F(["cmp", "==", sq(N("b")), ["lit", "kilo"]])), d, [{"b": "kilo"}])
    expect("f2", Q(N("a"), F(["paren", ["cmp", "==", sq(N("b")), ["lit", "kilo"]]])), d, [{"b": "kilo"}])
    expect("f3", Q(N("a"), F(["cmp", ">", sq(), ["lit", 3.5]])), d, [5, 4, 6])
    expect("f4", Q(N("a"), F(["test", Q(N("b"), root="@")])), d, a[6:])
    expect("f5", Q(F(["test", Q(W(), root="@")])), d, [a, d["o"]])
    expect("f6", Q(F(["test", Q(F(["test", Q(N("b"), root="@")]), root="@")])), d, [a])
    lt3 = ["filter", ["cmp", "<", sq(), ["lit", 3]]]
    expect("f7", Q(N("o"), ["child", [lt3, lt3]]), d, [1, 2, 1, 2])
    expect("f8", Q(N("a"), F(["or", ["cmp", "<", sq(), ["lit", 2]], ["cmp", "==", sq(N("b")), ["lit", "k"]]])), d, [1, {"b": "k"}])
    expect("f9", Q(N("a"), F(["call", "match", [sq(N("b")), ["lit", "[jk]"]]])), d, [{"b": "j"}, {"b": "k"}])
    expect("f10", Q(N("a"), F(["call", "search", [sq(N("b")), ["lit", "[jk]"]]])), d, [{"b": "j"}, {"b": "k"}, {"b": "kilo"}])
    expect("f11", Q(N("o"), F(["and", ["cmp", ">", sq(), ["lit", 1]], ["cmp", "<", sq(), ["lit", 4]]])), d, [2, 3])
    expect("f12", Q(N("o"), F(["or", ["test", Q(N("u"), root="@")], ["test", Q(N("x"), root="@")]])), d, [{"u": 6}])
    expect("f13", Q(N("a"), F(["cmp", "==", sq(N("b")), sq(N("x"), root="$")])), d, [3, 5, 1, 2, 4, 6])
    expect("f14", Q(N("a"), F(["cmp", "==", sq(), sq()])), d, a)
    # comparison table 2.3.5.2.2
    d = {"obj": {"x": "y"}, "arr": [2, 3]}
    R = lambda *n: sq(*[N(x) for x in n], root="$")  # noqa: E731
    L = lambda v: ["lit", v]  # noqa: E731
    table = [
        (R("absent1"), "==", R("absent2"), True), (R("absent1"), "<=", R("absent2"), True), (R("absent"), "==", L("g"), False), (R("absent1"), "!=", R("absent2"), False),
        (R("absent"), "!=", L("g"), True), (L(1), "<=", L(2), True), (L(1), ">", L(2), False), (L(13), "==", L("13"), False), (L("a"), "<=", L("b"), True), (L("a"), ">", L("b"), False),
        (R("obj"), "==", R("arr"), False), (R("obj"), "!=", R("arr"), True), (R("obj"), "==", R("obj"), True), (R("obj"), "!=", R("obj"), False), (R("arr"), "==", R("arr"), True),
        (R("arr"), "!=", R("arr"), False), (R("obj"), "==", L(17), False), (R("obj"), "!=", L(17), True), (R("obj"), "<=", R("arr"), False), (R("obj"), "<", R("arr"), False),
        (R("obj"), "<=", R("obj"), True), (R("arr"), "<=", R("arr"), True), (L(1), "<=", R("arr"), False), (L(1), ">=", R("arr"), False), (L(1), ">", R("arr"), False), (L(1), "<", R("arr"), False),
        (L(True), "<=", L(True), True), (L(True), ">", L(True), False),
    ]
    for i, (a_, op, b_, want) in enumerate(table):
        got = ref.eval_query(Q(N("z"), F(["cmp", op, a_, b_])), dict(d, z=[0]))
        if bool(got) != want:
            FAILS.append("cmp table row %d: %s" % (i, op))
    d = {"o": {"j": 1, "k": 2}, "a": [5, 3, [{"j": 4}, {"k": 6}]]}
    expect("d1", Q(["desc", [["name", "j"]]]), d, [1, 4])
    expect("d2", Q(["desc", [["index", 0]]]), d, [5, {"j": 4}])
    expect("d3", Q(["desc", [["wild"]]]), d, [d["o"], d["a"], 1, 2, 5, 3, d["a"][2], {"j": 4}, {"k": 6}, 4, 6])
    expect("d4", Q(["desc", [["name", "o"]]]), d, [d["o"]])
    expect("d5", Q(N("o"), ["desc", [["wild"], ["wild"]]]), d, [1, 2, 1, 2])
    expect("d6", Q(N("a"), ["desc", [["index", 0], ["index", 1]]]), d, [5, 3, {"j": 4}, {"k": 6}])
    d = {"a": None, "b": [None], "c": [{}], "null": 1}
    expect("n1", Q(N("a")), d, [None])
    expect("n2", Q(N("a"), I(0)), d, [])
    expect("n3", Q(N("a"), N("d")), d, [])
    expect("n4", Q(N("b"), I(0)), d, [None])
    expect("n5", Q(N("b"), W()), d, [None])
    expect("n6", Q(N("b"), F(["test", Q(root="@")])), d, [None])
    expect("n7", Q(N("b"), F(["cmp", "==", sq(), ["lit", None]])), d, [None])
    expect("n8", Q(N("c"), F(["cmp", "==", sq(N("d")), ["lit", None]])), d, [])
    expect("n9", Q(N("null")), d, [1])
    # functions
    d = [{"authors": [1, 2, 3, 4, 5], "date": "1974-05-11", "c": {"color": "red"}}, {"authors": [1], "date": "1974-06-11", "c": [{"color": "red"}, {"color": "red"}]}]
    expect("fn1", Q(F(["cmp", ">=", ["call", "length", [sq(N("authors"))]], ["lit", 5]])), d, [d[0]])
    expect("fn2", Q(F(["cmp", ">=", ["call", "count", [["nodes", Q(N("authors"), W(), root="@")]]], ["lit", 5]])), d, [d[0]])
    expect("fn3", Q(F(["call", "match", [sq(N("date")), ["lit", "1974-05-.."]]])), d, [d[0]])
    expect("fn4", Q(F(["cmp", "==", ["call", "value", [["nodes", Q(["desc", [["name", "color"]]], root="@")]]], ["lit", "red"]])), d, [d[0]])
    # typing (2.4.3 examples)
    typing_ok = [
        F(["cmp", "==", ["call", "length", [sq()]], ["lit", 3]]), F(["cmp", "==", ["call", "count", [["nodes", Q(W(), root="@")]]], ["lit", 1]]),
        F(["call", "match", [sq(N("a")), ["lit", "a.*"]]]), F(["cmp", "==", ["call", "value", [["nodes", Q(["desc", [["name", "c"]]], root="@")]]], ["lit", 1]]),
    ]
    typing_bad = [
        F(["cmp", "==", ["call", "length", [["nsq", Q(W(), root="@")]]], ["lit", 3]]), F(["cmp", "==", ["call", "count", [["lit", 1]]], ["lit", 1]]),
        F(["cmp", "==", ["call", "match", [sq(N("a")), ["lit", "a"]]], ["lit", True]]), F(["call", "value", [["nodes", Q(N("a"), root="@")]]]),
        F(["call", "length", [sq()]]), F(["cmp", "==", ["nsq", Q(W(), root="@")], ["lit", 1]]),
    ]
    for i, seg in enumerate(typing_ok):
        if ref_typing.errors(Q(seg)):
            FAILS.append("typing_ok %d flagged" % i)
    for i, seg in enumerate(typing_bad):
        if not ref_typing.errors(Q(seg)):
            FAILS.append("typing_bad %d not flagged" % i)


def rfc6901():
    d = {"foo": ["bar", "baz"], "": 0, "a/b": 1, "c%d": 2, "e^f": 3, "g|h": 4, "i\\j": 5, 'k"l': 6, " ": 7, "m~n": 8}
    for text, want in (("", d), ("/foo", ["bar", "baz"]), ("/foo/0", "bar"), ("/", 0), ("/a~1b", 1), ("/c%d", 2), ("/e^f", 3), ("/g|h", 4), ("/i\\j", 5), ('/k"l', 6), ("/ ", 7), ("/m~0n", 8)):
        got = rp.resolve(d, rp.decode(text))
        if canon(got) != canon(want) or rp.encode(rp.decode(text)) != text:
            FAILS.append("6901 %r" % text)
    for text in ("/foo/2", "/foo/-", "/foo/01", "/foo/+1", "/zz", "/foo/0/x", "//x"):
        try:
            rp.resolve(d, rp.decode(text))
            FAILS.append("6901 should not resolve %r" % text)
        except rp.Unresolvable:
            pass


def rfc6902():
    A = [
        ({"foo": "bar"}, [{"op": "add", "path": "/baz", "value": "qux"}], {"baz": "qux", "foo": "bar"}),
        ({"foo": ["bar", "baz"]}, [{"op": "add", "path": "/foo/1", "value": "qux"}], {"foo": ["bar", "qux", "baz"]}),
        ({"baz": "qux", "foo": "bar"}, [{"op": "remove", "path": "/baz"}], {"foo": "bar"}),
        ({"foo": ["bar", "qux", "baz"]}, [{"op": "remove", "path": "/foo/1"}], {"foo": ["bar", "baz"]}),
        ({"baz": "qux", "foo": "bar"}, [{"op": "replace", "path": "/baz", "value": "boo"}], {"baz": "boo", "foo": "bar"}),
        ({"foo": {"bar": "baz", "waldo": "fred"}, "qux": {"corge": "grault"}}, [{"op": "move", "from": "/foo/waldo", "path": "/qux/thud"}], {"foo": {"bar": "baz"}, "qux": {"corge": "grault", "thud": "fred"}}),
        ({"foo": ["all", "grass", "cows", "eat"]}, [{"op": "move", "from": "/foo/1", "path": "/foo/3"}], {"foo": ["all", "cows", "eat", "grass"]}),
        ({"baz": "qux", "foo": ["a", 2, "c"]}, [{"op": "test", "path": "/baz", "value": "qux"}, {"op": "test", "path": "/foo/1", "value": 2}], {"baz": "qux", "foo": ["a", 2, "c"]}),
        ({"baz": "qux"}, [{"op": "test", "path": "/baz", "value": "bar"}], None),
        ({"foo": "bar"}, [{"op": "add", "path": "/child", "value": {"grandchild": {}}}], {"foo": "bar", "child": {"grandchild": {}}}),
        ({"foo": "bar"}, [{"op": "add", "path": "/baz", "value": "qux", "xyz": 123}], {"foo": "bar", "baz": "qux"}),
        ({"foo": "bar"}, [{"op": "add", "path": "/baz/bat", "value": "qux"}], None),
        ({"/": 9, "~1": 10}, [{"op": "test", "path": "/~01", "value": 10}], {"/": 9, "~1": 10}),
        ({"/": 9, "~1": 10}, [{"op": "test", "path": "/~01", "value": "10"}], None),
        ({"foo": ["bar"]}, [{"op": "add", "path": "/foo/-", "value": ["abc", "def"]}], {"foo": ["bar", ["abc", "def"]]}),
        ({"a": [1]}, [{"op": "add", "path": "/a/1", "value": 2}], {"a": [1, 2]}),
        ({"a": [1]}, [{"op": "add", "path": "/a/2", "value": 2}], None),
        ({"a": {"b": 1}}, [{"op": "move", "from": "/a", "path": "/a/b/c"}], None),
        ({"a": [1, 2]}, [{"op": "copy", "from": "/a", "path": "/a/-"}], {"a": [1, 2, [1, 2]]}),
        ({"a": 1}, [{"op": "test", "path": "/a", "value": True}], None),
        ({"a": [1]}, [{"op": "addap", "path": "/a/7", "value": 2}], {"a": [1, 2]}),
        ({"a": 1}, [{"op": "addne", "path": "/a", "value": 2}, {"op": "addne", "path": "/b", "value": 3}], {"a": 1, "b": 3}),
    ]
    for i, (doc, ops, want) in enumerate(A):
        try:
            got = rp.apply_patch(doc, ops)
            if want is None or not strict_eq(got, want):
                FAILS.append("6902 A row %d: got %s" % (i, canon(got)))
        except rp.PatchFail:
            if want is not None:
                FAILS.append("6902 A row %d failed" % i)


def relptr():
    d = {"foo": ["bar", "baz", "biz"], "highly": {"nested": {"objects": True}}}
    rows = [
        (["foo", "1"], 0, 0, [], "baz"), (["foo", "1"], 1, 0, ["0"], "bar"), (["foo", "1"], 0, -1, [], "bar"), (["foo", "1"], 2, 0, ["highly", "nested", "objects"], True),
        (["foo", "1"], 0, 0, "#", "1"), (["foo", "1"], 0, 1, "#", "2"), (["foo", "1"], 1, 0, "#", "foo"),
        (["highly", "nested"], 0, 0, ["objects"], True), (["highly", "nested"], 1, 0, ["nested", "objects"], True), (["highly", "nested"], 2, 0, ["foo", "0"], "bar"),
        (["highly", "nested"], 0, 0, "#", "nested"), (["highly", "nested"], 1, 0, "#", "highly"),
    ]
    for i, (base, steps, off, suf, want) in enumerate(rows):
        toks, marker = rp.rel_apply(base, steps, off, suf)
        got = toks[-1] if marker else rp.resolve(d, toks)
        if got != want:
            FAILS.append("relptr row %d: %r" % (i, got))
    for base, steps, off, suf in ((["a"], 2, 0, []), (["0"], 0, -1, []), (["a"], 1, 0, "#")):
        try:
            rp.rel_apply(base, steps, off, suf)
            FAILS.append("relptr should fail %r" % ((base, steps, off, suf),))
        except rp.RelFail:
            pass


def regex():
    r = random.Random(12345)
    n = 0
    for _ in range(4000):
        pat, wit = gen.gen_regex(r)
        subjects = [wit, wit + "k", "q" + wit, "", wit.upper(), wit[:-1], "zz" + wit + "zz", wit + "\n" + wit]
        for s in subjects:
            for flags in ("", "i", "s", "is"):
                if "\r" in s:
                    continue
                fl = (re.I if "i" in flags else 0) | (re.S if "s" in flags else 0)
                try:
                    want_f = bool(re.fullmatch(pat, s, fl))
                    want_s = bool(re.search(pat, s, fl))
                except re.error:
                    FAILS.append("generated pattern not valid for Python re: %r" % pat)
                    continue
                if "i" in flags and not (pat.isascii() and s.isascii()):
                    continue
                got_f = ref_regex.fullmatch(pat, s, flags)
                got_s = ref_regex.search(pat, s, flags)
                n += 1
                if got_f != want_f or got_s != want_s:
                    FAILS.append("regex %r on %r flags %r: model %s/%s python %s/%s" % (pat, s, flags, got_f, got_s, want_f, want_s))
                    if len(FAILS) > 20:
                        return n
    return n


def main():
    rfc9535()
    rfc6901()
    rfc6902()
    relptr()
    n = regex()
    if FAILS:
        print("MODEL SELF-TEST FAILED (%d)" % len(FAILS))
        for f in FAILS[:20]:
            print("  ", f)
        return 1
    print("reference models agree with the RFC example tables; regex model agrees with re on %d (pattern, subject, flags) triples" % n)
    return 0


if __name__ == "__main__":
    sys.exit(main())
