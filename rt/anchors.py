"""Anchor coverage: did the workload reach the mechanisms a property is anchored in?

properties.jsonl anchors are line ranges of the pinned tree.  `build()` resolves each
range to the qualified names of the functions whose code lies in it (at the pinned
commit), stored in anchors.json; `coverage()` re-locates those functions in the tree
under test, so repairs that move lines do not stale the anchors.
"""
from __future__ import annotations

import json
import os
import re
import subprocess

VERIF = os.path.dirname(os.path.dirname(os.path.abspath(__file__)))
PINNED = "7bbff9b"


def _func_lines(source, filename):
    """qualname -> set of line numbers that can fire LINE events (function bodies only)."""
    out = {}
    top = compile(source, filename, "exec", dont_inherit=True)

    def rec(co, inside_func):
        is_func = co.co_name not in ("<module>",) and not _is_class_body(co)
        if is_func:
            ls = {ln for _, _, ln in co.co_lines() if ln is not None and ln != co.co_firstlineno}
            # decorators / def line excluded; keep body lines
            out.setdefault(co.co_qualname, set()).update(ls)
        for c in co.co_consts:
            if hasattr(c, "co_code"):
                rec(c, inside_func or is_func)

    rec(top, False)
    return out


def _is_class_body(co):
    # class bodies load __name__ and store __module__ first
    return "__module__" in co.co_names and "__qualname__" in co.co_names and co.co_argcount == 0 and co.co_name != "<lambda>" and not (co.co_flags & 0x20) and co.co_varnames == ()


def parse_where(where):
    out = []
    cur = None
    for part in re.split(r"[;,]", where):
        part = part.strip()
        m = re.match(r"(?:(jsonpath/[\w/]+\.py):)?\s*(\d+)(?:-(\d+))?$", part)
        if not m:
            continue
        if m.group(1):
            cur = m.group(1)
        a = int(m.group(2))
        b = int(m.group(3) or a)
        out.append((cur, a, b))
    return out


def build(repo="/repo"):
    res = {}
    cache = {}
    for line in open(os.path.join(VERIF, "properties.jsonl")):
        p = json.loads(line)
        entries = []
        for mech in p["anchors"]["mechanism"]:
            funcs = []
            for fn, a, b in parse_where(mech["where"]):
                if fn not in cache:
                    src = subprocess.run(["git", "-C", repo, "show", "%s:%s" % (PINNED, fn)], capture_output=True, text=True, check=True).stdout
                    cache[fn] = _func_lines(src, fn)
                for qn, ls in cache[fn].items():
                    if any(a <= ln <= b for ln in ls):
                        if [fn, qn] not in funcs:
                            funcs.append([fn, qn])
            entries.append({"where": mech["where"], "name": mech["name"], "functions": funcs})
        res[p["id"]] = entries
    with open(os.path.join(VERIF, "anchors.json"), "w") as f:
        json.dump(res, f, indent=1)
    return res


def coverage(prop, repo, lines_hit):
    path = os.path.join(VERIF, "anchors.json")
    if not os.path.exists(path):
        return {}
    with open(path) as f:
        anchors = json.load(f).get(prop, [])
    cache = {}
    out = {}
    for ent in anchors:
        total = hit = 0
        unhit_funcs = []
        for fn, qn in ent["functions"]:
            if fn not in cache:
                try:
                    with open(os.path.join(repo, fn)) as f:
                        cache[fn] = _func_lines(f.read(), fn)
                except OSError:
                    cache[fn] = {}
            ls = cache[fn].get(qn, set())
            rel = fn[len("jsonpath/"):]
            got = ls & set(lines_hit.get(rel, ()))
            total += len(ls)
            hit += len(got)
            if ls and not got:
                unhit_funcs.append("%s:%s" % (rel, qn))
        out[ent["where"]] = {"functions": len(ent["functions"]), "lines_total": total, "lines_hit": hit, "functions_never_entered": unhit_funcs}
    return out


if __name__ == "__main__":
    r = build()
    for k, v in r.items():
        print(k, sum(len(e["functions"]) for e in v))
