"""Decoding-option history, shared by the pointer- and patch-related checks.

What a pointer text means may depend only on the text and on the decoding options of THIS
call (`unicode_escape`, `uri_decode`).  The workload runs every option setting over a set of
texts with %XX and \\uXXXX sequences, in several orders, inside one process and through every
route that parses pointer text, and compares with rt.ref_pointer.decode_options.  It also applies
patches built under each setting to a document in which the different readings of a text name
different members, and compares the result with the reference patch model."""
from __future__ import annotations

import copy
import itertools

from . import impl, ref_pointer as rp
from .jsonval import canon, strict_eq


def document_for(texts):
    """An object with one member per distinct reading of every text (first token only)."""
    doc = {}
    for t in texts:
        for ue, ud in rp.FLAG_SETTINGS:
            toks = rp.decode_options(t, ue, ud)
            cur = doc
            for tok in toks[:-1]:
                cur = cur.setdefault(tok, {}) if isinstance(cur, dict) else cur
            if isinstance(cur, dict) and toks:
                cur.setdefault(toks[-1], "value of %s" % "/".join(toks))
    return doc


def run(ctx, max_orders=6):
    import jsonpath
    from jsonpath import JSONPointer

    r = ctx.rng
    orders = list(itertools.permutations(rp.FLAG_SETTINGS))
    r.shuffle(orders)
    doc = document_for(rp.FLAG_TEXTS)
    n = 0
    for order in orders[:max_orders]:
        for text in rp.FLAG_TEXTS:
            for ue, ud in order:
                ctx.evaluation()
                n += 1
                want = rp.decode_options(text, ue, ud)
                case = {"flags": True, "text": text, "unicode_escape": ue, "uri_decode": ud}
                routes = (
                    ("JSONPointer()", lambda: JSONPointer(text, unicode_escape=ue, uri_decode=ud)),
                    ("JSONPatch builder", lambda: jsonpath.JSONPatch(unicode_escape=ue, uri_decode=ud).test(text, 1).ops[0].path),
                    ("JSONPatch document", lambda: jsonpath.JSONPatch([{"op": "test", "path": text, "value": 1}], unicode_escape=ue, uri_decode=ud).ops[0].path),
                    ("JSONPatch document from", lambda: jsonpath.JSONPatch([{"op": "copy", "from": text, "path": "/zz"}], unicode_escape=ue, uri_decode=ud).ops[0].source),
                    ("RelativeJSONPointer suffix", lambda: JSONPointer("/q").to("1" + text, unicode_escape=ue, uri_decode=ud)),
                    ("RelativeJSONPointer()", lambda: jsonpath.RelativeJSONPointer("1" + text, unicode_escape=ue, uri_decode=ud).to(JSONPointer("/q"))),
                    ("pointer.to(relative text)", lambda: JSONPointer("").to("0" + text, unicode_escape=ue, uri_decode=ud)),
                )
                for route, fn in routes:
                    o = impl.call(fn)
                    if not o.ok:
                        ctx.violation("decoding-option-route-raised:%s:%s" % (route, type(o.exc).__name__), case, {"text": text, "route": route, "error": o.desc()})
                        return
                    if str(o.value) != rp.encode(want):
                        ctx.violation("pointer-text-read-with-another-call's-decoding-options:%s" % route, case, {"text": text, "unicode_escape": ue, "uri_decode": ud, "route": route, "got": str(o.value), "expected": rp.encode(want)})
                        return
                    ctx.cell("decoding_option_routes", route)
                # effects: resolve and patch the member this reading names, and only that one
                want_ptr = rp.encode(want)
                res = impl.call(lambda: jsonpath.pointer.resolve(text, copy.deepcopy(doc), unicode_escape=ue, uri_decode=ud))
                try:
                    wv = rp.resolve(doc, want)
                except rp.Unresolvable:
                    wv = None
                if wv is not None and (not res.ok or canon(res.value) != canon(wv)):
                    ctx.violation("pointer-text-resolves-under-another-call's-decoding-options", case, {"text": text, "unicode_escape": ue, "uri_decode": ud, "got": res.desc() if not res.ok else canon(res.value), "expected": canon(wv)})
                    return
                if wv is not None:
                    ops = [{"op": "test", "path": text, "value": wv}, {"op": "replace", "path": text, "value": "R"}, {"op": "copy", "from": text, "path": "/copied"}]
                    model_ops = [dict(op, **{k: want_ptr for k in ("path", "from") if k in op and op[k] == text}) for op in ops]
                    wantdoc = rp.apply_patch(doc, model_ops)
                    for pname, build in (("document form", lambda: jsonpath.JSONPatch(copy.deepcopy(ops), unicode_escape=ue, uri_decode=ud)),
                                         ("builder", lambda: jsonpath.JSONPatch(unicode_escape=ue, uri_decode=ud).test(text, wv).replace(text, "R").copy(text, "/copied")),
                                         ("patch.apply()", None)):
                        if build is None:
                            got = impl.call(lambda: jsonpath.patch.apply(copy.deepcopy(ops), copy.deepcopy(doc), unicode_escape=ue, uri_decode=ud))
                        else:
                            got = impl.call(lambda: build().apply(copy.deepcopy(doc)))
                        if not got.ok or not strict_eq(got.value, wantdoc):
                            ctx.violation("patch-edits-under-another-call's-decoding-options:%s" % pname, case, {"text": text, "unicode_escape": ue, "uri_decode": ud, "form": pname, "got": got.desc() if not got.ok else canon(got.value)[:300], "expected": canon(wantdoc)[:300]})
                            return
                    ctx.count("decoding_option_patch_applications")
    ctx.bulk(n)
    ctx.count("decoding_option_cases", n)
