"""Mini matcher for the dialect on which I-Regexp (RFC 9485) and Python `re` agree.

Supported: alternation, concatenation, groups, `* + ? {n} {n,} {n,m}`, `.`,
literal characters, backslash-escaped metacharacters and \\n \\r \\t, bracket classes
with ranges and negation.  Anything else raises Unsupported (the generators never
produce it).  `.` excludes LF and CR unless the `s` flag is given (generators never
put LF/CR in a subject when the pattern has a dot without `s`, where the dialects
differ on CR).
"""
from __future__ import annotations

META = set(".*+?()[]{}|\\^$-")
ESC = {"n": "\n", "r": "\r", "t": "\t"}


class Unsupported(Exception):
    pass


class _P:
    def __init__(self, s):
        self.s = s
        self.i = 0

    def peek(self):
        return self.s[self.i] if self.i < len(self.s) else ""

    def take(self):
        c = self.peek()
        if not c:
            raise Unsupported("unexpected end")
        self.i += 1
        return c


def _parse_alt(p):
    branches = [_parse_seq(p)]
    while p.peek() == "|":
        p.take()
        branches.append(_parse_seq(p))
    return ("alt", branches) if len(branches) > 1 else branches[0]


def _parse_seq(p):
    items = []
    while p.peek() and p.peek() not in "|)":
        atom = _parse_atom(p)
        c = p.peek()
        if c and c in "*+?":
            p.take()
            lo, hi = {"*": (0, None), "+": (1, None), "?": (0, 1)}[c]
            atom = ("rep", atom, lo, hi)
        elif c == "{":
            p.take()
            num = ""
            while p.peek().isdigit():
                num += p.take()
            if not num:
                raise Unsupported("bad quantifier")
            lo = int(num)
            hi = lo
            if p.peek() == ",":
                p.take()
                num = ""
                while p.peek().isdigit():
                    num += p.take()
                hi = int(num) if num else None
            if p.take() != "}":
                raise Unsupported("bad quantifier")
            atom = ("rep", atom, lo, hi)
        items.append(atom)
    return ("seq", items)


def _parse_escape(p):
    c = p.take()
    if c in ESC:
        return ESC[c]
    if c in META:
        return c
    raise Unsupported("escape \\" + c)


def _parse_atom(p):
    c = p.take()
    if c == "(":
        inner = _parse_alt(p)
        if p.take() != ")":
            raise Unsupported("unbalanced")
        return inner
    if c == ".":
        return ("dot",)
    if c == "\\":
        return ("chr", _parse_escape(p))
    if c == "[":
        neg = False
        if p.peek() == "^":
            p.take()
            neg = True
        ranges = []
        first = True
        while True:
            c = p.take()
            if c == "]" and not first:
                break
            if c == "]" or c == "[":
                raise Unsupported("bracket inside class")
            first = False
            lo = _parse_escape(p) if c == "\\" else c
            if p.peek() == "-" and p.s[p.i + 1 : p.i + 2] not in ("]", ""):
                p.take()
                c2 = p.take()
                hi = _parse_escape(p) if c2 == "\\" else c2
                if c2 in "[]":
                    raise Unsupported("bracket inside class")
                if hi < lo:
                    raise Unsupported("bad range")
                ranges.append((lo, hi))
            else:
                ranges.append((lo, lo))
        return ("cls", neg, ranges)
    if c in META and c != "-":
        raise Unsupported("metachar " + c)
    return ("chr", c)


def compile(pattern):
    p = _P(pattern)
    tree = _parse_alt(p)
    if p.i != len(pattern):
        raise Unsupported("trailing " + pattern[p.i :])
    return tree


def _ends(node, s, i, fl):
    """Yield every end position of a match of node starting at i."""
    t = node[0]
    if t == "chr":
        if i < len(s) and (s[i] == node[1] or ("i" in fl and s[i].lower() == node[1].lower())):
            yield i + 1
    elif t == "dot":
        if i < len(s) and ("s" in fl or s[i] not in "\n\r"):
            yield i + 1
    elif t == "cls":
        if i < len(s):
            ch = s[i]
            cands = {ch, ch.lower(), ch.upper()} if "i" in fl else {ch}
            hit = any(lo <= c <= hi for c in cands for lo, hi in node[2])
            if hit != node[1]:
                yield i + 1
    elif t == "seq":
        def go(k, pos):
            if k == len(node[1]):
                yield pos
                return
            for e in _ends(node[1][k], s, pos, fl):
                yield from go(k + 1, e)
        yield from go(0, i)
    elif t == "alt":
        for b in node[1]:
            yield from _ends(b, s, i, fl)
    elif t == "rep":
        inner, lo, hi = node[1], node[2], node[3]

        def rep(count, pos, seen):
            if count >= lo:
                yield pos
            if hi is not None and count >= hi:
                return
            for e in _ends(inner, s, pos, fl):
                if e == pos and count >= lo:
                    continue  # empty iteration adds nothing
                if (count + 1, e) in seen:
                    continue
                seen.add((count + 1, e))
                yield from rep(count + 1, e, seen)
        yield from rep(0, i, set())
    else:
        raise ValueError(node)


def fullmatch(pattern, s, flags=""):
    tree = compile(pattern)
    return any(e == len(s) for e in _ends(tree, s, 0, flags))


def search(pattern, s, flags=""):
    tree = compile(pattern)
    for i in range(len(s) + 1):
        for _ in _ends(tree, s, i, flags):
            return True
    return False
