"""Reference evaluator for RFC 9535 over query ASTs (never parses query text).

AST (JSON-native lists so a case replays from its JSON record):
  query      ["q", root, segs]            root: "$" | "^" (fake root) | "@" | "_"
  segment    ["child"|"desc", [selector…]]
  selector   ["name", s] ["index", i] ["slice", a, b, c] ["wild"] ["filter", expr]
             ["keys"]                                   (non-standard keys selector)
  expr       ["or",a,b] ["and",a,b] ["not",a] ["paren",a] ["test", query]
             ["cmp", op, L, R]  ["call", name, args]
  comparable ["lit", v] ["sq", query] ["call", name, args]
             ["key"] ["undef"] ["list",[v…]] ["regex", pattern, flags]   (extensions)
  call arg   ["nodes", query] for a NodesType parameter, otherwise a comparable

Returned nodelists are lists of (location tuple, value).  Documented departures of
python-jsonpath that the properties state are built in: an index selector applied
to an object selects the member named by the index's decimal spelling; object
members are visited in insertion order.
"""
from __future__ import annotations

from . import ref_regex
from .jsonval import NOTHING, kind, strict_eq, strict_lt

KEYS_PREFIX = "~"


def children(v):
    if isinstance(v, dict):
        return list(v.items())
    if isinstance(v, list):
        return list(enumerate(v))
    return []


def descend(loc, v):
    yield loc, v
    for k, c in children(v):
        yield from descend(loc + (k,), c)


def slice_indices(n, a, b, c):
    step = 1 if c is None else c
    if step == 0:
        return []

    def norm(i):
        return i if i >= 0 else n + i

    out = []
    if step > 0:
        s = 0 if a is None else a
        e = n if b is None else b
        lo = min(max(norm(s), 0), n)
        hi = min(max(norm(e), 0), n)
        i = lo
        while i < hi:
            out.append(i)
            i += step
    else:
        s = n - 1 if a is None else a
        e = -n - 1 if b is None else b
        hi = min(max(norm(s), -1), n - 1)
        lo = min(max(norm(e), -1), n - 1)
        i = hi
        while lo < i:
            out.append(i)
            i += step
    return out


def descend_bfs(loc, v):
    level = [(loc, v)]
    while level:
        nxt = []
        for l, x in level:
            yield l, x
            for k, c in children(x):
                nxt.append((l + (k,), c))
        level = nxt


class Ctx:
    __slots__ = ("root", "extra", "keys_prefix", "order")

    def __init__(self, root, extra=None, keys_prefix=KEYS_PREFIX, order="pre"):
        self.root = root
        self.extra = extra if extra is not None else {}
        self.keys_prefix = keys_prefix
        self.order = order


def apply_sel(sel, loc, v, ctx):
    t = sel[0]
    if t == "name":
        if isinstance(v, dict) and sel[1] in v:
            yield loc + (sel[1],), v[sel[1]]
    elif t == "index":
        i = sel[1]
        if isinstance(v, list):
            j = i if i >= 0 else len(v) + i
            if 0 <= j < len(v):
                yield loc + (j,), v[j]
        elif isinstance(v, dict) and str(i) in v:  # documented departure
            yield loc + (str(i),), v[str(i)]
    elif t == "slice":
        if isinstance(v, list):
            for i in slice_indices(len(v), sel[1], sel[2], sel[3]):
                yield loc + (i,), v[i]
    elif t == "wild":
        for k, c in children(v):
            yield loc + (k,), c
    elif t == "filter":
        for k, c in children(v):
            if truth(sel[1], c, k, ctx):
                yield loc + (k,), c
    elif t == "keys":
        if isinstance(v, dict):
            for k in v:
                yield loc + (ctx.keys_prefix + k,), k
    else:
        raise ValueError(sel)


def eval_segs(segs, loc, v, ctx):
    nodes = [(loc, v)]
    for typ, sels in segs:
        out = []
        for l, x in nodes:
            targets = (descend_bfs(l, x) if ctx.order == "bfs" else descend(l, x)) if typ == "desc" else [(l, x)]
            for dl, dx in targets:
                for s in sels:
                    out.extend(apply_sel(s, dl, dx, ctx))
        nodes = out
    return nodes


def eval_query(q, doc, extra=None, keys_prefix=KEYS_PREFIX, order="pre"):
    """Top-level query: root is "$" or "^"."""
    ctx = Ctx(doc, extra, keys_prefix, order)
    base = [doc] if q[1] == "^" else doc
    return eval_segs(q[2], (), base, ctx)


def q_nodes(q, cur, ctx):
    r = q[1]
    if r == "@":
        base = cur
    elif r == "$":
        base = ctx.root
    elif r == "^":
        base = [ctx.root]
    elif r == "_":
        base = ctx.extra
    else:
        raise ValueError(q)
    return eval_segs(q[2], (), base, ctx)


def call(e, cur, key, ctx):
    name, args = e[1], e[2]
    if name == "count":
        return len(q_nodes(args[0][1], cur, ctx))
    if name == "value":
        ns = q_nodes(args[0][1], cur, ctx)
        return ns[0][1] if len(ns) == 1 else NOTHING
    if name == "length":
        v = val(args[0], cur, key, ctx)
        return len(v) if isinstance(v, (str, list, dict)) else NOTHING
    if name in ("match", "search"):
        s, p = val(args[0], cur, key, ctx), val(args[1], cur, key, ctx)
        if not isinstance(s, str) or not isinstance(p, str):
            return False
        return ref_regex.fullmatch(p, s) if name == "match" else ref_regex.search(p, s)
    raise ValueError(e)


def val(e, cur, key, ctx):
    t = e[0]
    if t == "lit":
        return e[1]
    if t == "sq":
        ns = q_nodes(e[1], cur, ctx)
        return ns[0][1] if ns else NOTHING
    if t == "call":
        return call(e, cur, key, ctx)
    if t == "key":
        return key
    if t == "undef":
        return NOTHING
    if t == "list":
        return list(e[1])
    raise ValueError(e)


def compare(op, a, b):
    if op == "==":
        return strict_eq(a, b)
    if op in ("!=", "<>"):
        return not strict_eq(a, b)
    if op == "<":
        return strict_lt(a, b)
    if op == ">":
        return strict_lt(b, a)
    if op == "<=":
        return strict_lt(a, b) or strict_eq(a, b)
    if op == ">=":
        return strict_lt(b, a) or strict_eq(a, b)
    if op == "in":
        return member(a, b)
    if op == "contains":
        return member(b, a)
    raise ValueError(op)


def member(x, coll):
    """Documented `in`/`contains`: arrays by element equality, strings by substring,
    objects by member name."""
    if x is NOTHING:
        return False
    if isinstance(coll, list):
        return any(strict_eq(x, y) for y in coll)
    if isinstance(coll, str):
        return isinstance(x, str) and x in coll
    if isinstance(coll, dict):
        return isinstance(x, str) and x in coll
    return False


def truth(e, cur, key, ctx):
    t = e[0]
    if t == "or":
        return truth(e[1], cur, key, ctx) or truth(e[2], cur, key, ctx)
    if t == "and":
        return truth(e[1], cur, key, ctx) and truth(e[2], cur, key, ctx)
    if t == "not":
        return not truth(e[1], cur, key, ctx)
    if t == "paren":
        return truth(e[1], cur, key, ctx)
    if t == "test":
        return len(q_nodes(e[1], cur, ctx)) > 0
    if t == "cmp":
        op = e[1]
        if op == "=~":
            s = val(e[2], cur, key, ctx)
            if not isinstance(s, str):
                return False
            return ref_regex.fullmatch(e[3][1], s, flags=e[3][2])
        return compare(op, val(e[2], cur, key, ctx), val(e[3], cur, key, ctx))
    if t == "call":
        return bool(call(e, cur, key, ctx))
    raise ValueError(e)


# --- structural helpers on ASTs -------------------------------------------------

def is_singular(q):
    return q[1] in ("$", "@") and all(
        typ == "child" and len(sels) == 1 and sels[0][0] in ("name", "index") for typ, sels in q[2]
    )


def walk_exprs(q):
    """Yield every filter expression node inside a query AST."""
    for _typ, sels in q[2]:
        for s in sels:
            if s[0] == "filter":
                yield from _walk_expr(s[1])


def _walk_expr(e):
    yield e
    t = e[0]
    if t in ("or", "and"):
        yield from _walk_expr(e[1])
        yield from _walk_expr(e[2])
    elif t in ("not", "paren"):
        yield from _walk_expr(e[1])
    elif t == "test":
        yield from walk_exprs(e[1])
    elif t == "cmp":
        for side in (e[2], e[3]):
            yield from _walk_expr(side)
    elif t == "call":
        for a in e[2]:
            if a[0] == "nodes":
                yield from walk_exprs(a[1])
            else:
                yield from _walk_expr(a)
    elif t == "sq":
        yield from walk_exprs(e[1])


def selector_kinds(q):
    out = set()
    for typ, sels in q[2]:
        out.add(typ)
        for s in sels:
            out.add(s[0])
            if s[0] == "filter":
                for e in _walk_expr(s[1]):
                    if e[0] in ("test", "sq"):
                        out |= selector_kinds(e[1])
                    if e[0] == "call":
                        for a in e[2]:
                            if a[0] == "nodes":
                                out |= selector_kinds(a[1])
    return out
