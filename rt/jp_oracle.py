"""Shared oracle: one (query text, document) execution of the real library against the
reference nodelist, through finditer / findall / compile().findall."""
from __future__ import annotations

from . import hooks, impl, ref_jsonpath as ref, ref_regex
from .jsonval import canon, h


def check_query_case(ctx, ast, doc, text, cls, *, extra=None, env=None, nontrivial=None, keys_prefix="~", sample_p=0.002, model=None, impl_doc=None):
    """impl_doc: the same JSON value built from other Mapping/Sequence types; the model runs on
    `doc`, the library on `impl_doc`, and nodes are compared by location and plain value."""
    import jsonpath

    env = env or jsonpath.DEFAULT_ENV
    ctx.evaluation()
    if model is None:
        try:
            model = ref.eval_query(ast, doc, extra=extra, keys_prefix=keys_prefix)
        except ref_regex.Unsupported:
            # a pattern taken from the document lies outside the I-Regexp / re common
            # dialect: the property does not cover it
            ctx.count("regex_outside_common_dialect_skipped")
            return True
    case = {"class": cls, "ast": ast, "doc": doc, "text": text}
    if extra is not None:
        case["extra"] = extra
    kinds = "+".join(sorted(ref.selector_kinds(ast)))
    nt = bool(model) if nontrivial is None else nontrivial
    ctx.case(h(text, canon(doc), canon(extra) if extra is not None else ""), nontrivial=nt)
    hooks.STATE.h2_violations.clear()
    kw = {"filter_context": extra} if extra is not None else {}
    comp = impl.call(env.compile, text)
    if not comp.ok:
        ctx.violation("legal-spelling-rejected:%s:%s" % (type(comp.exc).__name__, cls), case, {"error": comp.desc(), "text": text})
        return False
    target = doc if impl_doc is None else impl_doc
    it = impl.call(lambda: impl.match_records(env.finditer(text, target, **kw)))
    if it.ok and impl_doc is not None:
        from .gen import plain

        it.value = [(p_, plain(o_), path_) for p_, o_, path_ in it.value]
        model = [(loc, _Val(v)) for loc, v in model]
    if not it.ok:
        ctx.violation("evaluation-raised:%s:%s" % (type(it.exc).__name__, it.site), case, {"error": it.desc(), "text": text})
        return False
    diff = impl.nodes_equal(it.value, model)
    if diff:
        alt = ref.eval_query(ast, doc, extra=extra, keys_prefix=keys_prefix, order="bfs") if "desc" in kinds else None
        if alt is not None and impl.nodes_equal(it.value, alt) is None:
            ctx.count("alt_order_accepted")
            model = alt
        else:
            what = diff.split(" ")[0] + ("" if not diff.startswith("node") else "-" + diff.split(" ")[2])
            ctx.violation("nodelist-differs:%s:%s" % (what, cls), case,
                          {"text": text, "diff": diff, "impl": impl.brief_impl(it.value), "model": impl.brief(model)})
            return False
    if impl_doc is not None:
        model = [(loc, v.v) for loc, v in model]
        fa = impl.call(lambda: [__import__("rt.gen", fromlist=["plain"]).plain(x) for x in env.findall(text, target, **kw)])
        if not fa.ok or impl.values_equal(fa.value, model):
            ctx.violation("findall-differs:%s" % cls, case, {"text": text, "diff": fa.desc() if not fa.ok else impl.values_equal(fa.value, model)})
            return False
        ctx.count("cases_on_other_container_types")
        return True
    fa = impl.call(env.findall, text, doc, **kw)
    if not fa.ok or impl.values_equal(fa.value, model):
        ctx.violation("findall-differs:%s" % cls, case, {"text": text, "diff": fa.desc() if not fa.ok else impl.values_equal(fa.value, model)})
        return False
    cf = impl.call(lambda: comp.value.findall(doc, **kw))
    if not cf.ok or impl.values_equal(cf.value, model):
        ctx.violation("compiled-findall-differs:%s" % cls, case, {"text": text, "diff": cf.desc() if not cf.ok else impl.values_equal(cf.value, model)})
        return False
    if hooks.STATE.h2_violations:
        ctx.violation("H2-local-location-invariant:%s" % cls, case, {"text": text, "h2": list(hooks.STATE.h2_violations)})
        return False
    if isinstance(doc, (dict, list)) and ctx.rng.random() < 0.06:
        # the same document as JSON text, as a text stream and as a byte stream in some Unicode encoding; and through
        # the lazy entry points with the stream closed as soon as the call has returned
        import io
        import json

        from checks.c08 import STREAM_FORMS, stream_of

        try:
            roundtrips = impl.nodes_equal([(tuple(loc), v, "") for loc, v in ref.eval_query(ast, json.loads(json.dumps(doc)), extra=extra, keys_prefix=keys_prefix)], [(loc, _Val(v)) for loc, v in model]) is None
        except (TypeError, ValueError, ref_regex.Unsupported):
            roundtrips = False
        if roundtrips:
            form = ctx.rng.choice(STREAM_FORMS)
            raw = ctx.rng.random() < 0.5
            for how in ("findall", "finditer then close", "query then close"):
                def run_():
                    st = stream_of(doc, form, raw)
                    if how == "findall":
                        return [canon(v) for v in env.findall(text, st, **kw)]
                    res = env.finditer(text, st, **kw) if how.startswith("finditer") else env.query(text, st, **kw)
                    if hasattr(st, "close"):
                        st.close()
                    return [canon(m.obj) for m in res]
                o = impl.call(run_)
                ctx.count("stream_document_evaluations")
                if not o.ok and isinstance(o.exc, (UnicodeEncodeError,)):
                    break
                if not o.ok or o.value != [canon(v) for _loc, v in model]:
                    ctx.violation("document-as-a-stream-evaluates-differently:%s" % how.split()[0], case, {"text": text, "form": form, "raw_non_ascii": raw, "how": how, "got": o.desc() if not o.ok else repr(o.value)[:300], "model": repr([canon(v) for _l, v in model])[:300]})
                    return False
    if extra is not None and isinstance(extra, dict) and ctx.rng.random() < 0.2:
        # the same filter context as a lazily answering Mapping (item access and `in` agree, iteration lists only some
        # names; nested objects too), as a ChainMap and as a read-only proxy: what `_` reads must not change
        import collections
        import types

        for cname, mk in ((("lazy mapping", lambda: LazyMapping(extra)),) if _ctx_names_only(ast) else ()) + (("ChainMap", lambda: collections.ChainMap({}, extra)), ("MappingProxyType", lambda: types.MappingProxyType(extra)),):
            alt_ctx = impl.call(lambda: impl.match_records(env.finditer(text, doc, filter_context=mk())))
            ctx.count("filter_contexts_of_other_mapping_types")
            if not alt_ctx.ok or [(p_, canon(_plain(o_)), q_) for p_, o_, q_ in alt_ctx.value] != [(p_, canon(_plain(o_)), q_) for p_, o_, q_ in it.value]:
                ctx.violation("filter-context-held-in-another-mapping-type-reads-differently:%s" % cname, case,
                              {"text": text, "context_type": cname, "got": alt_ctx.desc() if not alt_ctx.ok else impl.brief_impl([(p_, _plain(o_), q_) for p_, o_, q_ in alt_ctx.value]), "with_dict": impl.brief_impl(it.value)})
                return False
    if model:
        ctx.count("cases_with_matches")
    if len(ctx.samples) < 2 or ctx.rng.random() < sample_p:
        ctx.sample({"text": text, "doc": canon(doc)[:200], "nodelist": impl.brief(model)[:4], "class": cls})
    return True


def check_interleaved(ctx, ast, text, runs, cls, *, env=None, keys_prefix="~"):
    """ONE compiled query evaluated lazily over several (document, filter context) pairs at once: the iterators are
    advanced in turn (round robin, then in a seeded random order), and through asyncio tasks over lazily loaded
    containers; each must list exactly what the model lists for ITS document and context.  `runs` = [(doc, extra)]."""
    import asyncio
    import random

    import jsonpath

    env = env or jsonpath.DEFAULT_ENV
    comp = impl.call(env.compile, text)
    if not comp.ok:
        return True
    models = []
    for doc, extra in runs:
        try:
            models.append(ref.eval_query(ast, doc, extra=extra, keys_prefix=keys_prefix))
        except ref_regex.Unsupported:
            return True
    case = {"class": cls, "interleaved": True, "ast": ast, "text": text, "runs": [[d, e] for d, e in runs]}
    rnd = random.Random(ctx.rng.random())
    for order in ("round-robin", "random"):
        ctx.evaluation()
        its = [iter(comp.value.finditer(d, **({"filter_context": e} if e is not None else {}))) for d, e in runs]
        got = [[] for _ in runs]
        live = list(range(len(runs)))
        err = None
        while live and err is None:
            seq = list(live) if order == "round-robin" else [rnd.choice(live)]
            for i in seq:
                try:
                    m = next(its[i], None)
                except Exception as e:  # noqa: BLE001
                    err = "%s: %s" % (type(e).__name__, e)
                    break
                if m is None:
                    live.remove(i)
                else:
                    got[i].append((tuple(m.parts), m.obj, m.path))
        ctx.count("interleaved_lazy_evaluations", len(runs))
        for i, g in enumerate(got):
            diff = err or impl.nodes_equal(g, models[i])
            if diff:
                alt = ref.eval_query(ast, runs[i][0], extra=runs[i][1], keys_prefix=keys_prefix, order="bfs")
                if err is None and impl.nodes_equal(g, alt) is None:
                    continue
                ctx.violation("interleaved-evaluations-of-one-compiled-query-differ-from-the-model:%s" % cls, case, {"text": text, "order": order, "evaluation": i, "diff": diff, "impl": impl.brief_impl(g), "model": impl.brief(models[i])})
                return False
    # the same from threads: every (document, context) pair in a thread of its own, all evaluating the one compiled object
    # at once, with yields injected at statement starts inside the evaluator
    if len(runs) >= 2 and rnd.random() < 0.35:
        from . import threads

        results = [None] * len(runs)

        def worker(wid, _rng):
            d, e = runs[wid]
            out = []
            try:
                for _rep in range(3):
                    out.append([(tuple(m.parts), m.obj, m.path) for m in comp.value.finditer(d, **({"filter_context": e} if e is not None else {}))])
            except Exception as ex:  # noqa: BLE001
                out.append("%s: %s" % (type(ex).__name__, ex))
            results[wid] = out
        st = threads.stress(worker, nthreads=len(runs), files=("selectors.py", "filter.py", "path.py", "env.py", "match.py", "count.py", "length.py", "value.py", "search.py"), seed=rnd.random(), prob=0.15, join_timeout=120)
        ctx.count("threaded_evaluations_of_one_compiled_query", 3 * len(runs))
        ctx.count("threaded_evaluations_injected_yields", st["yields"])
        if st["timed_out"]:
            ctx.notes.append("threaded evaluation timed out (inconclusive)")
        else:
            for i, outs in enumerate(results):
                for g in outs or []:
                    diff = g if isinstance(g, str) else impl.nodes_equal(g, models[i])
                    if diff:
                        alt = ref.eval_query(ast, runs[i][0], extra=runs[i][1], keys_prefix=keys_prefix, order="bfs")
                        if not isinstance(g, str) and impl.nodes_equal(g, alt) is None:
                            continue
                        ctx.violation("threaded-evaluations-of-one-compiled-query-differ-from-the-model:%s" % cls, case, {"text": text, "evaluation": i, "diff": diff, "impl": g if isinstance(g, str) else impl.brief_impl(g), "model": impl.brief(models[i])})
                        return False
    # the same through the async API, gathered, over containers whose getters yield
    from checks.c08 import Plan, unwrap, wrap

    async def one(d, e):
        plan = Plan({}, random.Random(rnd.random()), None)
        it = await comp.value.finditer_async(wrap(d, plan), **({"filter_context": e} if e is not None else {}))
        return [(tuple(m.parts), canon(unwrap(m.obj))) async for m in it]

    async def all_():
        return await asyncio.gather(*[one(d, e) for d, e in runs])
    ga = impl.call(lambda: asyncio.run(all_()))
    ctx.count("gathered_async_evaluations", len(runs))
    for i in range(len(runs)):
        # (the lazily loaded containers are not dicts/lists: queries that compare or search whole containers see them
        # differently, so the reference here is the same compiled query run alone, synchronously, over such containers)
        d_, e_ = runs[i]
        solo = impl.call(lambda: [(tuple(m.parts), canon(unwrap(m.obj))) for m in env.compile(text).finditer(wrap(d_, Plan({}, None, None)), **({"filter_context": e_} if e_ is not None else {}))])
        want = sorted(solo.value) if solo.ok else None
        if want is None:
            continue
        if not ga.ok or sorted(ga.value[i]) != want:
            ctx.violation("gathered-async-evaluations-of-one-compiled-query-differ-from-the-model:%s" % cls, case, {"text": text, "evaluation": i, "got": ga.desc() if not ga.ok else repr(ga.value[i])[:300], "model": repr(want)[:300]})
            return False
    return True


def check_after_incomplete_passes(ctx, ast, text, doc, extra, cls, *, env=None, keys_prefix="~", pool=None):
    """ONE compiled query, ONE document object and ONE (non-empty) filter-context object across several calls: a pass
    left incomplete (match(), an abandoned iterator, a consumer that stops after one result), then the document
    updated in place, then full evaluations - which must give what the model gives for the document as it is NOW."""
    import copy

    import jsonpath

    env = env or jsonpath.DEFAULT_ENV
    comp = impl.call(env.compile, text)
    if not comp.ok or not isinstance(doc, (dict, list)):
        return True
    d = copy.deepcopy(doc)
    live_ctx = copy.deepcopy(extra) if extra else {"not-read-by-the-query": 1}
    kw = {"filter_context": live_ctx}
    case = {"class": cls, "in_place": True, "ast": ast, "text": text, "doc": doc, "extra": extra}
    r = ctx.rng
    for step in range(4):
        # an incomplete pass of some kind
        how = r.choice(["match", "abandoned-iterator", "first-of-query", "none", "exception-in-consumer"])
        try:
            if how == "match":
                comp.value.match(d, **kw)
            elif how == "abandoned-iterator":
                it = iter(comp.value.finditer(d, **kw))
                next(it, None)
                del it
            elif how == "first-of-query":
                comp.value.query(d, **kw).first_one()
            elif how == "exception-in-consumer":
                for _m in comp.value.finditer(d, **kw):
                    raise KeyError("consumer stops here")
        except Exception:  # noqa: BLE001
            pass
        # the caller updates the document in place (values the filters read, and the shape)
        _mutate(r, d, pool)
        try:
            model = ref.eval_query(ast, d, extra=extra, keys_prefix=keys_prefix)
        except ref_regex.Unsupported:
            return True
        ctx.evaluation()
        got = impl.call(lambda: impl.match_records(comp.value.finditer(d, **kw)))
        ctx.count("evaluations_after_incomplete_pass_and_in_place_update")
        diff = got.desc() if not got.ok else impl.nodes_equal(got.value, model)
        if diff and got.ok and impl.nodes_equal(got.value, ref.eval_query(ast, d, extra=extra, keys_prefix=keys_prefix, order="bfs")) is None:
            diff = None
        if diff:
            ctx.violation("stale-result-after-an-incomplete-pass-and-an-in-place-update:%s" % cls, case, {"text": text, "step": step, "incomplete_pass": how, "diff": diff, "document_now": canon(d)[:300]})
            return False
        fa = impl.call(lambda: comp.value.findall(d, **kw))
        if not fa.ok or impl.values_equal(fa.value, model):
            ctx.violation("stale-result-after-an-incomplete-pass-and-an-in-place-update:%s" % cls, case, {"text": text, "step": step, "incomplete_pass": how, "entry_point": "findall", "diff": fa.desc() if not fa.ok else impl.values_equal(fa.value, model)})
            return False
    return True


def _mutate(r, d, pool=None):
    """Change a few leaves and one container of d in place (types of leaves change too); never creates sharing."""
    import copy

    conts = []
    stack = [d]
    while stack:
        x = stack.pop()
        if isinstance(x, dict):
            conts.append(x)
            stack.extend(x.values())
        elif isinstance(x, list):
            conts.append(x)
            stack.extend(x)
    pool = pool or [0, 1, 2, 3, 10, "a", "b", "ab", "v1", None, True, False, 2.5, [], {}, [1], {"a": 1}]
    pick = lambda: copy.deepcopy(r.choice(pool))  # noqa: E731
    for _ in range(r.randint(1, 4)):
        c = r.choice(conts)
        if isinstance(c, dict) and c:
            c[r.choice(list(c))] = pick()
        elif isinstance(c, list) and c:
            c[r.randrange(len(c))] = pick()
        elif isinstance(c, list):
            c.append(pick())
        else:
            c["a"] = pick()
    if r.random() < 0.3 and isinstance(d, list) and len(d) > 1:
        d.pop()


def _ctx_names_only(ast):
    """True iff every `_`-rooted query in the AST uses name selectors only (so that a mapping which does not list all
    its names when iterated must still give the same answers)."""
    ok = True
    stack = [ast]
    while stack:
        x = stack.pop()
        if isinstance(x, list):
            if len(x) == 3 and x[0] == "q" and x[1] == "_":
                if not x[2]:
                    ok = False   # the mapping itself is an operand (length(_), _ == ..): its size and members matter
                for seg in x[2]:
                    if seg[0] != "child" or any(sel[0] != "name" for sel in seg[1]):
                        ok = False
            stack.extend(x)
    return ok


def _plain(v):
    from collections.abc import Mapping

    if isinstance(v, LazyMapping):
        return {k: _plain(v[k]) for k in v._all}
    if isinstance(v, Mapping) and not isinstance(v, dict):
        return {k: _plain(x) for k, x in v.items()}
    if isinstance(v, dict):
        return {k: _plain(x) for k, x in v.items()}
    if isinstance(v, list):
        return [_plain(x) for x in v]
    return v


import collections.abc as _abc


class LazyMapping(_abc.Mapping):
    """A Mapping that answers item access (and `in`) for every name of the dict it stands for, but lists only every
    other name when iterated - the way mappings that compute or load values on demand behave.  Nested dicts likewise."""

    def __init__(self, d):
        self._all = dict(d)

    def __getitem__(self, k):
        v = self._all[k]
        return LazyMapping(v) if isinstance(v, dict) else v

    def __iter__(self):
        return iter(list(self._all)[::2])

    def __len__(self):
        return len(list(self._all)[::2])

    def __contains__(self, k):
        return k in self._all


class _Val:
    """Wraps a model value so nodes_equal compares by strict value, not identity."""

    def __init__(self, v):
        self.v = v


_ENVS = []


def equivalent_envs():
    """Configurations under which standard queries must mean exactly the same: a fresh
    environment, caching off, documented hooks overridden by pass-through subclasses, a custom
    match class, an instance whose flags were assigned after construction."""
    if _ENVS:
        return _ENVS
    import jsonpath

    class Hooked(jsonpath.JSONPathEnvironment):
        calls = 0

        def getitem(self, obj, key):
            Hooked.calls += 1
            return super().getitem(obj, key)

        async def getitem_async(self, obj, key):
            return await super().getitem_async(obj, key)

        def compare(self, left, operator, right):
            return super().compare(left, operator, right)

        def is_truthy(self, obj):
            return super().is_truthy(obj)

    class MyMatch(jsonpath.JSONPathMatch):
        pass

    class CustomMatch(jsonpath.JSONPathEnvironment):
        match_class = MyMatch

    late = jsonpath.JSONPathEnvironment(filter_caching=False)
    late.filter_caching = True
    _ENVS.extend([
        ("default", jsonpath.DEFAULT_ENV), ("fresh", jsonpath.JSONPathEnvironment()), ("no-caching", jsonpath.JSONPathEnvironment(filter_caching=False)),
        ("pass-through-hooks", Hooked()), ("custom-match-class", CustomMatch()), ("caching-switched-on-later", late),
    ])
    return _ENVS


def fold_model(comp, doc, extra=None):
    """Reference result of a compound query [q0, [op, q1], ...]: union = left then right,
    intersection = left restricted to values the right also produces, left to right."""
    from .jsonval import strict_eq

    cur = list(ref.eval_query(comp[0], doc, extra=extra))
    for op, q in comp[1:]:
        res = ref.eval_query(q, doc, extra=extra)
        if op == "|":
            cur = cur + list(res)
        else:
            cur = [x for x in cur if any(strict_eq(x[1], y[1]) for y in res)]
    return cur


def check_compound_case(ctx, comp, doc, text, cls, *, extra=None, env=None):
    """A compound query (possibly mixing $ and ^ operands) against the fold of the
    reference results of its operands, through finditer and findall."""
    import jsonpath

    env = env or jsonpath.DEFAULT_ENV
    ctx.evaluation()
    try:
        model = fold_model(comp, doc, extra)
    except ref_regex.Unsupported:
        ctx.count("regex_outside_common_dialect_skipped")
        return True
    case = {"class": cls, "comp": comp, "doc": doc, "text": text}
    if extra is not None:
        case["extra"] = extra
    ctx.case(h(text, canon(doc), canon(extra) if extra is not None else ""), nontrivial=bool(model))
    kw = {"filter_context": extra} if extra is not None else {}
    it = impl.call(lambda: impl.match_records(env.finditer(text, doc, **kw)))
    if not it.ok:
        ctx.violation("compound-evaluation-raised:%s:%s" % (type(it.exc).__name__, cls), case, {"error": it.desc(), "text": text})
        return False
    diff = impl.nodes_equal(it.value, model)
    if diff:
        ctx.violation("compound-nodelist-differs-from-fold-of-operands:%s" % cls, case, {"text": text, "diff": diff, "impl": impl.brief_impl(it.value), "model": impl.brief(model)})
        return False
    fa = impl.call(env.findall, text, doc, **kw)
    if not fa.ok or impl.values_equal(fa.value, model):
        ctx.violation("compound-findall-differs-from-fold-of-operands:%s" % cls, case, {"text": text, "diff": fa.desc() if not fa.ok else impl.values_equal(fa.value, model)})
        return False
    ctx.count("compound_cases_compared")
    return True
