"""Documents nested about as deep as the interpreter recurses (and deeper), built and walked WITHOUT recursion.  At such
depths the library may refuse a descendant query with RecursionError - the interpreter's limit, not judged - but whatever
it returns must still be exact: every expected node once, in document order, at its own location."""
from __future__ import annotations


def chain(depth, shape):
    """(document, levels): levels[i] is the container at nesting level i (0 = the document itself).
    objects: {"x": [i], "a": <next>, "id": i};  arrays: [<next>, {"id": i}, i];  mixed alternates."""
    inner = {"x": [depth], "id": depth, "leaf": True} if shape != "arrays" else [{"id": depth}, depth]
    levels = [inner]
    for i in range(depth - 1, -1, -1):
        if shape == "objects" or (shape == "mixed" and i % 2 == 0):
            inner = {"x": [i], "a": inner, "id": i}
        else:
            inner = [inner, {"id": i}, i]
        levels.append(inner)
    levels.reverse()
    return inner, levels


def walk(doc, parts):
    cur = doc
    for p in parts:
        cur = cur[p]
    return cur


def count_nodes(doc):
    """Number of descendants of doc (children of every container), iteratively."""
    n = 0
    stack = [doc]
    while stack:
        x = stack.pop()
        kids = list(x.values()) if isinstance(x, dict) else (x if isinstance(x, list) else [])
        n += len(kids)
        stack.extend(k for k in kids if isinstance(k, (dict, list)))
    return n
