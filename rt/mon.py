"""sys.monitoring tools (CPython 3.12).

T1  LINE events with DISABLE: which statement lines of the tree under test ran.
T2  RAISE events: census of (exception type, file, function) raised inside jsonpath.
T3  PY_START with DISABLE: which functions of the tree under test were entered
    (used for the sync/async twin census).
T4  yield injection lives in checks/c09.py (it needs per-thread state).
"""
from __future__ import annotations

import collections
import os
import sys

T1 = 3
_state = {"on": False}


def start(repo):
    mon = sys.monitoring
    prefix = os.path.join(os.path.abspath(repo), "jsonpath") + os.sep
    lines = collections.defaultdict(set)
    raises = collections.Counter()
    calls = collections.Counter()
    E = mon.events

    def on_line(code, line):
        fn = code.co_filename
        if fn.startswith(prefix):
            lines[fn[len(prefix):]].add(line)
        return mon.DISABLE

    def on_raise(code, off, exc):
        fn = code.co_filename
        if fn.startswith(prefix) and not isinstance(exc, (StopIteration, StopAsyncIteration, GeneratorExit)):
            raises["%s@%s:%s" % (type(exc).__name__, fn[len(prefix):], code.co_qualname)] += 1

    def on_start(code, off):
        fn = code.co_filename
        if fn.startswith(prefix):
            calls["%s:%s" % (fn[len(prefix):], code.co_qualname)] += 1
        return mon.DISABLE

    mon.use_tool_id(T1, "verif")
    mon.register_callback(T1, E.LINE, on_line)
    mon.register_callback(T1, E.RAISE, on_raise)
    mon.register_callback(T1, E.PY_START, on_start)
    mon.set_events(T1, E.LINE | E.RAISE | E.PY_START)
    _state.update(on=True, lines=lines, raises=raises, calls=calls)


def stop():
    if not _state["on"]:
        return {"lines": {}, "raises": {}, "calls": {}}
    mon = sys.monitoring
    mon.set_events(T1, 0)
    mon.free_tool_id(T1)
    _state["on"] = False
    return {
        "lines": {k: sorted(v) for k, v in _state["lines"].items()},
        "raises": dict(_state["raises"]),
        "calls": dict(_state["calls"]),
    }


def raises_snapshot():
    return dict(_state.get("raises", {}))
