"""Independent implementation of the RFC 9535 section 2.4.3 well-typedness rules on the
query AST of ref_jsonpath, extended with node kinds that only ill-typed programs use:

  comparable  ["nsq", query]     a (possibly non-singular) query used as an operand / value argument
  expr        ["tlit", v]        a literal used where a test expression is required
  call args   any comparable / expr / ["nodes", query]

`errors(ast)` returns a list of rule names violated ([] = well-typed).
"""
from __future__ import annotations

from .ref_jsonpath import is_singular

SIGS = {
    "length": (["value"], "value"),
    "count": (["nodes"], "value"),
    "match": (["value", "value"], "logical"),
    "search": (["value", "value"], "logical"),
    "value": (["nodes"], "value"),
}


def errors(q):
    out = []
    _query(q, out)
    return out


def _query(q, out):
    for _typ, sels in q[2]:
        for s in sels:
            if s[0] == "filter":
                _test(s[1], out)


def _ret(e):
    sig = SIGS.get(e[1])
    return sig[1] if sig else None


def _call(e, out):
    name, args = e[1], e[2]
    sig = SIGS.get(name)
    if sig is None:
        out.append("unknown-function")
        return
    params, _ret_t = sig
    if len(args) != len(params):
        out.append("arity")
        return
    for p, a in zip(params, args):
        t = a[0]
        if p == "value":
            if t == "lit":
                pass
            elif t in ("sq", "nsq", "nodes"):
                _query(a[1], out)
                if not is_singular(a[1]):
                    out.append("argument-kind:non-singular-query-for-value")
            elif t == "call":
                _call(a, out)
                if _ret(a) not in ("value", None):
                    out.append("argument-kind:%s-function-for-value" % _ret(a))
            else:
                _test(a, out)
                out.append("argument-kind:logical-expression-for-value")
        elif p == "nodes":
            if t in ("nodes", "sq", "nsq"):
                _query(a[1], out)
            elif t == "call":
                _call(a, out)
                if _ret(a) != "nodes":
                    out.append("argument-kind:%s-function-for-nodes" % _ret(a))
            elif t == "lit":
                out.append("argument-kind:literal-for-nodes")
            else:
                _test(a, out)
                out.append("argument-kind:logical-expression-for-nodes")


def _comparable(e, out):
    t = e[0]
    if t == "lit":
        return
    if t in ("sq", "nsq"):
        _query(e[1], out)
        if not is_singular(e[1]):
            out.append("non-singular-operand")
        return
    if t == "call":
        _call(e, out)
        if _ret(e) == "logical":
            out.append("logical-function-operand")
        elif _ret(e) == "nodes":
            out.append("nodes-function-operand")
        return
    out.append("bad-operand:" + t)


def _test(e, out):
    t = e[0]
    if t in ("or", "and"):
        _test(e[1], out)
        _test(e[2], out)
    elif t in ("not", "paren"):
        _test(e[1], out)
    elif t == "test":
        _query(e[1], out)
    elif t == "cmp":
        _comparable(e[2], out)
        _comparable(e[3], out)
    elif t == "call":
        _call(e, out)
        if _ret(e) == "value":
            out.append("value-function-as-test")
    elif t == "tlit":
        out.append("uncompared-literal")
    else:
        out.append("bad-test:" + t)
