"""Render query ASTs (see ref_jsonpath) as text in a randomly chosen legal spelling.

Only the text is ever given to the library.  Spellings follow the RFC 9535 ABNF:
dot shorthand when the name is a legal member-name-shorthand, either quote style,
any legal escape per character, blank space exactly where the ABNF has `S`.
Singular queries used as comparison operands are rendered without blanks inside
brackets (singular-query-segments has no S there).  `ext=True` additionally allows
the documented non-standard spellings (C13).
"""
from __future__ import annotations

import json

RESERVED = {
    "or", "and", "in", "true", "True", "false", "False", "nil", "Nil", "null", "Null",
    "none", "None", "contains", "undefined", "missing", "not",
}

DEFAULT_TOKENS = {
    "root": "$", "self": "@", "key": "#", "ctx": "_", "keys": "~", "fake": "^",
    "union": "|", "inter": "&",
}


def is_first(ch):
    o = ord(ch)
    return (ch.isascii() and (ch.isalpha() or ch == "_")) or (o >= 0x80 and not 0xD800 <= o <= 0xDFFF)


def is_char(ch):
    return is_first(ch) or (ch.isascii() and ch.isdigit())


def shorthand_ok(n):
    return bool(n) and is_first(n[0]) and all(is_char(c) for c in n)


class Renderer:
    def __init__(self, r, *, blanks=0.25, alias=False, tokens=None, plain=False, tight=0.0):
        self.r = r
        self.tight = tight  # share of compound operators written without a blank before them (where no blank is needed)
        self.blanks = 0.0 if plain else blanks
        self.alias = alias  # use documented non-standard aliases where possible
        self.plain = plain  # canonical-ish: no optional blanks, no exotic escapes
        self.t = dict(DEFAULT_TOKENS)
        if tokens:
            self.t.update(tokens)
        self.custom_tokens = bool(tokens)

    # blank space
    def S(self, p=None):
        p = self.blanks if p is None else p
        if p and self.r.random() < p:
            return "".join(self.r.choice(" \t\n\r") for _ in range(self.r.randint(1, 2)))
        return ""

    def string(self, s, quote=None):
        r = self.r
        q = quote or r.choice("'\"")
        out = []
        named = {"\b": "\\b", "\f": "\\f", "\n": "\\n", "\r": "\\r", "\t": "\\t", "\\": "\\\\"}
        for ch in s:
            o = ord(ch)
            if ch == q:
                out.append("\\" + ch)
            elif ch in named:
                out.append(named[ch] if (self.plain or r.random() < 0.7) else "\\u%04x" % o)
            elif o < 0x20:
                out.append(("\\u%04x" if r.random() < 0.5 else "\\u%04X") % o)
            elif self.plain:
                out.append(ch)
            elif ch == "/" and r.random() < 0.3:
                out.append("\\/")
            elif r.random() < 0.08:
                if o > 0xFFFF:
                    o2 = o - 0x10000
                    out.append("\\u%04X\\u%04X" % (0xD800 + (o2 >> 10), 0xDC00 + (o2 & 0x3FF)))
                else:
                    out.append(("\\u%04x" if r.random() < 0.5 else "\\u%04X") % o)
            else:
                out.append(ch)
        return q + "".join(out) + q

    def number(self, v):
        r = self.r
        if isinstance(v, bool):
            raise TypeError(v)
        if isinstance(v, int):
            if not self.plain and v != 0 and v % 10 == 0 and r.random() < 0.2:
                # 120 -> 12e1 (an int with an exponent is still a number literal)
                return "%d%s1" % (v // 10, r.choice(["e", "E", "e+", "E+"]))
            if not self.plain and v == 0 and r.random() < 0.25:
                # zero in the other spellings the grammar gives it: (int / "-0") [frac] [exp] with int = "0"
                return r.choice(["-0", "0e0", "0e1", "0E1", "0e+2", "0e-1", "-0e1", "0.0", "-0.0", "0.0e1", "0.00"])
            if not self.plain and v != 0 and abs(v) < 1000 and r.random() < 0.05:
                return "%d.0" % v if r.random() < 0.5 else "%d0e-1" % v
            return str(v)
        s = repr(v)
        if "e" in s or "inf" in s or "nan" in s:
            return s
        if not self.plain and r.random() < 0.15:
            return s + r.choice(["e0", "E0", "e+0", "e-0", "E-0"])
        return s

    def selector(self, sel, ws=True):
        t = sel[0]
        if t == "name":
            if self.alias and shorthand_ok(sel[1]) and sel[1] not in RESERVED and not sel[1].startswith("_") and not sel[1][0].isdecimal() and self.r.random() < 0.5 and all(ord(c) < 0x10000 for c in sel[1]):
                return sel[1]  # bare name in brackets (non-standard)
            return self.string(sel[1])
        if t == "index":
            return str(sel[1])
        if t == "wild":
            return "*"
        if t == "keys":
            return self.t["keys"]
        if t == "slice":
            a, b, c = ("" if x is None else str(x) for x in sel[1:])
            w = (lambda: self.S()) if ws else (lambda: "")
            s = a + (w() if a else "") + ":" + w() + b + (w() if b else "")
            if sel[3] is not None or self.r.random() < 0.3:
                s += ":" + ((w() + c) if c else "")
            return s
        if t == "filter":
            return "?" + (self.S() if ws else "") + self.expr(sel[1])
        raise ValueError(sel)

    def segments(self, segs, singular=False):
        r = self.r
        out = []
        for typ, sels in segs:
            lead = "" if singular else self.S(self.blanks * 0.6)
            if len(sels) == 1 and sels[0][0] == "name" and shorthand_ok(sels[0][1]) and r.random() < 0.5 and not (
                sels[0][1] in RESERVED
            ) and not self._shorthand_clash(sels[0][1]):
                out.append(lead + ("." if typ == "child" else "..") + sels[0][1])
                continue
            if len(sels) == 1 and sels[0][0] == "wild" and r.random() < 0.5:
                out.append(lead + ("." if typ == "child" else "..") + "*")
                continue
            if len(sels) == 1 and sels[0][0] == "keys" and r.random() < 0.5:
                out.append(lead + ("." if typ == "child" else "..") + self.t["keys"])
                continue
            ws = not singular
            sep = lambda: "%s,%s" % (self.S() if ws else "", self.S() if ws else "")  # noqa: E731
            inner = (self.S() if ws else "")
            for i, s in enumerate(sels):
                if i:
                    inner += sep()
                inner += self.selector(s, ws)
            inner += self.S() if ws else ""
            out.append(lead + ("" if typ == "child" else "..") + "[" + inner + "]")
        return "".join(out)

    def _shorthand_clash(self, name):
        # with custom identifier tokens a shorthand name that contains a token
        # spelling would be ambiguous; use the bracketed form instead
        if not self.custom_tokens:
            return False
        return any(tok and tok in name for tok in self.t.values())

    def query(self, q, singular=False, top=False):
        root = q[1]
        if root == "$":
            head = self.t["root"]
            if top and self.alias and q[2] and self.r.random() < 0.4:
                head = ""  # rootless (non-standard)
        elif root == "^":
            head = self.t["fake"]
        elif root == "@":
            head = self.t["self"]
        elif root == "_":
            head = self.t["ctx"]
        else:
            raise ValueError(q)
        body = self.segments(q[2], singular)
        if head == "":
            body = body.lstrip(" \t\n\r")
            if body.startswith(".") and not body.startswith(("..", "._")) and not body[1:2].isdecimal() and self.r.random() < 0.5:
                body = body[1:]  # `thing` is the same as `.thing` and `$.thing`
        return head + body

    def comparable(self, e):
        t = e[0]
        if t == "lit":
            v = e[1]
            if v is None:
                return self.r.choice(["nil", "none", "Nil", "None", "Null", "null"]) if self.alias else "null"
            if v is True:
                return "True" if self.alias and self.r.random() < 0.5 else "true"
            if v is False:
                return "False" if self.alias and self.r.random() < 0.5 else "false"
            if isinstance(v, str):
                return self.string(v)
            return self.number(v)
        if t == "sq":
            return self.query(e[1], singular=True)
        if t == "nsq":
            return self.query(e[1])
        if t == "pexpr":  # a parenthesised expression used as an operand (accepted, not RFC)
            return "(" + self.S() + self.expr(e[1], 0) + self.S() + ")"
        if t == "tlit":
            return self.comparable(["lit", e[1]])
        if t == "key":
            return self.t["key"]
        if t == "undef":
            return self.r.choice(["undefined", "missing"])
        if t == "list":
            return "[" + ", ".join(self.comparable(["lit", v]) for v in e[1]) + "]"
        if t == "regex":
            return "/" + e[1] + "/" + e[2]
        if t == "call":
            return self.expr(e)
        raise ValueError(e)

    def expr(self, e, prec=0):
        r = self.r
        t = e[0]
        if t == "or":
            op = " or " if (self.alias and r.random() < 0.6) else self.S(0.7) + "||" + self.S(0.7)
            s = self.expr(e[1], 1) + op + self.expr(e[2], 1)
            return "(" + s + ")" if prec > 1 else s
        if t == "and":
            op = " and " if (self.alias and r.random() < 0.6) else self.S(0.7) + "&&" + self.S(0.7)
            s = self.expr(e[1], 2) + op + self.expr(e[2], 2)
            return "(" + s + ")" if prec > 2 else s
        if t == "not":
            inner = e[1]
            bang = "not " if (self.alias and r.random() < 0.6) else "!" + self.S()
            if inner[0] in ("test", "call", "paren"):
                return bang + self.expr(inner, 3)
            return bang + "(" + self.S() + self.expr(inner, 0) + self.S() + ")"
        if t == "paren":
            return "(" + self.S() + self.expr(e[1], 0) + self.S() + ")"
        if t == "test":
            return self.query(e[1])
        if t == "tlit":
            return self.comparable(["lit", e[1]])
        if t == "cmp":
            op = e[1]
            if op in ("in", "contains"):
                return self.comparable(e[2]) + " " + op + " " + self.comparable(e[3])
            if self.alias and op == "!=" and r.random() < 0.5:
                op = "<>"
            sp = self.S(0.7)
            # a blank is needed between a shorthand name and an operator starting a word; symbols are safe
            return self.comparable(e[2]) + sp + op + self.S(0.7) + self.comparable(e[3])
        if t == "call":
            args = []
            for a in e[2]:
                if a[0] == "nodes":
                    args.append(self.query(a[1]))
                elif a[0] in ("or", "and", "not", "paren", "test", "cmp"):
                    args.append(self.expr(a))
                else:
                    args.append(self.comparable(a))
            sep = lambda: "%s,%s" % (self.S(), self.S())  # noqa: E731
            body = ""
            for i, a in enumerate(args):
                if i:
                    body += sep()
                body += a
            return e[1] + "(" + self.S() + body + self.S() + ")"
        raise ValueError(e)

    def top(self, q):
        return self.query(q, top=True)

    def compound(self, c):
        """c = [q0, [op, q1], [op, q2], ...] with op in {"|","&"}."""
        out = self.top(c[0])
        for op, q in c[1:]:
            tok = self.t["union"] if op == "|" else self.t["inter"]
            # a blank before the operator is only needed when the operator's first character could continue what stands
            # before it (a member-name shorthand swallows letters, digits, '_', '-' and everything beyond ASCII)
            x = self.r.random() if self.tight else 1.0
            name_char = tok[0].isalnum() or tok[0] in "_-" or ord(tok[0]) >= 0x80
            ends_ok = out[-1:] in ("]", "*") or out[-1:].isalnum() or out[-1:] == "_"
            out += ("" if (x < self.tight and not name_char and ends_ok) else " ") + tok + " " + self.top(q)
        return out


def canonical_name_step(name):
    """RFC 9535 section 2.7 normal-name-segment for a member name."""
    out = []
    named = {"\b": "\\b", "\f": "\\f", "\n": "\\n", "\r": "\\r", "\t": "\\t", "'": "\\'", "\\": "\\\\"}
    for ch in name:
        if ch in named:
            out.append(named[ch])
        elif ord(ch) < 0x20:
            out.append("\\u%04x" % ord(ch))
        else:
            out.append(ch)
    return "['" + "".join(out) + "']"


def normalized_path(parts):
    s = "$"
    for p in parts:
        s += "[%d]" % p if isinstance(p, int) else canonical_name_step(p)
    return s


def dumps_case(obj):
    return json.dumps(obj, ensure_ascii=True, sort_keys=False)
