"""Check driver: shards a property's workload over subprocesses, merges what the
monitors observed, attributes violations to known findings, writes evidence.

  ./check C01 [--tier quick|thorough] [--replay FILE] [--jobs N]

Exit 0: held on everything explored (KNOWN-FINDING lines possible).
Exit 1: `VIOLATION property=<id> replay=<path>` for each unlisted mechanism.
Exit 2: `INCONCLUSIVE property=<id> reason=...` (a deciding monitor was never
        reached, a watchdog fired, the wrong tree was imported).
"""
from __future__ import annotations

import argparse
import collections
import hashlib
import importlib
import json
import os
import random
import subprocess
import sys
import time
import traceback

VERIF = os.path.dirname(os.path.dirname(os.path.abspath(__file__)))
REPO = os.path.abspath(os.environ.get("VERIF_REPO", "/repo"))
GUARD = "JG_RP_PYTHON_JSONPATH_VERIF"
PY = sys.executable

MAX_VIOL_PER_SHARD = 60
MAX_SAMPLES = 8


def repo_setup():
    """Put the tree under test first on sys.path and prove it is the one imported."""
    if REPO not in sys.path[:1]:
        sys.path.insert(0, REPO)
    deps = os.path.join(VERIF, ".deps")
    if os.path.isdir(deps) and deps not in sys.path:
        sys.path.append(deps)
    import jsonpath

    f = os.path.abspath(jsonpath.__file__)
    if not f.startswith(REPO + os.sep):
        raise WrongTree("jsonpath imported from %s, expected under %s" % (f, REPO))
    return jsonpath


class WrongTree(Exception):
    pass


def derive_seed(seed, prop, shard):
    return int.from_bytes(hashlib.sha256(("%s/%s/%s" % (seed, prop, shard)).encode()).digest()[:8], "big")


class Ctx:
    """What a shard reports.  Everything is a measured counter."""

    def __init__(self, prop, tier, seed, shard, spec):
        self.prop = prop
        self.tier = tier
        self.seed = seed
        self.shard = shard
        self.spec = spec
        self.rng = random.Random(derive_seed(seed, prop, shard))
        self.counters = collections.Counter()
        self.matrices = collections.defaultdict(collections.Counter)
        self.hashes = set()
        self.bulk_distinct = 0
        self.samples = []
        self.violations = []
        self.viol_total = 0
        self.notes = []
        self.replaying = False
        self._mem = []
        self._mem_seen = 0

    def count(self, key, n=1):
        self.counters[key] += n

    def cell(self, matrix, cell, n=1):
        self.matrices[matrix][cell] += n

    def evaluation(self, n=1):
        self.counters["evaluations"] += n

    def case(self, case_hash, nontrivial=True):
        self.counters["cases"] += 1
        if nontrivial:
            self.hashes.add(case_hash)

    def bulk(self, n):
        """n cases that are distinct by construction (complete enumerations)."""
        self.bulk_distinct += n

    def sample(self, obj, force=False):
        if len(self.samples) < MAX_SAMPLES or force:
            self.samples.append(obj)

    def violation(self, mechanism, case, detail):
        case, detail = writable(case), writable(detail)
        self.viol_total += 1
        self.counters["violations"] += 1
        per = sum(1 for v in self.violations if v["mechanism"] == mechanism)
        if per < 3 and len(self.violations) < MAX_VIOL_PER_SHARD:
            self.violations.append({"mechanism": mechanism, "case": case, "detail": detail})
        if self.replaying:
            print("  still violates: %s\n    %s" % (mechanism, json.dumps(detail, ensure_ascii=True, default=repr)[:2000]))

    def remember(self, label, fn, limit=300):
        """History-independence monitor: `fn()` recomputes a deterministic digest of one case's
        outcome from scratch.  A sample of cases is kept and recomputed in reverse order at the end
        of the shard (after everything else has run in this process); a different digest means the
        outcome depends on what ran before."""
        self._mem_seen += 1
        if len(self._mem) < limit:
            slot = len(self._mem)
            self._mem.append(None)
        elif self.rng.random() < limit / float(self._mem_seen):
            slot = self.rng.randrange(limit)
        else:
            return
        try:
            self._mem[slot] = (label, fn, fn())
        except Exception as e:  # noqa: BLE001
            self._mem[slot] = (label, fn, "raised:" + type(e).__name__)

    def recheck(self):
        for ent in reversed(self._mem):
            if ent is None:
                continue
            label, fn, first = ent
            try:
                again = fn()
            except Exception as e:  # noqa: BLE001
                again = "raised:" + type(e).__name__
            self.counters["history_rechecks"] += 1
            if again != first:
                self.violation("outcome-depends-on-call-history:%s" % label, {"history": True, "spec": self.spec}, {"first": repr(first)[:400], "recomputed_after_the_rest_of_the_shard": repr(again)[:400]})
                break

    def result(self):
        return {
            "shard": self.shard,
            "counters": dict(self.counters),
            "matrices": {k: dict(v) for k, v in self.matrices.items()},
            "hashes": sorted(self.hashes),
            "bulk_distinct": self.bulk_distinct,
            "samples": self.samples,
            "violations": self.violations,
            "viol_total": self.viol_total,
            "notes": self.notes,
        }


def load_check(prop):
    return importlib.import_module("checks." + prop.lower())


def raised_inside_library(exc):
    """file:function of the innermost traceback frame when that frame is library code (under REPO), else None."""
    tb = traceback.extract_tb(exc.__traceback__)
    if not tb:
        return None
    fn = tb[-1].filename.replace("\\", "/")
    if fn.startswith(REPO.rstrip("/") + "/") and "/jsonpath/" in fn:
        return "%s:%s" % (fn.rsplit("/jsonpath/", 1)[1], tb[-1].name)
    return None


def writable(v, _depth=0):
    """A copy that json can always write: integers with more digits than the interpreter converts to text become a
    marker, other non-JSON objects their repr (cut)."""
    if isinstance(v, bool) or v is None or isinstance(v, (str, float)):
        return v
    if isinstance(v, int):
        return v if v.bit_length() < 12000 else {"$integer-of-bits": v.bit_length()}
    if _depth > 400:
        return "<nested too deeply to write>"
    if isinstance(v, dict):
        return {(k if isinstance(k, str) else repr(k)): writable(x, _depth + 1) for k, x in v.items()}
    if isinstance(v, (list, tuple)):
        return [writable(x, _depth + 1) for x in v]
    try:
        return repr(v)[:300]
    except Exception:  # noqa: BLE001
        return "<%s>" % type(v).__name__


def run_shard_main(prop, tier, seed, spec_file, out_file):
    t0 = time.time()
    with open(spec_file) as f:
        spec = json.load(f)
    res = {"shard": spec.get("shard"), "error": None}
    ctx = None
    try:
        repo_setup()
        from . import mon

        mod = load_check(prop)
        ctx = Ctx(prop, tier, seed, spec["shard"], spec)
        ctx.count("shards_with_assertions_stripped" if not __debug__ else "shards_with_assertions_enabled")
        if spec["shard"] % 3 == 1 and not os.environ.get("VERIF_NO_WARNFILTER"):
            # every third shard: deprecation warnings raised from the library's own modules are errors (what `-W error`
            # or a test suite's filterwarnings=error does to a program that uses the library)
            import warnings

            for cat in (DeprecationWarning, PendingDeprecationWarning):
                warnings.filterwarnings("error", category=cat, module=r"jsonpath(\.|$)")
            ctx.count("shards_with_library_deprecation_warnings_as_errors")
        mon.start(REPO)
        try:
            if spec.get("kind") == "__witnesses__":
                replay_witnesses(prop, mod, ctx)
            else:
                mod.run(spec, ctx)
                ctx.recheck()
        finally:
            cov = mon.stop()
        res = ctx.result()
        res["error"] = None
        res["lines"] = cov["lines"]
        res["raises"] = cov["raises"]
        res["calls"] = cov["calls"]
    except WrongTree as e:
        res["error"] = "wrong-tree: %s" % e
    except BaseException as e:  # noqa: BLE001
        site = raised_inside_library(e)
        if ctx is not None and site and isinstance(e, Exception) and not isinstance(e, (RecursionError, MemoryError)):
            # the check called the library somewhere it does not expect an exception (it never gets one on the unchanged
            # tree) and the exception was raised by library code: that is an observation about the library, not a broken
            # check - reported as a violation whose replay re-runs this shard
            ctx.violation("the-library-raised-where-the-check-expects-no-exception:%s@%s" % (type(e).__name__, site), {"history": True, "crash": True, "spec": spec},
                          {"error": "%s: %s" % (type(e).__name__, str(e)[:300]), "site": site, "traceback_tail": traceback.format_exc()[-1200:]})
            res = ctx.result()
            res["error"] = None
            res["lines"], res["raises"], res["calls"] = {}, {}, {}
        else:
            res["error"] = "shard crashed: %s: %s\n%s" % (type(e).__name__, e, traceback.format_exc()[-3000:])
    res["wall_s"] = time.time() - t0
    with open(out_file, "w") as f:
        f.write(json.dumps(writable(res), ensure_ascii=True, default=repr))


def witness_files(prop):
    d = os.path.join(VERIF, "witnesses")
    if not os.path.isdir(d):
        return []
    out = []
    for fn in sorted(os.listdir(d)):
        if fn.endswith(".json"):
            with open(os.path.join(d, fn)) as f:
                rec = json.load(f)
            if rec.get("property") == prop:
                out.append((fn, rec))
    return out


def replay_witnesses(prop, mod, ctx):
    """Deterministic regression shard: the minimal witnesses of defects that were found
    (and repaired) are replayed on every run."""
    for fn, rec in witness_files(prop):
        before = ctx.viol_total
        mod.replay(rec["case"], ctx)
        ctx.count("witnesses_replayed")
        if ctx.viol_total > before:
            ctx.count("witnesses_violating")
            ctx.notes.append("witness %s violates: %s" % (fn, rec.get("what")))


def merge(results):
    m = {
        "counters": collections.Counter(), "matrices": collections.defaultdict(collections.Counter),
        "hashes": set(), "bulk_distinct": 0, "samples": [], "violations": [], "viol_total": 0,
        "lines": collections.defaultdict(set), "raises": collections.Counter(), "calls": collections.Counter(),
        "errors": [], "notes": [],
    }
    for r in results:
        if r.get("error"):
            m["errors"].append(r["error"])
            continue
        m["counters"].update(r["counters"])
        for k, v in r["matrices"].items():
            m["matrices"][k].update(v)
        m["hashes"].update(r["hashes"])
        m["bulk_distinct"] += r["bulk_distinct"]
        for s in r["samples"]:
            if len(m["samples"]) < MAX_SAMPLES:
                m["samples"].append(s)
        m["violations"].extend(r["violations"])
        m["viol_total"] += r["viol_total"]
        for f, ls in r.get("lines", {}).items():
            m["lines"][f].update(ls)
        m["raises"].update(r.get("raises", {}))
        m["calls"].update(r.get("calls", {}))
        m["notes"].extend(r.get("notes", []))
    return m


def load_known():
    p = os.path.join(VERIF, "known_findings.json")
    if not os.path.exists(p):
        return {"open": [], "fixed": []}
    with open(p) as f:
        return json.load(f)


def known_match(prop, mechanism, known):
    for k in known.get("open", []):
        if k["property"] == prop and k["mechanism"] == mechanism:
            return k
    return None


def run_shards(prop, tier, seed, specs, jobs, timeout):
    outdir = os.path.join(VERIF, "out", prop)
    os.makedirs(outdir, exist_ok=True)
    for fn in os.listdir(outdir):
        if fn.startswith(("shard-", "spec-")):
            os.unlink(os.path.join(outdir, fn))
    env = dict(os.environ)
    env.update({"PYTHONHASHSEED": "0", "PYTHONDONTWRITEBYTECODE": "1", GUARD: "1", "VERIF_REPO": REPO})
    pending = list(enumerate(specs))
    running = {}
    results = []
    deadline_hit = []
    while pending or running:
        while pending and len(running) < jobs:
            i, spec = pending.pop(0)
            spec = dict(spec)
            spec["shard"] = i
            sf = os.path.join(outdir, "spec-%d.json" % i)
            of = os.path.join(outdir, "shard-%d.json" % i)
            with open(sf, "w") as f:
                json.dump(spec, f)
            p = subprocess.Popen(
                # every third shard runs with assertions stripped (-O): what the library promises must not rest on `assert`
                [PY, "-B"] + (["-O"] if i % 3 == 2 and not os.environ.get("VERIF_NO_OPT") else []) + ["-m", "rt.harness", prop, "--tier", tier, "--shard-spec", sf, "--shard-out", of],
                cwd=VERIF, env=env, stdout=subprocess.PIPE, stderr=subprocess.STDOUT,
            )
            running[i] = (p, of, time.time())
        time.sleep(0.05)
        for i, (p, of, t0) in list(running.items()):
            rc = p.poll()
            if rc is None:
                if time.time() - t0 > timeout:
                    p.kill()
                    p.wait()
                    deadline_hit.append(i)
                    results.append({"shard": i, "error": "watchdog: shard %d exceeded %ds" % (i, timeout)})
                    del running[i]
                continue
            out = p.stdout.read().decode("utf-8", "replace")
            del running[i]
            if os.path.exists(of):
                with open(of) as f:
                    r = json.load(f)
                if out.strip():
                    r.setdefault("notes", []).append("shard %d output: %s" % (i, out.strip()[-500:]))
                results.append(r)
            else:
                results.append({"shard": i, "error": "shard %d died rc=%s: %s" % (i, rc, out[-2000:])})
    return results


def main(argv=None):
    ap = argparse.ArgumentParser()
    ap.add_argument("prop")
    ap.add_argument("--tier", default=os.environ.get("VERIF_TIER", "quick"))
    ap.add_argument("--replay")
    ap.add_argument("--jobs", type=int, default=int(os.environ.get("VERIF_JOBS", "16")))
    ap.add_argument("--shard-spec")
    ap.add_argument("--shard-out")
    args = ap.parse_args(argv)
    prop = args.prop.upper()
    tier = args.tier if args.tier in ("quick", "thorough") else "quick"
    seed = int(os.environ.get("VERIF_SEED", "0") or 0)
    os.environ[GUARD] = "1"

    if args.shard_spec:
        run_shard_main(prop, tier, seed, args.shard_spec, args.shard_out)
        return 0

    t0 = time.time()
    try:
        repo_setup()
    except WrongTree as e:
        print("INCONCLUSIVE property=%s reason=%s" % (prop, e))
        return 2
    mod = load_check(prop)

    if args.replay:
        with open(args.replay) as f:
            rec = json.load(f)
        ctx = Ctx(prop, tier, seed, -1, {})
        ctx.replaying = True
        print("replaying %s mechanism=%s" % (args.replay, rec.get("mechanism")))
        if isinstance(rec["case"], dict) and rec["case"].get("history"):
            # a history-dependent outcome: re-run the shard that observed it, then recompute
            ctx.spec = rec["case"]["spec"]
            ctx.shard = ctx.spec.get("shard", 0)
            ctx.rng = random.Random(derive_seed(rec.get("seed", seed), prop, ctx.shard))
            try:
                mod.run(ctx.spec, ctx)
                ctx.recheck()
            except Exception as e:  # noqa: BLE001
                if not raised_inside_library(e):
                    raise
                ctx.violation("the-library-raised-where-the-check-expects-no-exception:%s" % type(e).__name__, rec["case"], {"error": "%s: %s" % (type(e).__name__, str(e)[:300])})
        else:
            mod.replay(rec["case"], ctx)
        if ctx.viol_total:
            print("VIOLATION property=%s replay=%s" % (prop, args.replay))
            return 1
        print("replay: no violation on this tree")
        return 0

    specs = list(mod.plan(tier, seed))
    if witness_files(prop) and not os.environ.get("VERIF_NO_WITNESSES"):
        specs.append({"kind": "__witnesses__"})
    timeout = getattr(mod, "SHARD_TIMEOUT", {"quick": 600, "thorough": 3600})[tier]
    results = run_shards(prop, tier, seed, specs, args.jobs, timeout)
    m = merge(results)

    from . import anchors

    anchor_cov = anchors.coverage(prop, REPO, m["lines"])
    try:
        # statement lines of the library that ran, for tools/reach.py (the union over all checks shows what no workload drives)
        os.makedirs(os.path.join(VERIF, "out", "reach"), exist_ok=True)
        with open(os.path.join(VERIF, "out", "reach", "%s-%s.json" % (prop, tier)), "w") as f:
            json.dump({k: sorted(v) for k, v in m["lines"].items()}, f)
    except OSError:
        pass
    fin = mod.finalize(m, tier) if hasattr(mod, "finalize") else {}
    inconclusive = list(fin.get("inconclusive", []))
    for e in m["errors"]:
        inconclusive.append(e.splitlines()[0][:300])

    known = load_known()
    outdir = os.path.join(VERIF, "out", prop)
    by_mech = collections.OrderedDict()
    for v in m["violations"]:
        by_mech.setdefault(v["mechanism"], []).append(v)
    known_hit = []
    new_mech = []
    lines_out = []
    for mech, vs in by_mech.items():
        k = known_match(prop, mech, known)
        if k:
            known_hit.append(mech)
            lines_out.append("KNOWN-FINDING: property=%s %s" % (prop, k.get("what", mech)))
            continue
        new_mech.append(mech)
        hh = hashlib.sha256(mech.encode()).hexdigest()[:10]
        rp = os.path.join(outdir, "replay-%s.json" % hh)
        with open(rp, "w") as f:
            json.dump({"property": prop, "mechanism": mech, "case": vs[0]["case"], "detail": vs[0]["detail"], "seed": seed, "tier": tier}, f, ensure_ascii=True, indent=1, default=repr)
        lines_out.append("VIOLATION property=%s replay=%s" % (prop, rp))
        lines_out.append("  mechanism: %s" % mech)
        lines_out.append("  detail: %s" % json.dumps(vs[0]["detail"], ensure_ascii=True, default=repr)[:1500])

    distinct = len(m["hashes"]) + m["bulk_distinct"]
    evaluations = int(m["counters"].get("evaluations", 0))
    cov = {
        "evaluations": evaluations,
        "distinct_nontrivial": distinct,
        "rule": getattr(mod, "RULE", ""),
        "samples": m["samples"],
        "exhaustive": bool(fin.get("exhaustive", False)),
        "counters": {k: v for k, v in sorted(m["counters"].items())},
        "matrices": {k: dict(sorted(v.items())) for k, v in sorted(m["matrices"].items())},
        "anchor_coverage": anchor_cov,
        "raise_census": dict(sorted(m["raises"].items(), key=lambda kv: -kv[1])[:60]),
        "function_calls_observed": dict(sorted(m["calls"].items(), key=lambda kv: -kv[1])[:80]),
        "known_findings_hit": known_hit,
        "unlisted_violation_mechanisms": new_mech,
        "violations_observed_total": m["viol_total"],
        "inconclusive_reasons": inconclusive,
        "shards": len(specs),
    }
    cov.update(fin.get("coverage", {}))
    if evaluations < 1 or distinct < 2:
        inconclusive.append("too few cases: evaluations=%d distinct=%d" % (evaluations, distinct))
    ev = {
        "property_id": prop,
        "tier": tier,
        "seed": seed,
        "level": getattr(mod, "LEVEL", "exploration"),
        "coverage": cov,
        "assumptions": getattr(mod, "ASSUMPTIONS", []),
        "wall_s": round(time.time() - t0, 2),
        "violations": len(new_mech),
        "verdict": "violated" if new_mech else ("inconclusive" if inconclusive else "held-on-observed"),
    }
    if evaluations >= 1 and distinct >= 2:
        # (runs against scratch copies of the repository - seeded changes, mutants, reverted fixes - keep their evidence
        # apart: evidence/ describes runs against /repo only)
        evdir = os.path.join(VERIF, "evidence") if os.path.realpath(REPO) == os.path.realpath(os.environ.get("VERIF_CANONICAL_REPO", "/repo")) else os.path.join(VERIF, "out", "evidence-of-scratch-runs")
        os.makedirs(evdir, exist_ok=True)
        with open(os.path.join(evdir, prop + ".json"), "w") as f:
            json.dump(ev, f, ensure_ascii=True, indent=1, default=repr)
    for ln in lines_out:
        print(ln)
    print(
        "%s tier=%s seed=%d: evaluations=%d distinct_nontrivial=%d violations(unlisted mechanisms)=%d known=%d wall=%.1fs"
        % (prop, tier, seed, evaluations, distinct, len(new_mech), len(known_hit), time.time() - t0)
    )
    if new_mech:
        return 1
    if inconclusive:
        for r in inconclusive[:10]:
            print("INCONCLUSIVE property=%s reason=%s" % (prop, r))
        return 2
    return 0


if __name__ == "__main__":
    sys.exit(main())
