"""Seeded generators: JSON documents with hostile member names, query ASTs, typed
filter expression ASTs, I-Regexp patterns.  Everything is driven by a
random.Random the caller derives from (VERIF_SEED, property, shard)."""
from __future__ import annotations

from .ref_jsonpath import is_singular

NAMES_PLAIN = ["a", "b", "c", "d", "ab", "A", "_", "_a", "a1", "x"]
NAMES_RESERVED = ["and", "or", "not", "in", "true", "false", "null", "nil", "none", "contains", "undefined", "missing", "True", "None", "length", "count"]
NAMES_DIGITS = ["0", "1", "2", "01", "10", "-1", "+1", " 1", "1_0", "１", "1e0", "0x1", "12345678901234567890", "1\n", "0\n", "\n1", "1 ", "1\r", "-7\n", "1\t", "00", "\u00b2", "\u2460", "\u2082\u2083", "\u0663", "\u00bd",
                "9007199254740991", "-9007199254740991", "-1000000000000000", "1000000000000000", "-999999999999999", "9007199254740992", "-9007199254740992",
                # an ASCII digit followed by decimal digits of other scripts (and the all-ASCII number they would spell)
                "-0", "-00", "1\uff12", "12", "1\u0663", "13", "-1\uff12", "-12", "2\u0660\u0661"]
NAMES_PUNCT = ["", "~", "/", "~1", "~0", "a/b", "m~n", "#", "#a", "#0", "-", "a-b", "$", "@", "*", ".", "..", "[", "]", "a b", " ", "?", ",", ":", "(", "|", "&", "^"]
NAMES_QUOTE = ["'", '"', "\\", "a\\", "\\'", '\\"', "a'b", 'a"b', "\\\\", "\\n", "\\u0041", "\\uD83D", "\\uD83D\\uDE00", "x\\udc00", "\\ud800\\n", "\\x41", "\\U0001F600", "\\/", "\\u{41}", "\\u{1F600}", "\\N{BULLET}", "\\8", "\\400"]
NAMES_CTRL = ["\n", "\t", "\r", "\b", "\f", "\u0000", "\u001f", "\u007f", "a\nb"]
NAMES_FORMAT = ["%", "%%", "%d", "%s", "100%", "%(a)s", "%%%", "{}", "{0}", "{a}", "{{", "}}", "\\1", "\\g<0>", "${a}", "$1", "%5B", "%27", "&amp;"]
NAMES_UNI = ["a\u2028b", "\u2029", "\u2028", "x\u0085y", "\u00a0", "\u3000k", "not\u00edcias", "in\u00e9s", "nil\u00fcfer", "true\u00f1o", "or\u00e3o", "and\u00e9", "null\u00e9", "contains\u00e9", "false\u65e5", "\u200b", "\u200d", "\ufeff", "\u00ad", "\u202e", "a\u200bb", "\U000e0067", "\U0001f3f4\U000e0067\U000e0062", "\U0001d173", "\U000110bd", "e\u0301", "\u212b", "\u00c5", "A\u030a", "\ufb01", "fi", "\u00e9", "\u263a", "\u65e5\u672c", "\U0001f600", "a\U0001f600", "\u00e9\u00e9", "\u0661", "\ud7ff", "\uffff", "\ue000"]
NAME_CLASSES = {
    "plain": NAMES_PLAIN, "reserved": NAMES_RESERVED, "digits": NAMES_DIGITS, "punct": NAMES_PUNCT,
    "quote": NAMES_QUOTE, "ctrl": NAMES_CTRL, "unicode": NAMES_UNI, "format": NAMES_FORMAT,
}
ALL_NAMES = [n for v in NAME_CLASSES.values() for n in v]
NAME_CLASS_OF = {n: c for c, v in NAME_CLASSES.items() for n in v}


def over_limit(name):
    """A canonical decimal integer beyond the pointer classes' index limits (+-(2^53-1)): pointer TEXT holding such a
    token is refused by a documented extension, so clauses that go through pointer text skip such names."""
    import re as _re

    return isinstance(name, str) and bool(_re.fullmatch(r"-?(?:0|[1-9][0-9]*)", name)) and len(name) < 400 and abs(int(name)) > 2 ** 53 - 1


def name_class(n):
    return NAME_CLASS_OF.get(n, "other")


def pick_name(r, hostile=0.5):
    if r.random() < hostile:
        return r.choice(ALL_NAMES)
    return r.choice(NAMES_PLAIN)


class DocGen:
    """Documents: depth <= max_depth, fan-out <= 5.  profile "unique": every leaf is
    distinct (strings "v<n>" and distinct ints) so a value identifies its node;
    profile "lookalike": leaves from the bool/number/empty look-alike pool."""

    LOOKALIKE = [True, False, 0, 1, -1, 1.0, 0.0, 0.5, 2, "", "a", "b", "1", "0", "true", None, [], {}, [1], [True], [1.0], {"a": 1}, {"a": True},
                 '{"a": 1}', "[1, 2]", '"q"', "{bad", "null", "[]", '{"a": {"b": [0]}}']   # strings that happen to hold JSON text

    def __init__(self, r, *, profile="unique", hostile=0.5, max_depth=4, fan=4, names=None, alias=0.0):
        self.r = r
        self.profile = profile
        self.hostile = hostile
        self.max_depth = max_depth
        self.fan = fan
        self.n = 0
        self.names = names
        self.alias = alias      # probability of re-using an already built container object at another location
        self.built = []

    def leaf(self):
        r = self.r
        if self.profile == "lookalike" or (self.profile == "mixed" and r.random() < 0.5):
            v = r.choice(self.LOOKALIKE)
            return [] if v == [] and isinstance(v, list) else ({} if v == {} and isinstance(v, dict) else (list(v) if isinstance(v, list) else (dict(v) if isinstance(v, dict) else v)))
        self.n += 1
        k = r.random()
        if k < 0.04:
            return r.choice(['{"a": "v%d", "b": [%d]}', '["v%d", %d]', '{"v%d": %d', '"v%d-%d"']) % (self.n, self.n)   # a string leaf holding JSON text
        if k < 0.45:
            return "v%d" % self.n
        if k < 0.8:
            return 1000 + self.n
        if k < 0.9:
            return 1000 + self.n + 0.5
        return r.choice([None, True, False])

    def name(self):
        if self.names is not None and self.r.random() < 0.8:
            return self.r.choice(self.names)
        return pick_name(self.r, self.hostile)

    def value(self, depth=0, force=None):
        r = self.r
        k = force or ("leaf" if depth >= self.max_depth else r.choice(["obj", "arr", "leaf", "obj", "arr"]))
        if depth == 0 and force is None:
            k = r.choice(["obj", "arr"])
        if self.alias and depth > 0 and self.built and k != "leaf" and r.random() < self.alias:
            return r.choice(self.built)  # the same Python object at a second location (no cycles: built bottom-up)
        if k == "obj":
            out = {}
            for _ in range(r.randint(0, self.fan)):
                out[self.name()] = self.value(depth + 1)
            if depth > 0:
                self.built.append(out)
            return out
        if k == "arr":
            out = [self.value(depth + 1) for _ in range(r.randint(0, self.fan + 1))]
            if depth > 0:
                self.built.append(out)
            return out
        return self.leaf()


def gen_doc(r, **kw):
    return DocGen(r, **kw).value()


def deep_doc(r, depth):
    """A document nested `depth` levels (the depth-stress class; <= 60 << 100)."""
    v = "bottom"
    for i in range(depth):
        v = {r.choice(["a", "b"]): v, "k": i} if r.random() < 0.5 else [i, v]
    return v


def doc_names(doc):
    out = []
    stack = [doc]
    while stack:
        v = stack.pop()
        if isinstance(v, dict):
            for k, x in v.items():
                if k not in out:
                    out.append(k)
                stack.append(x)
        elif isinstance(v, list):
            stack.extend(v)
    return out


INTS = [0, 1, 2, 3, -1, -2, -3, 4, 5, -5, 7, -7, 10]


def gen_slice(r):
    def b():
        return None if r.random() < 0.3 else r.choice(INTS)
    c = None if r.random() < 0.35 else r.choice([1, 2, -1, -2, 3, -3, 0, 1, -1])
    return ["slice", b(), b(), c]


def gen_selector(r, names, *, filters=None, keys=False):
    k = r.random()
    if filters is not None and k < 0.18:
        return ["filter", filters()]
    if keys and k < 0.28:
        return ["keys"]
    k = r.random()
    if k < 0.4:
        return ["name", r.choice(names) if names and r.random() < 0.85 else pick_name(r)]
    if k < 0.62:
        return ["index", r.choice(INTS)]
    if k < 0.82:
        return gen_slice(r)
    return ["wild"]


def gen_segments(r, names, *, max_segs=4, filters=None, keys=False, desc=0.25):
    segs = []
    for _ in range(r.randint(0 if r.random() < 0.05 else 1, max_segs)):
        typ = "desc" if r.random() < desc else "child"
        n = 1 if r.random() < 0.65 else r.randint(2, 4)
        segs.append([typ, [gen_selector(r, names, filters=filters, keys=keys) for _ in range(n)]])
    return segs


def gen_guided_segments(r, doc, *, max_segs=4, filters=None, keys=False, desc=0.25):
    """Walk the document so most selectors hit something."""
    segs = []
    cur = doc
    for _ in range(r.randint(1, max_segs)):
        typ = "desc" if r.random() < desc else "child"
        sels = []
        n = 1 if r.random() < 0.65 else r.randint(2, 3)
        nxt = cur
        for _i in range(n):
            k = r.random()
            if isinstance(cur, dict) and cur and k < 0.6:
                name = r.choice(list(cur))
                sels.append(["name", name])
                nxt = cur[name]
            elif isinstance(cur, list) and cur and k < 0.6:
                i = r.randrange(len(cur))
                if r.random() < 0.5:
                    sels.append(["index", i if r.random() < 0.6 else i - len(cur)])
                else:
                    sels.append(gen_slice(r))
                nxt = cur[i]
            else:
                sels.append(gen_selector(r, doc_names(doc)[:20], filters=filters, keys=keys))
                if isinstance(cur, dict) and cur:
                    nxt = cur[r.choice(list(cur))]
                elif isinstance(cur, list) and cur:
                    nxt = r.choice(cur)
        segs.append([typ, sels])
        cur = nxt
    return segs


def gen_std_query(r, doc, **kw):
    if r.random() < 0.6:
        return ["q", "$", gen_guided_segments(r, doc, **kw)]
    return ["q", "$", gen_segments(r, doc_names(doc)[:20] or NAMES_PLAIN, **kw)]


# ---------------------------------------------------------------- regex patterns

REGEX_LITS = "abcxyz01 -_"


def gen_regex(r, depth=0):
    """Return (pattern, witness) in the I-Regexp/Python common dialect; witness is a
    string the pattern fully matches."""
    k = r.random()
    if depth > 2 or k < 0.35:
        ch = r.choice(REGEX_LITS + ".*+?()[]{}|\\")
        if ch in ".*+?()[]{}|\\-^$":
            return "\\" + ch, ch
        return ch, ch
    if k < 0.45:
        return ".", r.choice("abcxyz019 ")
    if k < 0.6:
        lo = r.choice("abcx0")
        hi = chr(ord(lo) + r.randint(0, 3))
        neg = r.random() < 0.3
        if neg:
            return "[^%s-%s]" % (lo, hi), r.choice("QRSTUVW~")
        extra = r.choice(["", "_", "9"])
        return "[%s-%s%s]" % (lo, hi, extra), chr(r.randint(ord(lo), ord(hi)))
    if k < 0.75:
        p1, w1 = gen_regex(r, depth + 1)
        p2, w2 = gen_regex(r, depth + 1)
        return p1 + p2, w1 + w2
    if k < 0.85:
        p1, w1 = gen_regex(r, depth + 1)
        p2, w2 = gen_regex(r, depth + 1)
        return "(%s|%s)" % (p1, p2), r.choice([w1, w2])
    p, w = gen_regex(r, depth + 1)
    q = r.choice(["*", "+", "?", "{2}", "{1,2}", "{0,}"])
    reps = {"*": r.randint(0, 2), "+": r.randint(1, 2), "?": r.randint(0, 1), "{2}": 2, "{1,2}": r.randint(1, 2), "{0,}": r.randint(0, 2)}[q]
    return "(%s)%s" % (p, q), w * reps


# ---------------------------------------------------------------- typed filters

CMP_OPS = ["==", "!=", "<", "<=", ">", ">="]
# numbers that are different but close, or equal across int/float; ints beyond 2^53 only as document values
# (an integer literal is read through a double, which the statement's I-JSON range leaves alone)
NEAR_NUMBERS = [0.3, 0.1 + 0.2, 0.30000000000000004, 1, 1.0, 1.0000000001, 1.0000000000000002, 0.9999999999, 1e15, 1e15 + 0.125, 1e-7, 1.0000000001e-7, 100, 100.00000001, -0.3, -0.30000000000000004,
        1e308, 1.0000000001e308, 5e-324, 1e-323, 0.0, 2 ** 53, 2 ** 53 + 1, float(2 ** 53), float(2 ** 53) + 2, 10 ** 30, 1e30, 10 ** 30 + 1, -(2 ** 53) - 1, -float(2 ** 53), 123456789.125, 123456789.12500001]
LIT_POOL = [None, True, False, 0, 1, -1, 2, 1.0, 0.5, 1.5, "", "a", "b", "1", "v1", -0.0, 1e308, 5e-324, 9007199254740991, -9007199254740991, 1e-7, 123456789.125]


class FilterGen:
    """Well-typed RFC 9535 filter expressions (2.4.3).  `names` are the member names
    expressions mention; documents are built from the same names."""

    def __init__(self, r, names, *, max_depth=3, ext=False, strings=None, nest=2):
        self.r = r
        self.names = names
        self.max_depth = max_depth
        self.ext = ext
        self.strings = strings or ["a", "b", "ab", "v1", "xaby", "", "\\u{41}", "\\uD83D", "a\\", "\\n", "%s", "{0}"]
        self.nest = nest
        self.witnesses = []

    def rel_segments(self, singular, depth):
        r = self.r
        n = r.randint(0 if not singular else 0, 2)
        segs = []
        for _ in range(n):
            if singular:
                sel = ["name", r.choice(self.names)] if r.random() < 0.75 else ["index", r.choice([0, 1, -1, 2])]
                segs.append(["child", [sel]])
            else:
                typ = "desc" if r.random() < 0.15 else "child"
                k = r.random()
                if k < 0.5:
                    sel = ["name", r.choice(self.names)]
                elif k < 0.65:
                    sel = ["index", r.choice([0, 1, -1, 2])]
                elif k < 0.8:
                    sel = ["wild"]
                elif k < 0.9:
                    sel = gen_slice(r)
                elif depth < self.nest:
                    sel = ["filter", self.logical(depth + 1)]
                else:
                    sel = ["wild"]
                segs.append([typ, [sel]])
        return segs

    def query(self, singular, depth):
        r = self.r
        k = r.random()
        root = "@" if k < 0.7 else "$"
        if self.ext and k > 0.9:
            root = "_"
        q = ["q", root, self.rel_segments(singular, depth)]
        if singular:
            assert is_singular(q) or root == "_"
        return q

    def value_call(self, depth):
        r = self.r
        k = r.random()
        if k < 0.4:
            return ["call", "length", [self.comparable(depth + 1, allow_call=depth < self.max_depth)]]
        if k < 0.7:
            return ["call", "count", [["nodes", self.query(False, depth)]]]
        return ["call", "value", [["nodes", self.query(False, depth)]]]

    def literal(self):
        r = self.r
        k = r.random()
        if k < 0.35:
            return ["lit", r.choice(self.strings)]
        return ["lit", r.choice(LIT_POOL)]

    def comparable(self, depth, allow_call=True):
        r = self.r
        k = r.random()
        if k < 0.4:
            return ["sq", self.query(True, depth)]
        if k < 0.8 or not allow_call:
            return self.literal()
        return self.value_call(depth)

    def logical_call(self, depth):
        r = self.r
        name = r.choice(["match", "search"])
        pattern, witness = gen_regex(r)
        self.witnesses += [witness, "q" + witness + "k", witness + "zz"]
        if r.random() < 0.8:
            arg2 = ["lit", pattern]
        else:
            arg2 = ["sq", self.query(True, depth)]
        k = r.random()
        if k < 0.5:
            arg1 = ["sq", self.query(True, depth)]
        elif k < 0.85:
            if name == "search":
                subj = r.choice(["q", "zz", "-"]) + witness + r.choice(["", "k"])
            else:
                subj = witness if r.random() < 0.6 else witness + r.choice(["k", "zz"])
            if "." in pattern and ("\n" in subj or "\r" in subj):
                subj = subj.replace("\n", "").replace("\r", "")
            arg1 = ["lit", subj]
        else:
            arg1 = self.comparable(depth + 1, allow_call=False)
        return ["call", name, [arg1, arg2]]

    def basic(self, depth):
        r = self.r
        k = r.random()
        if k < 0.35:
            return ["test", self.query(r.random() < 0.4, depth)]
        if k < 0.8:
            op = r.choice(CMP_OPS)
            return ["cmp", op, self.comparable(depth), self.comparable(depth)]
        if k < 0.92:
            return self.logical_call(depth)
        return ["paren", self.logical(depth + 1)]

    def logical(self, depth=0):
        r = self.r
        if depth >= self.max_depth:
            return self.basic(depth)
        k = r.random()
        if k < 0.45:
            return self.basic(depth)
        if k < 0.62:
            return ["or", self.logical(depth + 1), self.logical(depth + 1)]
        if k < 0.8:
            return ["and", self.logical(depth + 1), self.logical(depth + 1)]
        if k < 0.92:
            return ["not", self.logical(depth + 1)]
        return ["paren", self.logical(depth + 1)]


def filter_doc(r, names, strings, depth=0):
    """Documents for filters: built from the names the expressions mention, with
    look-alike leaves and strings the regex witnesses are drawn from."""
    leafs = [True, False, None, 0, 1, -1, 2, 1.0, 0.5, 1.5, "", "a", "b", "1", "v1", -0.0, 1e308, 9007199254740991, 1e-7] + list(strings)

    def val(d):
        k = r.random()
        if d >= 3 or k < 0.45:
            return r.choice(leafs)
        if k < 0.75:
            return {r.choice(names): val(d + 1) for _ in range(r.randint(0, 3))}
        return [val(d + 1) for _ in range(r.randint(0, 3))]
    if r.random() < 0.5:
        return [val(1) for _ in range(r.randint(1, 5))]
    return {r.choice(names + ["k%d" % i]): val(1) for i in range(r.randint(1, 5))}


# ---------------------------------------------------------------- documented extensions (C13)

MEM_LEAVES = ["a", "b", "ab", "xaby", "", "v1", 2, 3, 10, None, 2.5]
CTX_DEFAULT = {"max$": 1, "max_": 2, "$": "x", "k": 2, "s": "xaby", "list": ["a", 2, None, "v1"], "o": {"a": 1, "b": {"k": 3}}, "n": None, "names": ["a", "b"], "t": ["number"], "types": {"number": 1}}


class ExtFilterGen(FilterGen):
    """FilterGen plus the documented non-standard constructs."""

    def __init__(self, r, names, **kw):
        kw.setdefault("ext", True)
        super().__init__(r, names, **kw)

    def literal(self):
        r = self.r
        return ["lit", r.choice(MEM_LEAVES)]

    def collection(self, depth):
        r = self.r
        k = r.random()
        if k < 0.35:
            return ["list", [r.choice(MEM_LEAVES) for _ in range(r.randint(0, 4))]]
        if k < 0.55:
            return ["sq", ["q", "_", [["child", [["name", r.choice(["list", "s", "o", "names", "k", "zz"])]]]]]]
        if k < 0.7:
            return ["lit", r.choice(["xaby", "ab", "", "a"])]
        return ["sq", self.query(True, depth)]

    def elem(self, depth):
        r = self.r
        k = r.random()
        if k < 0.45:
            return ["lit", r.choice(MEM_LEAVES)]
        if k < 0.6:
            return ["key"]
        return ["sq", self.query(True, depth)]

    def basic(self, depth):
        r = self.r
        k = r.random()
        if k < 0.14:
            return ["cmp", "in", self.elem(depth), self.collection(depth)]
        if k < 0.26:
            return ["cmp", "contains", self.collection(depth), self.elem(depth)]
        if k < 0.38:
            pattern, witness = gen_regex(r)
            flags = "".join(sorted(r.sample("aims", r.randint(0, 2))))
            if r.random() < 0.25:
                flags = "".join(r.choice("aims") for _ in range(r.randint(1, 3)))  # repeats and any order are legal
            self.witnesses += [witness, witness.upper(), "q" + witness, witness + "\n" + witness]
            return ["cmp", "=~", ["sq", self.query(True, depth)] if r.random() < 0.8 else ["key"], ["regex", pattern, flags]]
        if k < 0.5:
            kv = r.choice(self.names + [0, 1, 2, "", "0"])
            return ["cmp", r.choice(["==", "!=", "<", ">="]), ["key"], ["lit", kv]]
        if k < 0.6:
            return ["cmp", r.choice(["==", "!="]), ["sq", self.query(True, depth)], ["undef"]]
        if k < 0.66:
            return ["cmp", r.choice(["==", "!="]), ["undef"], ["sq", self.query(True, depth)]]
        if k < 0.74:
            return ["test", ["q", "_", [["child", [["name", r.choice(["k", "o", "zz", "n", "list"])]]]] + ([["child", [["name", r.choice(["a", "b", "k"])]]]] if r.random() < 0.4 else [])]]
        if k < 0.8:
            return ["cmp", r.choice(CMP_OPS), ["sq", self.query(True, depth)], ["sq", ["q", "_", [["child", [["name", r.choice(["k", "s", "n", "zz"])]]]]]]]
        return super().basic(depth)


def ext_doc(r, names, extra=()):
    """Documents for the extension class: leaves avoid boolean/number look-alikes (the
    documentation does not say whether `true in [1]`), strings come from the regex witness pool."""
    leafs = list(MEM_LEAVES) + ["q-k", "aab", "AB", "x y", "a\nb"] + list(extra) * 3

    def val(d):
        k = r.random()
        if d >= 3 or k < 0.4:
            return r.choice(leafs)
        if k < 0.72:
            return {r.choice(names + [""]): val(d + 1) for _ in range(r.randint(0, 3))}
        return [val(d + 1) for _ in range(r.randint(0, 4))]
    if r.random() < 0.5:
        return [val(1) for _ in range(r.randint(1, 5))]
    return {r.choice(names + ["", "k%d" % i]): val(1) for i in range(r.randint(1, 5))}


# ---------------------------------------------------------------- other Mapping / Sequence implementations

def exotic(doc, r, p=0.4):
    """The same JSON value built from other Mapping/Sequence implementations the library says it
    accepts (tuple, OrderedDict, UserDict, MappingProxyType, dict subclass with __missing__)."""
    import collections
    import types

    class Missing(dict):
        def __missing__(self, key):
            return "DEFAULT-FROM-__missing__"

    def conv(v, depth):
        if isinstance(v, dict):
            d = {(r.choice([StrSub, MarkupStr])(k) if r.random() < p / 3 else k): conv(x, depth + 1) for k, x in v.items()}
            if r.random() < p:
                kind = r.choice(["ordered", "user", "proxy", "dict-subclass"])
                if kind == "ordered":
                    return collections.OrderedDict(d)
                if kind == "user":
                    return collections.UserDict(d)
                if kind == "dict-subclass":
                    return DictSub(d)
                return types.MappingProxyType(d)
            return d
        if isinstance(v, list):
            l = [conv(x, depth + 1) for x in v]
            if r.random() < p:
                kind = r.choice(["tuple", "userlist", "custom", "list-subclass"])
                if kind == "tuple":
                    return tuple(l)
                if kind == "userlist":
                    return collections.UserList(l)
                if kind == "list-subclass":
                    return ListSub(l)
                return CustomSeq(l)
            return l
        # scalars of subclasses of the built-in types (what enum members, numpy-free "tagged" strings etc. look like)
        if r.random() < p / 2:
            if isinstance(v, bool) or v is None:
                return v
            if isinstance(v, str):
                return r.choice([StrSub, MarkupStr])(v)
            if isinstance(v, int):
                return IntSub(v)
            if isinstance(v, float):
                return FloatSub(v)
        return v
    return conv(doc, 0)


def exotic_mutable(doc, r, p=0.6):
    """The same JSON value held in MUTABLE dict / list subclasses (OrderedDict, defaultdict, plain subclasses): what
    json.load(..., object_pairs_hook=OrderedDict) and similar loaders produce; JSON Patch can work on these."""
    import collections

    def conv(v):
        if isinstance(v, dict):
            d = {k: conv(x) for k, x in v.items()}
            if r.random() < p:
                kind = r.choice(["ordered", "default", "subclass"])
                if kind == "ordered":
                    return collections.OrderedDict(d)
                if kind == "default":
                    dd = collections.defaultdict(None)
                    dd.update(d)
                    return dd
                return DictSub(d)
            return d
        if isinstance(v, list):
            l = [conv(x) for x in v]
            return ListSub(l) if r.random() < p else l
        return v
    return conv(doc)


import collections.abc as _abc


class StrSub(str):
    __slots__ = ()


class MarkupStr(str):
    """A str subclass in the style of markupsafe.Markup: the operators and methods that build new text return the
    subclass and HTML-escape the *other* operand.  Code that assembles text around such a value with +, %, join,
    format, translate or replace gets something else than it would for a plain str."""
    __slots__ = ()

    @staticmethod
    def _esc(x):
        if isinstance(x, MarkupStr):
            return str.__str__(x)
        return str(x).replace("&", "&amp;").replace("<", "&lt;").replace(">", "&gt;").replace("'", "&#39;").replace('"', "&#34;")

    def __add__(self, other):
        return MarkupStr(str.__str__(self) + self._esc(other)) if isinstance(other, str) else NotImplemented

    def __radd__(self, other):
        return MarkupStr(self._esc(other) + str.__str__(self)) if isinstance(other, str) else NotImplemented

    def __mod__(self, arg):
        return MarkupStr(str.__mod__(self, tuple(self._esc(a) for a in arg) if isinstance(arg, tuple) else self._esc(arg)))

    def join(self, seq):
        return MarkupStr(str.join(self, [self._esc(x) for x in seq]))

    def format(self, *a, **kw):
        return MarkupStr(str.format(self, *[self._esc(x) for x in a], **{k: self._esc(v) for k, v in kw.items()}))

    def translate(self, table):
        return MarkupStr(str.translate(self, table))

    def replace(self, *a):
        return MarkupStr(str.replace(self, *a))


class IntSub(int):
    __slots__ = ()


class FloatSub(float):
    __slots__ = ()


class DictSub(dict):
    pass


class ListSub(list):
    pass


class CustomSeq(_abc.Sequence):
    """A user-defined array type (collections.abc.Sequence), as the documentation allows."""

    def __init__(self, items):
        self._items = list(items)

    def __getitem__(self, i):
        return self._items[i]

    def __len__(self):
        return len(self._items)


def plain(v):
    """Back to dict/list (for comparison)."""
    from collections.abc import Mapping, Sequence

    if isinstance(v, Mapping):
        return {k: plain(x) for k, x in v.items()}
    if isinstance(v, Sequence) and not isinstance(v, (str, bytes)):
        return [plain(x) for x in v]
    return v
