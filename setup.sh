#!/bin/bash
# setup_cmd: offline; installs icontract beside the harness (from the wheelhouse) and
# runs the reference models' self-tests against the RFC example tables.
cd "$(dirname "$0")" || exit 1
export PYTHONDONTWRITEBYTECODE=1
if [ ! -d .deps/icontract ]; then
  /venv/bin/pip install -q --no-index --find-links /opt/veriftools/wheels --target .deps icontract >/dev/null 2>&1 || echo "icontract not installed; hand-written contracts are used"
fi
mkdir -p out evidence
/venv/bin/python -B -m rt.selftest_models
