#!/usr/bin/env python3
"""Regenerate MANIFEST.json from the table below (keeps it schema-valid)."""
import json, os
HERE = os.path.dirname(os.path.abspath(__file__))
CHECKS = {}
exec(open(os.path.join(HERE, "manifest_table.py")).read())
props = [json.loads(l) for l in open(os.path.join(HERE, "properties.jsonl"))]
checks = []
na = []
for p in props:
    pid = p["id"]
    if pid in CHECKS:
        c = CHECKS[pid]
        checks.append({
            "property_id": pid,
            "quick_cmd": "./check %s --tier quick" % pid,
            "thorough_cmd": "./check %s --tier thorough" % pid,
            "evidence_file": "evidence/%s.json" % pid,
            "replay_cmd_template": "./check %s --replay {path}" % pid,
            "engine": "rt-harness",
            "level_claimed": {"category": c.get("category", "exploration"), "text": c["text"], "design_ref": "DESIGN.md section 6 (%s)" % pid},
            "level_note": c["note"],
            "technique": c["technique"],
        })
    else:
        na.append({"property_id": pid, "reason": NOT_YET.get(pid, "check not built yet in this session; no claim is made")})
m = {
    "version": 1,
    "setup_cmd": "./setup.sh",
    "hooks": {
        "guard": "JG_RP_PYTHON_JSONPATH_VERIF",
        "enable": "checks export JG_RP_PYTHON_JSONPATH_VERIF=1 and install their monitors from the harness (rt/hooks.py, rt/mon.py) by rebinding attributes the library resolves at call time; no source change in /repo is needed, so the tree is used as it stands",
        "baseline_off_cmd": "cd /repo && /venv/bin/python -m pytest -q -p no:cacheprovider --timeout=900 --continue-on-collection-errors",
        "source_commits": [],
        "add_only": True,
    },
    "engines": [{"name": "rt-harness", "path": "rt/harness.py", "serves_properties": sorted(CHECKS), "kind_free_text": "runtime monitoring: seeded hostile workloads against the real library, reference-model oracles on every execution, hooks + sys.monitoring censuses, sharded over 16 processes"}],
    "checks": checks,
    "notes": NOTES,
    "not_applicable": na,
}
json.dump(m, open(os.path.join(HERE, "MANIFEST.json"), "w"), indent=1)
print("checks:", [c["property_id"] for c in checks], "not claimed:", [n["property_id"] for n in na])
